/-
  Host-group remapping of `Writer.addIndex` (`addHosts`, `placeGroup`, `placeGroups`): every host of every
  reader group ends up, under the returned remap, in a writer group at an index that holds the same address
  bytes; writer groups only grow (helper lemmas for the full C07 statement).
-/
import Pk.Proofs.MergeFullDefs
namespace Pk.Index
open Pk Pk.Bytes

/-- `add` on a non-empty table only succeeds for hosts of the table's size -/
theorem mfh_add_size (g g' : HostGroup) (host : Bytes) (i : Nat) (added : Bool) (hne : g.hosts.length ≠ 0)
    (h : g.add host = some (g', i, added)) : g.hostSize = host.length := by
  unfold HostGroup.add at h
  simp only [hne, if_false] at h
  split at h
  · simp at h
  · rename_i hs
    simpa using hs

/-- a host of a reader group is an address -/
theorem mfh_get_length (rg : RHostGroup) (hr : rg.Inv) (i : Nat) (hi : i < rg.hostCount) :
    (rg.get i).length = rg.hostSize := by
  unfold RHostGroup.get
  simp only [List.length_take, List.length_drop, hr.len]
  have : rg.hostSize * i + rg.hostSize ≤ rg.hostSize * rg.hostCount := by
    rw [← Nat.mul_succ]; exact Nat.mul_le_mul_left _ hi
  omega

theorem mfh_get_addr (rg : RHostGroup) (hr : rg.Inv) (i : Nat) (hi : i < rg.hostCount) : HostAddr (rg.get i) := by
  unfold HostAddr
  rw [mfh_get_length rg hr i hi]
  exact hr.size

theorem mfh_hostCount_le (rg : RHostGroup) (hr : rg.Inv) : rg.hostCount ≤ 16384 := by
  have h1 := hr.len
  have h2 := hr.bound
  rw [h1] at h2
  rcases hr.size with h | h <;> rw [h] at h2 <;> omega

/-- a successful `addHosts`: the group is extended, the remap gains one entry per host, each pointing to the
    bytes of that host -/
theorem mfh_addHosts_ok (rhg : RHostGroup) (hs : List Nat) : ∀ (g : HostGroup) (remap : List Nat) (n : Nat),
    g.Inv → (∀ h ∈ hs, HostAddr (rhg.get h)) →
    ∀ {g' : HostGroup} {remap' : List Nat} {n' : Nat}, addHosts rhg hs g remap n = (g', remap', n', false) →
      GroupExt g g' ∧ (∀ h ∈ hs, (rhg.get h).length = g.hostSize) ∧
      ∃ r : List Nat, remap' = remap ++ r ∧ r.length = hs.length ∧
        ∀ (i j : Nat), r[i]? = some j → ∃ h, hs[i]? = some h ∧ g'.Valid j ∧ g'.hostAt j = rhg.get h := by
  induction hs with
  | nil =>
    intro g remap n _ _ g' remap' n' h
    simp [addHosts] at h
    obtain ⟨rfl, rfl, _⟩ := h
    exact ⟨GroupExt.refl _, by simp, [], by simp, rfl, by simp⟩
  | cons h hs ih =>
    intro g remap n hg hh g' remap' n' heq
    simp only [addHosts] at heq
    split at heq
    · simp at heq
    · rename_i g1 idx added hadd
      have hg1 := add_inv g _ hg hadd
      have hne : g.hosts.length ≠ 0 := by have := hg.nonempty; omega
      have hsz := mfh_add_size g g1 _ idx added hne hadd
      obtain ⟨hext, hv, hat⟩ := add_ext g g1 _ idx added hg (hh h (by simp)) hadd
      obtain ⟨hext', hlen', r, hr, hrl, hrs⟩ := ih g1 _ _ hg1 (fun x hx => hh x (by simp [hx])) heq
      refine ⟨hext.trans hext', ?_, idx :: r, by rw [hr]; simp, by simp [hrl], ?_⟩
      · intro x hx
        simp at hx
        rcases hx with rfl | hx
        · exact hsz.symm
        · rw [hlen' x hx, hext.1]
      · intro i j hij
        cases i with
        | zero =>
          simp at hij
          subst hij
          obtain ⟨v, e⟩ := hext'.2 idx hv
          exact ⟨h, by simp, v, e.trans hat⟩
        | succ i =>
          simp at hij
          obtain ⟨x, hx, v, e⟩ := hrs i j hij
          exact ⟨x, by simpa using hx, v, e⟩

/-- what one `placeGroup` call returns: the groups are extended position by position; the remap points to a
    group (at real position `p`, id `(idx + p) % 65536`) that holds every host of the reader group -/
theorem mfh_placeGroup_spec (rhg : RHostGroup) (hr : rhg.Inv) (gs : List HostGroup) (hgs : GroupsInv gs) (idx : Nat) :
    GroupsExt gs (placeGroup rhg gs idx).1 ∧ (placeGroup rhg gs idx).2.hostRemap.length = rhg.hostCount ∧
    ∃ (p : Nat) (g' : HostGroup), (placeGroup rhg gs idx).2.group = (idx + p) % 65536 ∧
      (placeGroup rhg gs idx).1[p]? = some g' ∧ g'.hostSize = rhg.hostSize ∧
      ∀ (i j : Nat), (placeGroup rhg gs idx).2.hostRemap[i]? = some j → g'.Valid j ∧ g'.hostAt j = rhg.get i := by
  induction gs generalizing idx with
  | nil =>
    simp only [placeGroup]
    refine ⟨fun k g hk => by simp at hk, by simp, 0,
      { hostSize := rhg.hostSize, hosts := rhg.hosts }, rfl, by simp, rfl, ?_⟩
    intro i j hij
    simp only [List.getElem?_map, Option.map_eq_some_iff] at hij
    obtain ⟨a, ha, rfl⟩ := hij
    have hi : i < rhg.hostCount := by
      rcases Nat.lt_or_ge i rhg.hostCount with h | h
      · exact h
      · simp [List.getElem?_eq_none (l := List.range rhg.hostCount) (by simpa using h)] at ha
    have ha' : a = i := by
      rw [List.getElem?_range hi] at ha; simpa using ha.symm
    subst ha'
    have hc := mfh_hostCount_le rhg hr
    have hmod : a % 65536 = a := Nat.mod_eq_of_lt (by omega)
    rw [hmod]
    refine ⟨?_, rfl⟩
    unfold HostGroup.Valid
    simp only [hr.len]
    rw [← Nat.mul_succ]; exact Nat.mul_le_mul_left _ hi
  | cons g gs ih =>
    have hg : g.Inv := hgs g (by simp)
    have hrest : GroupsInv gs := fun x hx => hgs x (by simp [hx])
    simp only [placeGroup]
    cases hadd : addHosts rhg (List.range rhg.hostCount) g [] 0 with
    | mk g' r =>
      obtain ⟨remap, nAdded, failed⟩ := r
      simp only
      cases failed with
      | true =>
        simp only [if_true]
        obtain ⟨_, hsz, _, ext, hx, hxl⟩ := addHosts_spec rhg _ g [] 0 hg hadd
        rw [popN_restore g g' nAdded ext hsz hx (by simpa using hxl)]
        obtain ⟨hext, hlen, p, g2, hgrp, hg2, hs2, hrm⟩ := ih hrest (idx + 1)
        refine ⟨GroupsExt.cons (GroupExt.refl g) hext, hlen, p + 1, g2, ?_, by simpa using hg2, hs2, hrm⟩
        rw [hgrp]; congr 1; omega
      | false =>
        simp only [Bool.false_eq_true, if_false]
        have haddr : ∀ h ∈ List.range rhg.hostCount, HostAddr (rhg.get h) :=
          fun h hh => mfh_get_addr rhg hr h (by simpa using hh)
        obtain ⟨hext, hlen, r, hr', hrl, hrs⟩ := mfh_addHosts_ok rhg _ g [] 0 hg haddr hadd
        simp only [List.nil_append] at hr'
        subst hr'
        refine ⟨GroupsExt.cons hext (GroupsExt.refl gs), by simpa using hrl, 0, g', rfl, by simp, ?_, ?_⟩
        · have hpos := hr.nonempty
          have h0 := hlen 0 (by simpa using hpos)
          rw [hext.1, ← h0, mfh_get_length rhg hr 0 hpos]
        · intro i j hij
          obtain ⟨h, hh, v, e⟩ := hrs i j hij
          have hi : i < rhg.hostCount := by
            rcases Nat.lt_or_ge i rhg.hostCount with h' | h'
            · exact h'
            · simp [List.getElem?_eq_none (l := List.range rhg.hostCount) (by simpa using h')] at hh
          rw [List.getElem?_range hi] at hh
          simp at hh
          subst hh
          exact ⟨v, e⟩

theorem mfh_getElem?_lt {α : Type} (l : List α) (k : Nat) (x : α) (h : l[k]? = some x) : k < l.length := by
  rcases Nat.lt_or_ge k l.length with h' | h'
  · exact h'
  · simp [List.getElem?_eq_none h'] at h

theorem placeGroups_spec (rgs : List RHostGroup) (hr : ∀ g ∈ rgs, g.Inv) (gs : List HostGroup) (hgs : GroupsInv gs) :
    GroupsInv (placeGroups rgs gs).1 ∧ GroupsExt gs (placeGroups rgs gs).1 ∧ (placeGroups rgs gs).2.length = rgs.length ∧
    (∀ (k : Nat) (rg : RHostGroup) (m : HgRemap), rgs[k]? = some rg → (placeGroups rgs gs).2[k]? = some m →
      m.hostRemap.length = rg.hostCount) ∧
    ((placeGroups rgs gs).1.length ≤ 65536 → ∀ (k : Nat) (rg : RHostGroup) (m : HgRemap), rgs[k]? = some rg →
      (placeGroups rgs gs).2[k]? = some m →
      ∃ g' : HostGroup, (placeGroups rgs gs).1[m.group]? = some g' ∧ g'.hostSize = rg.hostSize ∧
        ∀ (i j : Nat), m.hostRemap[i]? = some j → g'.Valid j ∧ g'.hostAt j = rg.get i) := by
  induction rgs generalizing gs with
  | nil =>
    simp only [placeGroups]
    exact ⟨hgs, GroupsExt.refl gs, rfl, by simp, by simp⟩
  | cons r rs ih =>
    have hr0 : r.Inv := hr r (by simp)
    have hrs : ∀ g ∈ rs, g.Inv := fun x hx => hr x (by simp [hx])
    have hinv1 := placeGroup_inv r hr0 gs hgs 0
    obtain ⟨hext1, hlen1, p, g1, hgrp, hg1, hs1, hrm1⟩ := mfh_placeGroup_spec r hr0 gs hgs 0
    obtain ⟨hinv2, hext2, hlen2, hcnt2, hmap2⟩ := ih hrs (placeGroup r gs 0).1 hinv1
    simp only [placeGroups]
    refine ⟨hinv2, hext1.trans hext2, by simp [hlen2], ?_, ?_⟩
    · intro k rg m hk hm
      cases k with
      | zero =>
        simp at hk hm
        subst hk; subst hm
        exact hlen1
      | succ k =>
        simp at hk hm
        exact hcnt2 k rg m hk hm
    · intro hcap k rg m hk hm
      cases k with
      | zero =>
        simp at hk hm
        subst hk; subst hm
        obtain ⟨g2, hg2, hx⟩ := hext2 p g1 hg1
        have hp := mfh_getElem?_lt _ _ _ hg2
        have hmod : (placeGroup r gs 0).2.group = p := by
          rw [hgrp, Nat.zero_add]; exact Nat.mod_eq_of_lt (by omega)
        refine ⟨g2, by rw [hmod]; exact hg2, by rw [hx.1, hs1], ?_⟩
        intro i j hij
        obtain ⟨v, e⟩ := hrm1 i j hij
        obtain ⟨v', e'⟩ := hx.2 j v
        exact ⟨v', e'.trans e⟩
      | succ k =>
        simp at hk hm
        exact hmap2 hcap k rg m hk hm

theorem GroupsExt_take (gs gs' : List HostGroup) (h : GroupsExt gs gs') : GroupsExt gs (gs'.take gs.length) := by
  intro k g hk
  obtain ⟨g', hg', hx⟩ := h k g hk
  have hlt := mfh_getElem?_lt _ _ _ hk
  exact ⟨g', by rw [List.getElem?_take_of_lt hlt]; exact hg', hx⟩

end Pk.Index
