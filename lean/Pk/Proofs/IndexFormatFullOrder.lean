/-
  The order of the by-first-packet-source lookup and the binary search over it
  (helper lemmas for C01 `lookup_by_first_packet_exact`).
-/
import Pk.Model.IndexFormat
import Pk.Proofs.IndexFormatSearch
namespace Pk.Index
open Pk Pk.Bytes

/-! ### Go's `<` on strings is a strict total order -/

theorem blt_irrefl (a : Bytes) : Bytes.lt a a = false := by
  induction a with
  | nil => rfl
  | cons x t ih => simp [Bytes.lt, ih]

theorem blt_trans : ∀ (a b c : Bytes), Bytes.lt a b = true → Bytes.lt b c = true → Bytes.lt a c = true := by
  intro a
  induction a with
  | nil =>
    intro b c h1 h2
    cases b with
    | nil => simp [Bytes.lt] at h1
    | cons y u => cases c with
      | nil => simp [Bytes.lt] at h2
      | cons z v => simp [Bytes.lt]
  | cons x t ih =>
    intro b c h1 h2
    cases b with
    | nil => simp [Bytes.lt] at h1
    | cons y u => cases c with
      | nil => simp [Bytes.lt] at h2
      | cons z v =>
        simp only [Bytes.lt] at h1 h2 ⊢
        by_cases hxy : x.toNat < y.toNat
        · by_cases hyz : y.toNat < z.toNat
          · have : x.toNat < z.toNat := by omega
            simp [this]
          · simp only [hyz, if_false] at h2
            by_cases hzy : z.toNat < y.toNat
            · simp [hzy] at h2
            · have : x.toNat < z.toNat := by omega
              simp [this]
        · simp only [hxy, if_false] at h1
          by_cases hyx : y.toNat < x.toNat
          · simp [hyx] at h1
          · simp only [hyx, if_false] at h1
            have hxy' : x.toNat = y.toNat := by omega
            by_cases hyz : y.toNat < z.toNat
            · have : x.toNat < z.toNat := by omega
              simp [this]
            · simp only [hyz, if_false] at h2
              by_cases hzy : z.toNat < y.toNat
              · simp [hzy] at h2
              · simp only [hzy, if_false] at h2
                have h3 : ¬ x.toNat < z.toNat := by omega
                have h4 : ¬ z.toNat < x.toNat := by omega
                simp only [h3, h4, if_false]
                exact ih u v h1 h2

theorem blt_total : ∀ (a b : Bytes), a ≠ b → Bytes.lt a b = true ∨ Bytes.lt b a = true := by
  intro a
  induction a with
  | nil =>
    intro b h
    cases b with
    | nil => exact absurd rfl h
    | cons y u => simp [Bytes.lt]
  | cons x t ih =>
    intro b h
    cases b with
    | nil => simp [Bytes.lt]
    | cons y u =>
      simp only [Bytes.lt]
      by_cases hxy : x.toNat < y.toNat
      · simp [hxy]
      · by_cases hyx : y.toNat < x.toNat
        · simp [hyx]
        · simp only [hxy, hyx, if_false]
          have hxy' : x = y := UInt8.toNat_inj.mp (by omega)
          subst hxy'
          exact ih u (fun hh => h (by rw [hh]))

theorem blt_asymm (a b : Bytes) (h : Bytes.lt a b = true) : Bytes.lt b a = false := by
  cases hba : Bytes.lt b a with
  | false => rfl
  | true =>
    have := blt_trans a b a h hba
    rw [blt_irrefl] at this; cases this

/-! ### (file name, packet index) in lexicographic order -/

def lexLt (p q : Bytes × Nat) : Bool := if p.1 ≠ q.1 then Bytes.lt p.1 q.1 else decide (p.2 < q.2)

def lexLe (p q : Bytes × Nat) : Bool := !(lexLt q p)

theorem lexLt_irrefl (p : Bytes × Nat) : lexLt p p = false := by simp [lexLt]

theorem lexLt_trans (p q r : Bytes × Nat) (h1 : lexLt p q = true) (h2 : lexLt q r = true) : lexLt p r = true := by
  obtain ⟨pf, pi⟩ := p; obtain ⟨qf, qi⟩ := q; obtain ⟨rf, ri⟩ := r
  simp only [lexLt] at h1 h2 ⊢
  by_cases hpq : pf = qf
  · subst hpq
    by_cases hqr : pf = rf
    · subst hqr
      simp at h1 h2 ⊢; omega
    · simp [hqr] at h2 ⊢; exact h2
  · simp only [ne_eq, hpq, not_false_eq_true, if_true] at h1
    by_cases hqr : qf = rf
    · subst hqr
      simp [hpq]; exact h1
    · simp only [ne_eq, hqr, not_false_eq_true, if_true] at h2
      have h3 := blt_trans pf qf rf h1 h2
      have hpr : pf ≠ rf := by
        intro h; subst h
        rw [blt_irrefl] at h3; cases h3
      simp [hpr, h3]

theorem lexLt_total (p q : Bytes × Nat) (h : p ≠ q) : lexLt p q = true ∨ lexLt q p = true := by
  obtain ⟨pf, pi⟩ := p; obtain ⟨qf, qi⟩ := q
  simp only [lexLt]
  by_cases hpq : pf = qf
  · subst hpq
    have : pi ≠ qi := fun hh => h (by rw [hh])
    simp; omega
  · have hqp : qf ≠ pf := fun hh => hpq hh.symm
    simp only [ne_eq, hpq, hqp, not_false_eq_true, if_true]
    exact blt_total pf qf hpq

theorem lexLt_asymm (p q : Bytes × Nat) (h : lexLt p q = true) : lexLt q p = false := by
  cases hba : lexLt q p with
  | false => rfl
  | true =>
    have := lexLt_trans p q p h hba
    rw [lexLt_irrefl] at this; cases this

theorem lexLe_iff (p q : Bytes × Nat) : lexLe p q = true ↔ p = q ∨ lexLt p q = true := by
  unfold lexLe
  constructor
  · intro h
    by_cases hpq : p = q
    · exact Or.inl hpq
    · rcases lexLt_total p q hpq with h1 | h1
      · exact Or.inr h1
      · simp [h1] at h
  · rintro (rfl | h)
    · simp [lexLt_irrefl]
    · simp [lexLt_asymm p q h]

theorem lexLe_refl (p : Bytes × Nat) : lexLe p p = true := (lexLe_iff p p).mpr (Or.inl rfl)

theorem lexLe_trans (p q r : Bytes × Nat) (h1 : lexLe p q = true) (h2 : lexLe q r = true) : lexLe p r = true := by
  rw [lexLe_iff] at h1 h2 ⊢
  rcases h1 with rfl | h1
  · exact h2
  · rcases h2 with rfl | h2
    · exact Or.inr h1
    · exact Or.inr (lexLt_trans p q r h1 h2)

theorem lexLe_total (p q : Bytes × Nat) : (lexLe p q || lexLe q p) = true := by
  by_cases hpq : p = q
  · subst hpq; simp [lexLe_refl]
  · rcases lexLt_total p q hpq with h | h
    · simp [(lexLe_iff p q).mpr (Or.inr h)]
    · simp [(lexLe_iff q p).mpr (Or.inr h)]

theorem lexLe_antisymm (p q : Bytes × Nat) (h1 : lexLe p q = true) (h2 : lexLe q p = true) : p = q := by
  rw [lexLe_iff] at h1 h2
  rcases h1 with rfl | h1
  · rfl
  · rcases h2 with rfl | h2
    · rfl
    · have := lexLt_asymm p q h1; rw [h2] at this; cases this

/-! ### `sort.Search` only looks at positions inside the range -/

theorem sortSearch_congr (f g : Nat → Bool) : ∀ (n i j : Nat), j - i = n → (∀ m, i ≤ m → m < j → f m = g m) →
    sortSearch f i j = sortSearch g i j := by
  intro n
  induction n using Nat.strongRecOn with
  | _ n ih =>
    intro i j hn hfg
    rw [sortSearch]; conv => rhs; rw [sortSearch]
    by_cases hij : i < j
    · simp only [hij, dite_true]
      rw [hfg ((i + j) / 2) (by omega) (by omega)]
      by_cases hm : g ((i + j) / 2) = true
      · simp only [hm, Bool.not_true, Bool.false_eq_true, if_false]
        exact ih ((i + j) / 2 - i) (by omega) i _ rfl (fun m h1 h2 => hfg m h1 (by omega))
      · have hm' : g ((i + j) / 2) = false := by cases hf : g ((i + j) / 2) <;> simp_all
        simp only [hm', Bool.not_false, if_true]
        exact ih (j - ((i + j) / 2 + 1)) (by omega) _ j rfl (fun m h1 h2 => hfg m (by omega) h2)
    · simp only [hij, dite_false]

/-- a predicate that is monotone on `[0, n)` has a threshold -/
theorem exists_threshold (f : Nat → Bool) : ∀ (n : Nat), (∀ i j, i ≤ j → j < n → f i = true → f j = true) →
    ∃ k, k ≤ n ∧ (∀ i, i < k → f i = false) ∧ (∀ i, k ≤ i → i < n → f i = true) := by
  intro n
  induction n with
  | zero => intro _; exact ⟨0, Nat.le_refl _, by intro i h; omega, by intro i _ h; omega⟩
  | succ n ih =>
    intro hmono
    obtain ⟨k, hk, hlo, hhi⟩ := ih (fun i j h1 h2 h3 => hmono i j h1 (by omega) h3)
    by_cases hkn : k < n
    · refine ⟨k, by omega, hlo, ?_⟩
      intro i h1 h2
      exact hmono k i h1 h2 (hhi k (Nat.le_refl _) hkn)
    · have hkn' : k = n := by omega
      subst hkn'
      cases hf : f k with
      | true =>
        refine ⟨k, by omega, hlo, ?_⟩
        intro i h1 h2
        have : i = k := by omega
        rw [this]; exact hf
      | false =>
        refine ⟨k + 1, Nat.le_refl _, ?_, by intro i h1 h2; omega⟩
        intro i hi
        by_cases hik : i < k
        · exact hlo i hik
        · have : i = k := by omega
          rw [this]; exact hf

/-- `sort.Search` over `[0, n)` for a predicate that is monotone there -/
theorem sortSearch_threshold (f : Nat → Bool) (n : Nat) (hmono : ∀ i j, i ≤ j → j < n → f i = true → f j = true) :
    sortSearch f 0 n ≤ n ∧ (∀ i, i < sortSearch f 0 n → f i = false) ∧
    (∀ i, sortSearch f 0 n ≤ i → i < n → f i = true) := by
  obtain ⟨k, hk, hlo, hhi⟩ := exists_threshold f n hmono
  let g : Nat → Bool := fun i => if i < n then f i else true
  have hfg : sortSearch f 0 n = sortSearch g 0 n :=
    sortSearch_congr f g n 0 n rfl (fun m _ h2 => by simp [g, h2])
  have hg : sortSearch g 0 n = k := by
    apply sortSearch_correct g k ?_ ?_ n 0 n rfl (Nat.zero_le _) hk
    · intro i hi
      have : i < n := by omega
      simp [g, this, hlo i hi]
    · intro i hi
      by_cases hin : i < n
      · simp [g, hin, hhi i hi hin]
      · simp [g, hin]
  rw [hfg, hg]
  exact ⟨hk, hlo, hhi⟩

end Pk.Index
