/-
  Helper lemmas for Pk/Props/C05More.lean, target (1): the transitions of a single conversation
  out of the data phase (FIN, RST) and inside the half-closed phase.
-/
import Pk.Proofs.ImportReasmMoreTear3

namespace Pk.Proofs.ImportReasm
open Pk.Import

/-! ### an accepted packet in terms of the conversation stream -/

theorem halfOf_setHalf_ne' (c : TcpConn) (d : Bool) (h : Half) : halfOf (setHalf c (!d) h) d = halfOf c d := by
  cases d <;> rfl

/-- an accepted packet whose run through the assembler (`feed`) either only records the packet
    (`q`) or delivers one chunk `b` attributed to it -/
theorem convStep_accept_conv {cp : ConvParams} {hs : Stream} {f : Fsm} {k : Bool} {done : List Pkt}
    {chunks : List (Nat × Bytes)} (c : TcpConn) (p : Pkt) (f' : Fsm)
    (hchk : f.check p (pdir cp.e p) = (f', true)) (q : Prop) [Decidable q] (b : Bytes) (h' : Half)
    (hfeed : feed (pdir cp.e p) (convStream cp (hsWith hs f k) done chunks, touch (halfOf c (pdir cp.e p)) p.ts) p =
      (if q then (convStream cp (hsWith hs f k) done chunks).addPkt p.ref (pdir cp.e p)
       else Stream.record (convStream cp (hsWith hs f k) done chunks) p.ref (pdir cp.e p) b, h')) :
    convStep (convStream cp (hsWith hs f k) done chunks) c p (pdir cp.e p) =
      (convStream cp (hsWith hs f' (k || (h'.closed && (halfOf c (!pdir cp.e p)).closed))) (done ++ [p])
        (if q then chunks else (hs.npkts + done.length, b) :: chunks), setHalf c (pdir cp.e p) h') := by
  rw [convStep_accept _ c p _ f' hchk, hfeed]
  simp only [setHalf_closed]
  by_cases hq : q
  · simp only [hq, if_true]
    by_cases hb : h'.closed = true ∧ (halfOf c (!pdir cp.e p)).closed = true
    · rw [if_pos hb, hb.1, hb.2]
      simp [convStream, hsWith, Stream.addPkt, Nat.add_assoc]
    · rw [if_neg hb]
      have : (h'.closed && (halfOf c (!pdir cp.e p)).closed) = false := by
        cases h1 : h'.closed <;> cases h2 : (halfOf c (!pdir cp.e p)).closed <;> simp_all
      rw [this]
      simp [convStream, hsWith, Stream.addPkt, Nat.add_assoc]
  · simp only [hq, if_false]
    by_cases hb : h'.closed = true ∧ (halfOf c (!pdir cp.e p)).closed = true
    · rw [if_pos hb, hb.1, hb.2]
      simp [convStream, hsWith, Stream.record, Nat.add_assoc]
    · rw [if_neg hb]
      have : (h'.closed && (halfOf c (!pdir cp.e p)).closed) = false := by
        cases h1 : h'.closed <;> cases h2 : (halfOf c (!pdir cp.e p)).closed <;> simp_all
      rw [this]
      simp [convStream, hsWith, Stream.record, Nat.add_assoc]

/-! ### chunks, by direction -/

def setCnt (cc cs : Nat) (d : Bool) (v : Nat) : Nat × Nat := if d then (cc, v) else (v, cs)

theorem cntOf_setCnt (cc cs : Nat) (d : Bool) (v : Nat) :
    cntOf (setCnt cc cs d v).1 (setCnt cc cs d v).2 d = v ∧
    cntOf (setCnt cc cs d v).1 (setCnt cc cs d v).2 (!d) = cntOf cc cs (!d) := by
  cases d <;> exact ⟨rfl, rfl⟩

theorem chunks2_add {cp : ConvParams} {n0 : Nat} {done : List Pkt} {cc cs : Nat} {chunks : List (Nat × Bytes)}
    (h : Chunks2 cp n0 done cc cs chunks) (d : Bool) {c' k : Nat} {p : Pkt}
    (h1 : cntOf cc cs d < c') (h2 : c' ≤ (cp.BOf d).length) (h3 : done[k]? = some p) (h4 : DirPkt cp.e p d)
    (h5 : pOff (cp.isnOf d) p ≤ cntOf cc cs d) (h6 : cntOf cc cs d < pEnd (cp.isnOf d) p)
    (h7 : pEnd (cp.isnOf d) p ≤ c') (h8 : ∀ ch ∈ chunks, ch.1 < n0 + k) :
    Chunks2 cp n0 done (setCnt cc cs d c').1 (setCnt cc cs d c').2
      ((n0 + k, slice (cp.BOf d) (cntOf cc cs d) c') :: chunks) := by
  cases d with
  | false =>
    have hdir : isC2S cp.e p := by
      rcases h4 with ⟨_, h⟩ | ⟨h0, _⟩
      · exact h
      · cases h0
    exact .c2s h h1 h2 h3 hdir h5 h6 h7 h8
  | true =>
    have hdir : isS2C cp.e p := by
      rcases h4 with ⟨h0, _⟩ | ⟨_, h⟩
      · cases h0
      · exact h
    exact .s2c h h1 h2 h3 hdir h5 h6 h7 h8

theorem chunks2_le {cp : ConvParams} {n0 : Nat} {done : List Pkt} {cc cs : Nat} {chunks : List (Nat × Bytes)}
    (h : Chunks2 cp n0 done cc cs chunks) : cc ≤ cp.Bc.length ∧ cs ≤ cp.Bs.length := by
  induction h with
  | nil => exact ⟨Nat.zero_le _, Nat.zero_le _⟩
  | c2s _ _ h2 _ _ _ _ _ _ ih => exact ⟨h2, ih.2⟩
  | s2c _ _ h2 _ _ _ _ _ _ ih => exact ⟨ih.1, h2⟩

/-! ### the data phase in selector form -/

/-- the data phase: both half-connections open, `B_d[0..c_d)` delivered, everything that arrived
    is delivered or queued -/
def EstInv (cp : ConvParams) (done : List Pkt) (c : TcpConn) (cc cs : Nat) : Prop :=
  ∀ d, HalfInv (cp.isnOf d) (cp.BOf d) (cntOf cc cs d) (halfOf c d) ∧
    ∀ x, Carried cp done d x → x < cntOf cc cs d ∨ Covered (cp.isnOf d) (halfOf c d).queue x

theorem convInv_skel {cp : ConvParams} {hs : Stream} {done : List Pkt} {r : RState}
    (hfsm : hs.fsm = { state := .established, dir := false }) (hk : hs.complete = false)
    (h : ConvInv cp hs done r) :
    ∃ c cc cs chunks, TSkel cp hs done r { state := .established, dir := false } false c cc cs chunks ∧
      EstInv cp done c cc cs := by
  obtain ⟨c, u, cc, cs, chunks, hr, hconn, hic, his, hls0, hqc, hqs, hch, hcovc, hcovs⟩ := h
  refine ⟨c, cc, cs, chunks, ⟨⟨u, ?_⟩, hconn, hls0, hqc, hqs, hch⟩, ?_⟩
  · rw [← hfsm, ← hk, hsWith_self]; exact hr
  · intro d
    cases d with
    | false =>
      refine ⟨hic, ?_⟩
      rintro x ⟨q, hm, hdir, hx⟩
      refine hcovc x ⟨q, hm, ?_, hx⟩
      rcases hdir with ⟨_, h⟩ | ⟨h0, _⟩
      · exact h
      · cases h0
    | true =>
      refine ⟨his, ?_⟩
      rintro x ⟨q, hm, hdir, hx⟩
      refine hcovs x ⟨q, hm, ?_, hx⟩
      rcases hdir with ⟨h0, _⟩ | ⟨_, h⟩
      · cases h0
      · exact h

/-- everything in front of offset `off` was carried by earlier packets: it has been delivered -/
theorem carried_le {isn : Nat} {B : Bytes} {c : Nat} {h : Half} (hi : HalfInv isn B c h) {P : Nat → Prop}
    (hcov : ∀ x, P x → x < c ∨ Covered isn h.queue x) {off : Nat} (hall : ∀ x, x < off → P x) : off ≤ c := by
  by_cases hlt : c < off
  · rcases hcov c (hall c hlt) with h1 | ⟨pg, hm, h1, _⟩
    · omega
    · have := (hi.q.1 pg hm).2; omega
  · omega

theorem carried_mono {cp : ConvParams} {done : List Pkt} {d : Bool} {x : Nat} (h : Carried cp done d x) (more : List Pkt) :
    Carried cp (done ++ more) d x := by
  obtain ⟨q, hm, hq⟩ := h
  exact ⟨q, List.mem_append_left _ hm, hq⟩

theorem touch_halfInv {isn : Nat} {B : Bytes} {c : Nat} {h : Half} (hi : HalfInv isn B c h) (ts : Nat) :
    HalfInv isn B c (touch h ts) := (touch_inv hi ts).1

/-! ### phase "FIN of direction `d` delivered" -/

/-- `d`'s half-connection is closed and everything `d` sent has been delivered; the other
    half-connection is open and in its data phase -/
structure CWInv (cp : ConvParams) (done : List Pkt) (d : Bool) (c : TcpConn) (cc cs : Nat) : Prop where
  closed : (halfOf c d).closed = true
  full : cntOf cc cs d = (cp.BOf d).length
  opn : HalfInv (cp.isnOf (!d)) (cp.BOf (!d)) (cntOf cc cs (!d)) (halfOf c (!d))
  cov : ∀ x, Carried cp done (!d) x → x < cntOf cc cs (!d) ∨ Covered (cp.isnOf (!d)) (halfOf c (!d)).queue x

theorem check_est_fin (p : Pkt) (d : Bool) (h2 : p.fin = true) (h3 : p.rst = false) :
    ({ state := .established, dir := false } : Fsm).check p d = ({ state := .closeWait, dir := d }, true) := by
  simp [Fsm.check, h2, h3]

theorem check_est_rst (p : Pkt) (d : Bool) (h3 : p.rst = true) :
    ({ state := .established, dir := false } : Fsm).check p d = ({ state := .reset, dir := false }, true) := by
  simp [Fsm.check, h3]

theorem check_cw_seg (p : Pkt) (d x : Bool) (h2 : p.fin = false) (h3 : p.rst = false) (h4 : p.ack = true) :
    ({ state := .closeWait, dir := d } : Fsm).check p x = ({ state := .closeWait, dir := d }, true) := by
  simp [Fsm.check, h2, h3, h4]

theorem check_cw_own (p : Pkt) (d : Bool) (h3 : p.rst = false) :
    (({ state := .closeWait, dir := d } : Fsm).check p d).1 = { state := .closeWait, dir := d } := by
  cases d <;> cases h2 : p.fin <;> cases h4 : p.ack <;> simp [Fsm.check, h2, h3, h4]

theorem check_cw_fin (p : Pkt) (d : Bool) (h2 : p.fin = true) (h3 : p.rst = false) (h4 : p.ack = true) :
    ({ state := .closeWait, dir := d } : Fsm).check p (!d) = ({ state := .lastAck, dir := d }, true) := by
  simp [Fsm.check, h2, h3, h4]

theorem check_cw_rst (p : Pkt) (d x : Bool) (h3 : p.rst = true) :
    ({ state := .closeWait, dir := d } : Fsm).check p x = ({ state := .reset, dir := d }, true) := by
  simp [Fsm.check, h3]

/-- data phase, FIN of direction `d` -/
theorem est_fin_step {cp : ConvParams} {hs : Stream} (hd : cp.e.Distinct)
    (hl : ∀ d, SeqLinear (cp.isnOf d) (cp.BOf d).length)
    {done : List Pkt} {r : RState} {c : TcpConn} {cc cs : Nat} {chunks : List (Nat × Bytes)}
    (h : TSkel cp hs done r { state := .established, dir := false } false c cc cs chunks) (hest : EstInv cp done c cc cs)
    {p : Pkt} {d : Bool} (hp : FinOf cp done p d) :
    ∃ c' cc' cs' chunks', TSkel cp hs (done ++ [p]) (reasmPacket r p) { state := .closeWait, dir := d } false c' cc' cs' chunks' ∧
      CWInv cp (done ++ [p]) d c' cc' cs' := by
  obtain ⟨hcp, hfin, hcar⟩ := hp
  have hpd := hcp.1.pdir hd
  subst hpd
  obtain ⟨hi, hcov⟩ := hest (pdir cp.e p)
  obtain ⟨hio, hcovo⟩ := hest (!pdir cp.e p)
  have hle := carried_le hi hcov hcar
  have hfeed := feed_fin (hl _) (pdir cp.e p) (convStream cp (hsWith hs { state := .established, dir := false } false) done chunks)
    _ p _ (touch_halfInv hi p.ts) hfin hle
  have hstep := convStep_accept_conv c p _ (check_est_fin p _ hfin.1.2.1 hfin.1.2.2) _ _ _ hfeed
  have hoc : (halfOf c (!pdir cp.e p)).closed = false := hio.opn
  rw [hoc] at hstep
  simp only [Bool.and_false, Bool.or_false] at hstep
  have hget : (done ++ [p])[done.length]? = some p := by simp
  have hend : pEnd (cp.isnOf (pdir cp.e p)) p = (cp.BOf (pdir cp.e p)).length := hfin.2.2.1
  have hcnt := cntOf_setCnt cc cs (pdir cp.e p) (cp.BOf (pdir cp.e p)).length
  by_cases hfull : cntOf cc cs (pdir cp.e p) = (cp.BOf (pdir cp.e p)).length
  · rw [if_pos hfull] at hstep
    refine ⟨_, cc, cs, chunks, skel_step hd h hcp hstep (h.ch.mono [p]), ⟨?_, hfull, ?_, ?_⟩⟩
    · rw [halfOf_setHalf]
    · rw [halfOf_setHalf_ne]; exact hio
    · intro x hx
      rw [halfOf_setHalf_ne]
      obtain ⟨q, hm, hq1, hq2⟩ := hx
      rcases List.mem_append.mp hm with hm | hm
      · exact hcovo x ⟨q, hm, hq1, hq2⟩
      · rw [List.mem_singleton.mp hm] at hq1
        have := hq1.pdir hd
        cases hpp : pdir cp.e p <;> rw [hpp] at this <;> cases this
  · rw [if_neg hfull] at hstep
    have hlt : cntOf cc cs (pdir cp.e p) < (cp.BOf (pdir cp.e p)).length := by have := hi.le; omega
    refine ⟨_, _, _, _, skel_step hd h hcp hstep
      (chunks2_add (h.ch.mono [p]) (pdir cp.e p) hlt (Nat.le_refl _) hget hcp.1 hle (by omega) (by omega) h.ch.lt),
      ⟨?_, hcnt.1, ?_, ?_⟩⟩
    · rw [halfOf_setHalf]
    · rw [halfOf_setHalf_ne, hcnt.2]; exact hio
    · intro x hx
      rw [halfOf_setHalf_ne, hcnt.2]
      obtain ⟨q, hm, hq1, hq2⟩ := hx
      rcases List.mem_append.mp hm with hm | hm
      · exact hcovo x ⟨q, hm, hq1, hq2⟩
      · rw [List.mem_singleton.mp hm] at hq1
        have := hq1.pdir hd
        cases hpp : pdir cp.e p <;> rw [hpp] at this <;> cases this

end Pk.Proofs.ImportReasm
