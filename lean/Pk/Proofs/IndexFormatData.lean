/-
  Bookkeeping of the data section: the blob of every stream sits where its record's DataStart says
  (helper lemmas for C01 `roundtrip_blob`).
-/
import Pk.Proofs.IndexFormatHostsRoundtrip
namespace Pk.Index
open Pk Pk.Bytes

/-- the payload blob of stream `s` sits in `data` where its record says -/
def BlobAt (data : Bytes) (s : StreamIn) (rec_ : StreamRec) : Prop :=
  ∃ cds, chunkDirs s.packets s.data = some cds ∧
    rec_.dataStart + (streamBlob cds).length ≤ data.length ∧
    (data.drop rec_.dataStart).take (streamBlob cds).length = streamBlob cds

theorem BlobAt.append {data : Bytes} {s : StreamIn} {r : StreamRec} (h : BlobAt data s r) (more : Bytes) :
    BlobAt (data ++ more) s r := by
  obtain ⟨cds, h1, h2, h3⟩ := h
  refine ⟨cds, h1, by simp; omega, ?_⟩
  rw [take_drop_append_left _ _ _ _ h2]; exact h3

theorem rebase_blobs (w : Writer) (fs : Nat) (data : Bytes) (ss : List StreamIn)
    (h : Zip (BlobAt data) ss w.streams) : Zip (BlobAt data) ss (w.rebase fs).2 := by
  unfold Writer.rebase
  split
  · exact h
  · split
    · exact Zip.mono _ (fun s r hr => by
        obtain ⟨cds, h1, h2, h3⟩ := hr
        exact ⟨cds, h1, h2, h3⟩) h
    · exact h

def DataInv (w : Writer) (ss : List StreamIn) : Prop :=
  w.dataLen = w.blobs.flatten.length ∧ Zip (BlobAt w.blobs.flatten) ss w.streams

theorem addStream_data (w w' : Writer) (ss : List StreamIn) (s : StreamIn) (hinv : DataInv w ss)
    (h : w.addStream s = .ok (w', true)) : DataInv w' (ss ++ [s]) := by
  obtain ⟨p0, pl, gid, cid, sid, cds, recs, _, _, _, hcd, _, hst, hdl, hbl, _, _⟩ := addStream_spec w w' s h
  obtain ⟨hlen, hz⟩ := hinv
  constructor
  · rw [hdl, hbl, hlen]; simp
  · rw [hst, hbl]
    have hflat : (w.blobs ++ [streamBlob cds]).flatten = w.blobs.flatten ++ streamBlob cds := by simp
    rw [hflat]
    have hold : Zip (BlobAt (w.blobs.flatten ++ streamBlob cds)) ss (w.rebase (unixSec p0.ts)).2 := by
      have := rebase_blobs w (unixSec p0.ts) _ ss hz
      have := Zip.mono (R' := BlobAt (w.blobs.flatten ++ streamBlob cds)) id (fun s r hr => hr.append _) this
      simpa using this
    refine hold.append ⟨cds, hcd, ?_, ?_⟩
    · simp only [mkStreamRec, List.length_append]; omega
    · simp only [mkStreamRec, hlen]
      rw [List.drop_left]; simp

theorem addAll_data (ss : List StreamIn) : ∀ (w w' : Writer) (done : List StreamIn), DataInv w done →
    w.addAll ss = some w' → DataInv w' (done ++ ss) := by
  induction ss with
  | nil => intro w w' done hinv h; simp [Writer.addAll] at h; subst h; simpa using hinv
  | cons s ss ih =>
    intro w w' done hinv h
    simp only [Writer.addAll] at h
    split at h
    · rename_i w1 h1
      have := ih w1 w' (done ++ [s]) (addStream_data w w1 done s hinv h1) h
      simpa using this
    · simp at h

end Pk.Index
