/- Helper lemma for C06Reach: the uncertainty sweep `inherit` only adds JUSTIFIED pending streams. -/
import Pk.Proofs.MgrTagsStep
namespace Pk.Proofs.MgrTruth
open Pk.Mgr Pk.Proofs.MgrTags

/-- a pending stream of `tA` is pending for the original entry `t0`, or pending (in table `A`) for a tag that
    `t0` references in its main query, or a tag that `t0` references in a sub-query has a pending stream -/
def Just (A : List (String × Tag)) (t0 tA : Tag) : Prop :=
  ∀ id, id ∈ tA.unc →
    id ∈ t0.unc ∨ (∃ r, r ∈ t0.mainT ∧ id ∈ tagUnc A r) ∨ (∃ r, r ∈ t0.subT ∧ tagUnc A r ≠ [])

theorem Just.congr {A A' : List (String × Tag)} {t0 tA : Tag}
    (h : ∀ r ∈ t0.refs, tagUnc A' r = tagUnc A r) (hj : Just A t0 tA) : Just A' t0 tA := by
  intro id hid
  rcases hj id hid with h1 | ⟨r, hr, h2⟩ | ⟨r, hr, h2⟩
  · exact Or.inl h1
  · exact Or.inr (Or.inl ⟨r, hr, by rw [h r (by simp [hr])]; exact h2⟩)
  · exact Or.inr (Or.inr ⟨r, hr, by rw [h r (by simp [hr])]; exact h2⟩)

theorem inheritOne_just (all : Nat) (A : List (String × Tag)) (t : Tag) : Just A t (inheritOne all A t) := by
  intro id hid
  unfold inheritOne at hid
  split at hid
  · exact Or.inl hid
  · split at hid
    · rename_i h
      simp only [List.any_eq_true] at h
      obtain ⟨r, hr, hne⟩ := h
      refine Or.inr (Or.inr ⟨r, hr, ?_⟩)
      intro e; rw [e] at hne; simp at hne
    · simp only [mem_foldl_union] at hid
      rcases hid with hid | ⟨r, hr, hid⟩
      · exact Or.inl hid
      · exact Or.inr (Or.inl ⟨r, hr, hid⟩)

/-- the invariant of the sweep: an unresolved name still has its original entry; a resolved name has all its
    references resolved and an entry that is justified w.r.t. the current table -/
def SInv (T0 : List (String × Tag)) (acc : List (String × Tag) × List String) : Prop :=
  ∀ n t0, sget T0 n = some t0 → ∃ tA, sget acc.1 n = some tA ∧ (n ∉ acc.2 → tA = t0) ∧
    (n ∈ acc.2 → (∀ r ∈ t0.refs, r ∈ acc.2) ∧ Just acc.1 t0 tA)

theorem passStep_sinv (all : Nat) (T0 : List (String × Tag)) (acc) (nt : String × Tag) (h : SInv T0 acc) :
    SInv T0 (passStep all acc nt) := by
  unfold passStep
  split
  · exact h
  · rename_i hnr
    split
    · exact h
    · rename_i t ht
      split
      · rename_i hall
        simp only [List.all_eq_true, List.contains_iff_mem] at hall
        simp only [List.contains_iff_mem] at hnr
        intro m t0 h0
        obtain ⟨tA, hA, hu, hr⟩ := h m t0 h0
        by_cases hm : nt.1 = m
        · subst hm
          rw [ht] at hA; cases hA
          have e := hu hnr
          subst e
          refine ⟨inheritOne all acc.1 t, by simp [sget_sins], fun hn => absurd (List.mem_cons_self) hn, fun _ => ?_⟩
          refine ⟨fun r hr => List.mem_cons_of_mem _ (by simpa using hall r hr), ?_⟩
          apply (inheritOne_just all acc.1 t).congr
          intro r hr
          refine tagUnc_sins_ne _ _ ?_
          rintro rfl
          exact hnr (by simpa using hall _ hr)
        · refine ⟨tA, by simp [sget_sins, hm, hA], fun hn => hu fun hc => hn (List.mem_cons_of_mem _ hc), fun hn => ?_⟩
          have hmr : m ∈ acc.2 := by
            rcases List.mem_cons.1 hn with e | e
            · exact absurd e.symm hm
            · exact e
          obtain ⟨h1, h2⟩ := hr hmr
          refine ⟨fun r hr => List.mem_cons_of_mem _ (h1 r hr), ?_⟩
          apply h2.congr
          intro r hr
          refine tagUnc_sins_ne _ _ ?_
          rintro rfl
          exact hnr (h1 _ hr)
      · exact h

/-- every stream that is pending for a tag after the sweep was pending before, or is pending (after the sweep) for a
    tag it references in its main query, or some tag it references in a sub-query has a pending stream (after the sweep) -/
theorem inherit_sound' (s : St)
    (n : String) (t t' : Tag) (ht : sget s.tags n = some t) (ht' : sget (inherit s).tags n = some t')
    (id : Nat) (hid : id ∈ t'.unc) :
    id ∈ t.unc ∨ (∃ r, r ∈ t.mainT ∧ id ∈ tagUnc (inherit s).tags r) ∨ (∃ r, r ∈ t.subT ∧ tagUnc (inherit s).tags r ≠ []) := by
  obtain ⟨res, h, _⟩ := inheritLoop_inv s.all (SInv s.tags) (passStep_sinv s.all s.tags)
    (s.tags.length + 1) s.tags [] (fun m t0 h0 => ⟨t0, h0, fun _ => rfl, fun hc => by simp at hc⟩)
  rw [inherit_tags] at ht' ⊢
  obtain ⟨tA, hA, hu, hr⟩ := h n t ht
  simp only [] at hA
  rw [ht'] at hA; cases hA
  by_cases hn : n ∈ res
  · exact (hr hn).2 id hid
  · have := hu hn; subst this; exact Or.inl hid

/-- the same with the (unused) well-formedness hypothesis of the callers -/
theorem inherit_sound (s : St) (_hw : Sorted s.tags)
    (n : String) (t t' : Tag) (ht : sget s.tags n = some t) (ht' : sget (inherit s).tags n = some t')
    (id : Nat) (hid : id ∈ t'.unc) :
    id ∈ t.unc ∨ (∃ r, r ∈ t.mainT ∧ id ∈ tagUnc (inherit s).tags r) ∨ (∃ r, r ∈ t.subT ∧ tagUnc (inherit s).tags r ≠ []) :=
  inherit_sound' s n t t' ht ht' id hid

end Pk.Proofs.MgrTruth
