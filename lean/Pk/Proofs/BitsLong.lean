/-
  Helper lemmas for C17: LongBitmask.  Property theorems are in Pk/Props/C17.lean.
-/
import Pk.Model.Bits
import Pk.Proofs.Bits

set_option linter.unusedSimpArgs false

namespace Pk.Proofs.Bits
open Pk.Bits

namespace Long
open Pk.Bits.Long

theorem isSet_eq (l : Long) (x : Nat) : isSet l x = (word l (x / 64)).getLsbD (x % 64) := by
  unfold isSet word
  split
  · rfl
  · simp [List.getD_eq_getElem?_getD, List.getElem?_eq_none (Nat.le_of_not_lt ‹_›)]

theorem word_of_ge (l : Long) (i : Nat) (h : l.length ≤ i) : word l i = 0#64 := by
  simp [word, List.getD_eq_getElem?_getD, List.getElem?_eq_none h]

theorem word_set (l : Long) (i j : Nat) (v : W) :
    word (List.set l i v) j = if i = j ∧ i < l.length then v else word l j := by
  simp only [word, List.getD_eq_getElem?_getD, List.getElem?_set]
  by_cases h : i = j
  · subst h; by_cases h2 : i < l.length <;> simp [h2]
  · simp [h]

theorem word_append_zero (p z : Long) (hz : ∀ w ∈ z, w = 0#64) (i : Nat) :
    word (p ++ z) i = word p i := by
  simp only [word, List.getD_eq_getElem?_getD]
  by_cases h : i < p.length
  · rw [List.getElem?_append_left h]
  · rw [List.getElem?_append_right (by omega), List.getElem?_eq_none (l := p) (by omega)]
    cases hh : z[i - p.length]? with
    | none => rfl
    | some w => simp; exact hz w (List.mem_of_getElem? hh)

theorem word_grow (l : Long) (idx i : Nat) : word (grow l idx) i = word l i := by
  unfold grow; split
  · apply word_append_zero; intro w hw; simp at hw; exact hw.2
  · rfl

theorem length_grow (l : Long) (idx : Nat) : idx < (grow l idx).length := by
  unfold grow; split
  · simp; omega
  · omega

theorem isSet_set_word (l : Long) (b x : Nat) (f : W → W → W) :
    isSet (List.set (grow l (b / 64)) (b / 64) (f (word (grow l (b / 64)) (b / 64)) (bitW (b % 64)))) x
      = if x / 64 = b / 64 then (f (word l (b / 64)) (bitW (b % 64))).getLsbD (x % 64) else isSet l x := by
  simp only [isSet_eq, word_set, word_grow, length_grow, and_true]
  by_cases h : b / 64 = x / 64 <;> simp [h, eq_comm]

theorem set_isSet (l : Long) (b x : Nat) : isSet (Long.set l b) x = (x == b || isSet l x) := by
  unfold Long.set; simp only []
  rw [isSet_set_word l b x (fun m b => m ||| b)]
  split
  · rw [BitVec.getLsbD_or, getLsbD_bitW _ _ (Nat.mod_lt _ (by omega)), isSet_eq]
    have e : decide (x % 64 = b % 64) = decide (x = b) := decide_eq_decide.mpr (by omega)
    rw [e, ‹x / 64 = b / 64›, Bool.or_comm]; by_cases hh : x = b <;> simp [hh]
  · have : x ≠ b := by intro h; simp_all
    simp [this]


theorem flip_isSet (l : Long) (b x : Nat) : isSet (Long.flip l b) x = (if x = b then !isSet l x else isSet l x) := by
  unfold Long.flip; simp only []
  rw [isSet_set_word l b x (fun m b => m ^^^ b)]
  split
  · rw [BitVec.getLsbD_xor, getLsbD_bitW _ _ (Nat.mod_lt _ (by omega)), isSet_eq]
    have e : decide (x % 64 = b % 64) = decide (x = b) := decide_eq_decide.mpr (by omega)
    rw [e, ‹x / 64 = b / 64›]; by_cases h : x = b <;> simp [h]
  · have : x ≠ b := by intro h; simp_all
    simp [this]

theorem unset_isSet (l : Long) (b x : Nat) : isSet (Long.unset l b) x = (x != b && isSet l x) := by
  unfold Long.unset
  split
  · by_cases h : x = b
    · subst h; simp [isSet_eq, word_of_ge _ _ ‹_›]
    · simp [h]
  · simp only [isSet_eq, word_set]
    by_cases h : b / 64 = x / 64
    · have e : decide (x % 64 = b % 64) = decide (x = b) := decide_eq_decide.mpr (by omega)
      have : b / 64 < l.length := by omega
      rw [if_pos ⟨h, this⟩, BitVec.getLsbD_and, BitVec.getLsbD_not, getLsbD_bitW _ _ (Nat.mod_lt b (show 0 < 64 by omega)), e, h]
      by_cases h : x = b <;> simp [h, Bool.and_comm, Nat.mod_lt]
    · have : x ≠ b := by intro h; simp_all
      simp [this, h]

theorem word_or (a b : Long) (i : Nat) : word (Long.or a b) i = word a i ||| word b i := by
  fun_induction Long.or a b generalizing i <;> cases i <;> simp_all [word]
theorem word_xor (a b : Long) (i : Nat) : word (Long.xor a b) i = word a i ^^^ word b i := by
  fun_induction Long.xor a b generalizing i <;> cases i <;> simp_all [word]
theorem word_and (a b : Long) (i : Nat) : word (Long.and a b) i = word a i &&& word b i := by
  fun_induction Long.and a b generalizing i <;> cases i <;> simp_all [word]
theorem word_sub (a b : Long) (i : Nat) : word (Long.sub a b) i = word a i &&& ~~~ word b i := by
  have h1 : ∀ w : W, w &&& 18446744073709551615#64 = w := by
    intro w; exact BitVec.and_allOnes (x := w)
  fun_induction Long.sub a b generalizing i <;> cases i <;> simp_all [word]

theorem or_isSet (a b : Long) (x : Nat) : isSet (Long.or a b) x = (isSet a x || isSet b x) := by
  simp [isSet_eq, word_or]
theorem and_isSet (a b : Long) (x : Nat) : isSet (Long.and a b) x = (isSet a x && isSet b x) := by
  simp [isSet_eq, word_and]
theorem xor_isSet (a b : Long) (x : Nat) : isSet (Long.xor a b) x = (isSet a x != isSet b x) := by
  simp [isSet_eq, word_xor]
theorem sub_isSet (a b : Long) (x : Nat) : isSet (Long.sub a b) x = (isSet a x && !isSet b x) := by
  simp [isSet_eq, word_sub, Nat.mod_lt]

theorem word_cons_zero (w : W) (ws : Long) : word (w :: ws) 0 = w := by simp [word]
theorem word_cons_succ (w : W) (ws : Long) (i : Nat) : word (w :: ws) (i + 1) = word ws i := by simp [word]
theorem word_nil (i : Nat) : word [] i = 0#64 := by simp [word]

theorem isSet_nil (x : Nat) : isSet [] x = false := by simp [isSet]

theorem isSet_cons (w : W) (ws : Long) (x : Nat) :
    isSet (w :: ws) x = if x < 64 then w.getLsbD x else isSet ws (x - 64) := by
  simp only [isSet_eq]
  split
  · have h1 : x / 64 = 0 := by omega
    have h2 : x % 64 = x := by omega
    rw [h1, h2, word_cons_zero]
  · have h1 : x / 64 = (x - 64) / 64 + 1 := by omega
    have h2 : x % 64 = (x - 64) % 64 := by omega
    rw [h1, h2, word_cons_succ]

theorem isSet_append (p q : Long) (x : Nat) :
    isSet (p ++ q) x = if x < 64 * p.length then isSet p x else isSet q (x - 64 * p.length) := by
  induction p generalizing x with
  | nil => simp
  | cons w ws ih =>
    rw [List.cons_append, isSet_cons, isSet_cons, ih]
    simp only [List.length_cons]
    by_cases h : x < 64
    · have : x < 64 * (ws.length + 1) := by omega
      simp [h, this]
    · by_cases h2 : x < 64 * (ws.length + 1)
      · have : x - 64 < 64 * ws.length := by omega
        simp [h, h2, this]
      · have : ¬ x - 64 < 64 * ws.length := by omega
        have e : x - 64 - 64 * ws.length = x - 64 * (ws.length + 1) := by omega
        simp [h, h2, this, e]

theorem isSet_ext_iff (a b : Long) : (∀ x, isSet a x = isSet b x) ↔ ∀ i, word a i = word b i := by
  constructor
  · intro h i
    apply word_ext
    intro j hj
    have := h (64 * i + j)
    rw [isSet_eq, isSet_eq] at this
    have h1 : (64 * i + j) / 64 = i := by omega
    have h2 : (64 * i + j) % 64 = j := by omega
    rw [h1, h2] at this; exact this
  · intro h x
    rw [isSet_eq, isSet_eq, h]

theorem isSet_funext_iff (a b : Long) : isSet a = isSet b ↔ ∀ i, word a i = word b i := by
  rw [← isSet_ext_iff]
  constructor
  · intro h x; rw [h]
  · intro h; funext x; exact h x

theorem mem_takeWhile_imp {p : W → Bool} {l : List W} {w : W} (h : w ∈ l.takeWhile p) : p w = true := by
  induction l with
  | nil => simp at h
  | cons a as ih =>
    rw [List.takeWhile_cons] at h
    split at h
    · rcases List.mem_cons.mp h with h | h
      · subst h; assumption
      · exact ih h
    · simp at h

theorem shrink_append (l : Long) : ∃ z : Long, (∀ w ∈ z, w = 0#64) ∧ l = shrink l ++ z := by
  refine ⟨(l.reverse.takeWhile (· == 0#64)).reverse, ?_, ?_⟩
  · intro w hw
    rw [List.mem_reverse] at hw
    have := mem_takeWhile_imp hw
    simpa using this
  · unfold shrink
    rw [← List.reverse_append, List.takeWhile_append_dropWhile, List.reverse_reverse]

theorem word_shrink (l : Long) (i : Nat) : word (shrink l) i = word l i := by
  obtain ⟨z, hz, hl⟩ := shrink_append l
  conv => rhs; rw [hl]
  rw [word_append_zero _ _ hz]

theorem shrink_isSet (l : Long) (x : Nat) : isSet (shrink l) x = isSet l x := by
  rw [isSet_eq, isSet_eq, word_shrink]

theorem all_zero_iff (l : Long) : l.all (· == 0#64) = true ↔ ∀ i, word l i = 0#64 := by
  induction l with
  | nil => simp [word_nil]
  | cons w ws ih =>
    rw [List.all_cons, Bool.and_eq_true, ih]
    constructor
    · rintro ⟨h1, h2⟩ i
      cases i with
      | zero => rw [word_cons_zero]; simpa using h1
      | succ i => rw [word_cons_succ]; exact h2 i
    · intro h
      refine ⟨?_, fun i => ?_⟩
      · have := h 0; rw [word_cons_zero] at this; simp [this]
      · have := h (i + 1); rw [word_cons_succ] at this; exact this

theorem equal_iff_word (a b : Long) : Long.equal a b = true ↔ ∀ i, word a i = word b i := by
  fun_induction Long.equal a b with
  | case1 bs => rw [all_zero_iff]; simp only [word_nil]; constructor <;> intro h i <;> rw [h i]
  | case2 as _ => rw [all_zero_iff]; simp only [word_nil]
  | case3 a as b bs ih =>
    rw [Bool.and_eq_true, ih]
    constructor
    · rintro ⟨h1, h2⟩ i
      cases i with
      | zero => simpa [word_cons_zero] using h1
      | succ i => rw [word_cons_succ, word_cons_succ]; exact h2 i
    · intro h
      refine ⟨?_, fun i => ?_⟩
      · have := h 0; rw [word_cons_zero, word_cons_zero] at this; simp [this]
      · have := h (i + 1); rw [word_cons_succ, word_cons_succ] at this; exact this

theorem equal_iff (a b : Long) : Long.equal a b = true ↔ isSet a = isSet b := by
  rw [equal_iff_word, isSet_funext_iff]

theorem isZero_iff (l : Long) : isZero l = true ↔ ∀ x, isSet l x = false := by
  unfold isZero
  rw [all_zero_iff]
  have := isSet_ext_iff l []
  simp only [isSet_nil, word_nil] at this
  exact this.symm

theorem lenAux_spec (ws : Long) (idx : Nat) :
    (lenAux ws idx = 0 ∧ ∀ x, isSet ws x = false) ∨
    (idx * 64 < lenAux ws idx ∧ isSet ws (lenAux ws idx - 1 - idx * 64) = true ∧
      ∀ x, lenAux ws idx ≤ idx * 64 + x → isSet ws x = false) := by
  induction ws generalizing idx with
  | nil => left; exact ⟨rfl, isSet_nil⟩
  | cons w ws ih =>
    unfold lenAux
    simp only []
    rcases ih (idx + 1) with ⟨h0, hz⟩ | ⟨hlt, hset, hclr⟩
    · rw [h0]
      by_cases hw : w = 0#64
      · left
        refine ⟨by simp [hw], fun x => ?_⟩
        rw [isSet_cons, hz]; subst hw; simp
      · right
        have hne : len64 w ≠ 0 := fun h => hw ((len64_eq_zero w).1 h)
        have hle := len64_le w
        simp only [ne_eq, not_true_eq_false, if_false, hw, not_false_eq_true, if_true]
        refine ⟨by omega, ?_, fun x hx => ?_⟩
        · have e : idx * 64 + len64 w - 1 - idx * 64 = len64 w - 1 := by omega
          rw [e, isSet_cons, if_pos (by omega)]
          exact getLsbD_len64_pred hw
        · rw [isSet_cons]
          split
          · exact getLsbD_of_len64_le w x (by omega)
          · exact hz _
    · right
      have hne : lenAux ws (idx + 1) ≠ 0 := by omega
      simp only [ne_eq, hne, not_false_eq_true, if_true]
      refine ⟨by omega, ?_, fun x hx => ?_⟩
      · rw [isSet_cons, if_neg (by omega)]
        have e : lenAux ws (idx + 1) - 1 - idx * 64 - 64 = lenAux ws (idx + 1) - 1 - (idx + 1) * 64 := by omega
        rw [e]; exact hset
      · rw [isSet_cons, if_neg (by omega)]
        exact hclr _ (by omega)

theorem len_sup (l : Long) :
    (∀ x, len l ≤ x → isSet l x = false) ∧ (0 < len l → isSet l (len l - 1) = true) := by
  unfold len
  rcases lenAux_spec l 0 with ⟨h0, hz⟩ | ⟨hlt, hset, hclr⟩
  · exact ⟨fun x _ => hz x, fun h => by omega⟩
  · refine ⟨fun x hx => hclr x (by omega), fun _ => ?_⟩
    simpa using hset

theorem onesCount_cons (w : W) (ws : Long) : onesCount (w :: ws) = popcount w + onesCount ws := by
  simp [onesCount]

theorem onesCount_card (l : Long) :
    onesCount l = (List.range (64 * l.length)).countP (isSet l) := by
  induction l with
  | nil => simp [onesCount]
  | cons w ws ih =>
    have e : 64 * (w :: ws).length = 64 + 64 * ws.length := by simp; omega
    have h1 : popcount w = (List.range 64).countP (isSet (w :: ws)) := by
      unfold popcount
      apply List.countP_congr
      intro x hx
      have : x < 64 := List.mem_range.mp hx
      rw [isSet_cons, if_pos this]
    have h2 : (List.range (64 * ws.length)).countP (isSet ws) =
        (List.range (64 * ws.length)).countP (fun i => isSet (w :: ws) (64 + i)) := by
      apply List.countP_congr
      intro x _
      rw [isSet_cons, if_neg (by omega)]
      have : 64 + x - 64 = x := by omega
      rw [this]
    rw [e, countP_range_add, onesCount_cons, ih, h1, h2]

theorem nextAux_spec (l : Long) (fuel bit : Nat) :
    (∀ n, nextAux l bit fuel = some n →
      bit ≤ n ∧ n < bit + fuel ∧ isSet l n = true ∧ ∀ y, bit ≤ y → y < n → isSet l y = false) ∧
    (nextAux l bit fuel = none → ∀ y, bit ≤ y → y < bit + fuel → isSet l y = false) := by
  induction fuel generalizing bit with
  | zero =>
    unfold nextAux
    refine ⟨fun n h => by simp at h, fun _ y h1 h2 => by omega⟩
  | succ fuel ih =>
    unfold nextAux
    by_cases hb : isSet l bit = true
    · rw [if_pos hb]
      refine ⟨fun n h => ?_, fun h => by simp at h⟩
      have : bit = n := by simpa using h
      subst this
      exact ⟨Nat.le_refl _, by omega, hb, fun y h1 h2 => by omega⟩
    · rw [if_neg hb]
      have hb' : isSet l bit = false := by simpa using hb
      obtain ⟨ih1, ih2⟩ := ih (bit + 1)
      refine ⟨fun n h => ?_, fun h y h1 h2 => ?_⟩
      · obtain ⟨a, b, c, d⟩ := ih1 n h
        refine ⟨by omega, by omega, c, fun y h1 h2 => ?_⟩
        by_cases hy : y = bit
        · subst hy; exact hb'
        · exact d y (by omega) h2
      · by_cases hy : y = bit
        · subst hy; exact hb'
        · exact ih2 h y (by omega) (by omega)

theorem isSet_of_ge (l : Long) (x : Nat) (h : 64 * l.length ≤ x) : isSet l x = false := by
  rw [isSet_eq, word_of_ge l _ (by omega)]; simp

theorem next_least (l : Long) (bit : Nat) :
    (∀ n, next l bit = some n → bit ≤ n ∧ isSet l n = true ∧ ∀ y, bit ≤ y → y < n → isSet l y = false) ∧
    (next l bit = none → ∀ y, bit ≤ y → isSet l y = false) := by
  unfold next
  split
  · refine ⟨fun n h => by simp at h, fun _ y hy => isSet_of_ge l y (by omega)⟩
  · obtain ⟨h1, h2⟩ := nextAux_spec l (l.length * 64 - bit) bit
    refine ⟨fun n h => ?_, fun h y hy => ?_⟩
    · obtain ⟨a, _, c, d⟩ := h1 n h
      exact ⟨a, c, d⟩
    · by_cases hlt : y < l.length * 64
      · exact h2 h y hy (by omega)
      · exact isSet_of_ge l y (by omega)

theorem injectWords_isSet (ws : Long) (bit : Nat) (v : Bool) (x : Nat) (hb : bit < 64)
    (hne : ws ≠ [] ∨ bit = 0) :
    isSet (injectWords ws bit v) x =
      if x < bit then isSet ws x else if x = bit then v else isSet ws (x - 1) := by
  induction ws generalizing bit v x with
  | nil =>
    have hb0 : bit = 0 := by rcases hne with h | h; exact absurd rfl h; exact h
    subst hb0
    unfold injectWords
    cases v
    · simp [isSet_nil]
    · simp only [if_true, isSet_cons, isSet_nil, Nat.not_lt_zero, if_false]
      by_cases h0 : x = 0
      · subst h0; simp
      · simp only [h0, if_false]
        split
        · rw [BitVec.getLsbD_one]; simp [h0]
        · rfl
  | cons m ms ih =>
    unfold injectWords
    simp only []
    rw [isSet_cons]
    by_cases hx : x < 64
    · rw [if_pos hx, injectWord_getLsbD m bit v x hb hx, isSet_cons, if_pos hx, isSet_cons,
        if_pos (show x - 1 < 64 by omega)]
    · rw [if_neg hx, ih 0 _ _ (by omega) (Or.inr rfl), if_neg (Nat.not_lt_zero _),
        if_neg (show ¬ x < bit by omega), if_neg (show ¬ x = bit by omega), isSet_cons (x := x - 1)]
      by_cases h64 : x = 64
      · subst h64; simp
      · rw [if_neg (show ¬ x - 64 = 0 by omega), if_neg (show ¬ x - 1 < 64 by omega)]
        have : x - 64 - 1 = x - 1 - 64 := by omega
        rw [this]

theorem isSet_take (l : Long) (k x : Nat) (hk : k ≤ l.length) (hx : x < 64 * k) :
    isSet (l.take k) x = isSet l x := by
  conv => rhs; rw [← List.take_append_drop k l]
  rw [isSet_append, List.length_take, Nat.min_eq_left hk, if_pos hx]

theorem isSet_drop (l : Long) (k y : Nat) (hk : k ≤ l.length) :
    isSet (l.drop k) y = isSet l (64 * k + y) := by
  conv => rhs; rw [← List.take_append_drop k l]
  rw [isSet_append, List.length_take, Nat.min_eq_left hk, if_neg (by omega)]
  have : 64 * k + y - 64 * k = y := by omega
  rw [this]

theorem inject_isSet (l : Long) (bit : Nat) (v : Bool) (x : Nat) :
    isSet (inject l bit v) x =
      if x < bit then isSet l x else if x = bit then v else isSet l (x - 1) := by
  unfold inject
  by_cases hge : bit / 64 ≥ l.length
  · rw [if_pos hge]
    have hclr : ∀ y, bit ≤ y → isSet l y = false := fun y hy => isSet_of_ge l y (by omega)
    by_cases h1 : x < bit
    · rw [if_pos h1]
      cases v
      · simp
      · rw [if_pos rfl, set_isSet]
        have : x ≠ bit := by omega
        simp [this]
    · rw [if_neg h1]
      by_cases h2 : x = bit
      · rw [if_pos h2]
        cases v
        · simp; rw [h2]; exact hclr _ (Nat.le_refl _)
        · rw [if_pos rfl, set_isSet]; simp [h2]
      · rw [if_neg h2, hclr (x - 1) (by omega)]
        cases v
        · simp; exact hclr _ (by omega)
        · rw [if_pos rfl, set_isSet, hclr x (by omega)]; simp [h2]
  · rw [if_neg hge]
    have hk : bit / 64 ≤ l.length := by omega
    have hdm := Nat.div_add_mod bit 64
    have hm : bit % 64 < 64 := Nat.mod_lt _ (by omega)
    rw [isSet_append, List.length_take, Nat.min_eq_left hk]
    by_cases hx : x < 64 * (bit / 64)
    · rw [if_pos hx, if_pos (by omega), isSet_take l _ _ hk hx]
    · rw [if_neg hx, injectWords_isSet _ _ _ _ hm (Or.inl (by
        intro h; have := congrArg List.length h; simp at this; omega))]
      rw [isSet_drop _ _ _ hk, isSet_drop _ _ _ hk]
      by_cases h1 : x < bit
      · rw [if_pos h1, if_pos (by omega)]
        have : 64 * (bit / 64) + (x - 64 * (bit / 64)) = x := by omega
        rw [this]
      · rw [if_neg h1, if_neg (by omega)]
        by_cases h2 : x = bit
        · rw [if_pos h2, if_pos (by omega)]
        · rw [if_neg h2, if_neg (by omega)]
          have : 64 * (bit / 64) + (x - 64 * (bit / 64) - 1) = x - 1 := by omega
          rw [this]

end Long
end Pk.Proofs.Bits
