/- Helper lemmas for C12 at the stream level: the disks that the prefixes of the operation sequences
   of an import and of a merge leave behind. -/
import Pk.Model.RecoverIdx
import Pk.Proofs.RecoverIdx
namespace Pk.Proofs.RecoverIdx
open Pk.Recover

theorem applyOps_nil (d : List IndexFile) : applyOps d [] = d := rfl
theorem applyOps_cons (d : List IndexFile) (op : IdxOp) (ops : List IdxOp) :
    applyOps d (op :: ops) = applyOps (applyIdxOp d op) ops := rfl
theorem applyOps_append (d : List IndexFile) (a b : List IdxOp) :
    applyOps d (a ++ b) = applyOps (applyOps d a) b := by
  simp [applyOps, List.foldl_append]

/-- the incomplete file of output `o` -/
def mkPart (o : Nat × List Nat) : IndexFile := { name := o.1, complete := false, ids := o.2 }

/-- `finish n` touches only incomplete files named `n` -/
theorem finish_id (d : List IndexFile) (n : Nat)
    (h : ∀ f ∈ d, f.name = n → f.complete = true) :
    d.map (fun f => if f.name = n then { f with complete := true } else f) = d := by
  induction d with
  | nil => rfl
  | cons f fs ih =>
    simp only [List.map_cons]
    rw [ih (fun g hg => h g (List.mem_cons_of_mem _ hg))]
    congr 1
    split
    · rename_i hn
      have := h f List.mem_cons_self hn
      cases f; simp_all
    · rfl

/-- create + finish of a fresh name appends the complete file -/
theorem write_one (d : List IndexFile) (o : Nat × List Nat)
    (h : ∀ f ∈ d, f.name = o.1 → f.complete = true) :
    applyIdxOp (applyIdxOp d (.create o.1 o.2)) (.finish o.1) = d ++ [mkOut o] := by
  simp only [applyIdxOp, List.map_append, List.map_cons, List.map_nil, if_true]
  rw [finish_id d o.1 h]
  rfl

/-- the write phase on a disk `d ++ c`: `d` has none of the output names, `c` is complete -/
theorem applyOps_writeOps_aux (d c : List IndexFile) (os : List (Nat × List Nat))
    (hfresh : ∀ o ∈ os, ∀ f ∈ d, f.name ≠ o.1) (hc : ∀ f ∈ c, f.complete = true) :
    applyOps (d ++ c) (writeOps os) = d ++ c ++ os.map mkOut := by
  induction os generalizing c with
  | nil => simp [writeOps, applyOps_nil]
  | cons o os ih =>
    simp only [writeOps, applyOps_cons]
    rw [write_one (d ++ c) o]
    · rw [List.append_assoc, ih _ (fun o' ho' => hfresh o' (List.mem_cons_of_mem _ ho'))]
      · simp
      · intro f hf
        rcases List.mem_append.mp hf with hf | hf
        · exact hc f hf
        · have : f = mkOut o := by simpa using hf
          subst this; rfl
    · intro f hf hn
      rcases List.mem_append.mp hf with hf | hf
      · exact absurd hn (hfresh o List.mem_cons_self f hf)
      · exact hc f hf

theorem applyOps_writeOps (d : List IndexFile) (os : List (Nat × List Nat))
    (hfresh : ∀ o ∈ os, ∀ f ∈ d, f.name ≠ o.1) :
    applyOps d (writeOps os) = d ++ os.map mkOut := by
  have := applyOps_writeOps_aux d [] os hfresh (by simp)
  simpa using this

theorem length_writeOps (os : List (Nat × List Nat)) : (writeOps os).length = 2 * os.length := by
  induction os with
  | nil => rfl
  | cons o os ih => simp only [writeOps, List.length_cons, ih]; omega

theorem writeOps_append (a b : List (Nat × List Nat)) :
    writeOps (a ++ b) = writeOps a ++ writeOps b := by
  induction a with
  | nil => rfl
  | cons o os ih => simp [writeOps, ih]

theorem take_writeOps_even (os : List (Nat × List Nat)) (j : Nat) :
    (writeOps os).take (2 * j) = writeOps (os.take j) := by
  induction os generalizing j with
  | nil => simp [writeOps]
  | cons o os ih =>
    cases j with
    | zero => simp [writeOps]
    | succ j =>
      have : 2 * (j + 1) = (2 * j) + 1 + 1 := by omega
      rw [this]
      simp only [writeOps, List.take_succ_cons, ih j]

theorem take_writeOps_odd (os : List (Nat × List Nat)) (j : Nat) (o : Nat × List Nat)
    (ho : os[j]? = some o) :
    (writeOps os).take (2 * j + 1) = writeOps (os.take j) ++ [.create o.1 o.2] := by
  induction os generalizing j with
  | nil => simp at ho
  | cons p ps ih =>
    cases j with
    | zero =>
      simp only [List.getElem?_cons_zero, Option.some.injEq] at ho
      subst ho
      simp [writeOps]
    | succ j =>
      simp only [List.getElem?_cons_succ] at ho
      have : 2 * (j + 1) + 1 = (2 * j + 1) + 1 + 1 := by omega
      rw [this]
      simp only [writeOps, List.take_succ_cons, ih j ho, List.cons_append]

/-- the disk after `2j` operations of the write phase: the first `j` outputs are complete -/
theorem write_prefix_even (d : List IndexFile) (os : List (Nat × List Nat)) (j : Nat)
    (hfresh : ∀ o ∈ os, ∀ f ∈ d, f.name ≠ o.1) :
    applyOps d ((writeOps os).take (2 * j)) = d ++ (os.take j).map mkOut := by
  rw [take_writeOps_even, applyOps_writeOps]
  exact fun o ho => hfresh o (List.mem_of_mem_take ho)

/-- the disk after `2j+1` operations: the first `j` outputs are complete, the next exists with a
    zero header -/
theorem write_prefix_odd (d : List IndexFile) (os : List (Nat × List Nat)) (j : Nat)
    (o : Nat × List Nat) (ho : os[j]? = some o)
    (hfresh : ∀ o ∈ os, ∀ f ∈ d, f.name ≠ o.1) :
    applyOps d ((writeOps os).take (2 * j + 1)) = d ++ (os.take j).map mkOut ++ [mkPart o] := by
  rw [take_writeOps_odd os j o ho, applyOps_append, applyOps_writeOps]
  · rfl
  · exact fun o ho => hfresh o (List.mem_of_mem_take ho)

theorem applyOps_deleteOps (d : List IndexFile) (ins : List Nat) :
    applyOps d (deleteOps ins) = d.filter (fun f => !(ins.contains f.name)) := by
  induction ins generalizing d with
  | nil =>
    simp only [deleteOps, List.map_nil, applyOps_nil]
    exact (List.filter_eq_self.mpr (fun _ _ => rfl)).symm
  | cons n ns ih =>
    simp only [deleteOps, List.map_cons, applyOps_cons] at ih ⊢
    rw [ih, applyIdxOp, List.filter_filter]
    apply List.filter_congr
    intro f _
    simp only [List.contains_cons, Bool.not_or, ne_eq, decide_not]
    cases h1 : (f.name == n) <;> cases h2 : ns.contains f.name <;> simp_all

theorem take_deleteOps (ins : List Nat) (j : Nat) :
    (deleteOps ins).take j = deleteOps (ins.take j) := by
  simp [deleteOps, List.map_take]

/-- every prefix of the merge sequence is of one of three kinds -/
theorem merge_prefix_cases (d : List IndexFile) (ins : List Nat) (os : List (Nat × List Nat))
    (hfresh : ∀ o ∈ os, ∀ f ∈ d, f.name ≠ o.1) (k : Nat) :
    (∃ j, j ≤ os.length ∧ k = 2 * j ∧
        applyOps d ((mergeOps ins os).take k) = d ++ (os.take j).map mkOut) ∨
    (∃ j o, os[j]? = some o ∧ k = 2 * j + 1 ∧
        applyOps d ((mergeOps ins os).take k) = d ++ (os.take j).map mkOut ++ [mkPart o]) ∨
    (∃ j, 2 * os.length + j = k ∧
        applyOps d ((mergeOps ins os).take k) =
          (d ++ os.map mkOut).filter (fun f => !((ins.take j).contains f.name))) := by
  by_cases hk : k < 2 * os.length
  · have htake : (mergeOps ins os).take k = (writeOps os).take k := by
      rw [mergeOps, List.take_append_of_le_length]
      rw [length_writeOps]; omega
    rw [htake]
    rcases Nat.mod_two_eq_zero_or_one k with h | h
    · left
      obtain ⟨j, rfl⟩ : ∃ j, k = 2 * j := ⟨k / 2, by omega⟩
      exact ⟨j, by omega, rfl, write_prefix_even d os _ hfresh⟩
    · right; left
      obtain ⟨j, rfl⟩ : ∃ j, k = 2 * j + 1 := ⟨k / 2, by omega⟩
      have hj : j < os.length := by omega
      exact ⟨j, os[j], by simp [hj], rfl, write_prefix_odd d os _ _ (by simp [hj]) hfresh⟩
  · right; right
    obtain ⟨j, rfl⟩ : ∃ j, k = 2 * os.length + j := ⟨k - 2 * os.length, by omega⟩
    refine ⟨j, rfl, ?_⟩
    have : 2 * os.length + j = (writeOps os).length + j := by rw [length_writeOps]
    rw [mergeOps, this, List.take_length_add_append, applyOps_append, applyOps_writeOps d os hfresh,
      take_deleteOps, applyOps_deleteOps]

end Pk.Proofs.RecoverIdx
