/-
  C15: `skipStream` (the parser the load scan and the compaction use to find the end of a record body)
  (A) stops exactly at the end of every written record body,
  (B) is monotone: bytes appended after a successfully parsed body do not change the parse, hence no
      proper prefix of a complete body parses.
-/
import Pk.Model.CacheFile
import Pk.Proofs.CacheFile
import Pk.Proofs.CacheFileVarBytes

namespace Pk.Proofs.CacheFile
open Pk.CacheFile

/-! ### (A) `skipStream` finds the end of a written record body -/

theorem skip_sizes (rest : List Nat) : ∀ (cs : List Chunk) (want : Bool) (fuel d n : Nat),
    (∀ c ∈ cs, ChunkOk c) → (encodeSizes cs want).length + 1 ≤ fuel →
    skipSizes fuel (encodeSizes cs want ++ rest) 0 d n
      = some (d + ((dataOf cs false).length + (dataOf cs true).length), n + cs.length, rest) := by
  intro cs
  induction cs with
  | nil =>
    intro want fuel d n _ hf
    simp only [encodeSizes, List.length_cons, List.length_nil] at hf
    obtain ⟨f, rfl⟩ : ∃ f, fuel = f + 3 := ⟨fuel - 3, by omega⟩
    simp [encodeSizes, skipSizes, readVarInt_zero, dataOf]
  | cons c cs ih =>
    intro want fuel d n hok hf
    have hc : ChunkOk c := hok c (by simp)
    have hcs : ∀ c ∈ cs, ChunkOk c := fun x hx => hok x (by simp [hx])
    have hlen : c.content.length ≠ 0 := by
      intro h; exact hc.1 (List.length_eq_zero_iff.mp h)
    have hpos := writeVarInt_length_pos c.content.length
    have hsum : (dataOf (c :: cs) false).length + (dataOf (c :: cs) true).length
        = c.content.length + ((dataOf cs false).length + (dataOf cs true).length) := by
      simp only [dataOf_cons]
      cases c.dir <;> simp only [Bool.false_eq_true, Bool.true_eq_false, if_true, if_false, List.length_append] <;> omega
    rw [hsum]
    by_cases hd : c.dir = want
    · subst hd
      simp only [encodeSizes, bne_self_eq_false, Bool.false_eq_true, if_false, List.nil_append,
        List.length_append] at hf ⊢
      obtain ⟨f, rfl⟩ : ∃ f, fuel = f + 1 := ⟨fuel - 1, by omega⟩
      simp only [skipSizes, List.append_assoc, varint_roundtrip _ _ hc.2]
      rw [if_neg (by omega), if_pos hlen, ih (!c.dir) f _ _ hcs (by omega)]
      simp only [List.length_cons, Option.some.injEq, Prod.mk.injEq, and_true]
      omega
    · have hne : (c.dir != want) = true := by simpa using hd
      simp only [encodeSizes, hne, if_true, List.length_append, List.length_cons, List.length_nil] at hf ⊢
      obtain ⟨f, rfl⟩ : ∃ f, fuel = f + 2 := ⟨fuel - 2, by omega⟩
      simp only [skipSizes, List.cons_append, List.nil_append, readVarInt_zero, List.append_assoc,
        varint_roundtrip _ _ hc.2]
      rw [if_neg (by omega), if_neg (by simp), if_neg (by omega), if_pos hlen, ih (!c.dir) f _ _ hcs (by omega)]
      simp only [Option.some.injEq, Prod.mk.injEq, and_true]
      omega

theorem skip_times (rest : List Nat) : ∀ (cs : List Chunk) (last : Int),
    skipVarInts cs.length (encodeTimes cs last ++ rest) = some rest := by
  intro cs
  induction cs with
  | nil => intro last; simp [encodeTimes, skipVarInts]
  | cons c cs ih =>
    intro last
    simp only [List.length_cons, encodeTimes, skipVarInts, List.append_assoc,
      varint_roundtrip _ _ (toU64_lt _)]
    exact ih _

/-- a content-type entry that `skipCts` can step over -/
def SkipCtOk (e : List Nat × List Nat) : Prop :=
  e.2 ≠ [] ∧ (∀ b ∈ e.2, b < 256) ∧ e.1.length < 2 ^ 64

theorem skip_encodeCts_cons (e : List Nat × List Nat) (m : List (List Nat × List Nat)) :
    encodeCts (e :: m) = writeVarBytes e.2 ++ (writeString e.1 ++ encodeCts m) := by
  simp [encodeCts]

theorem skip_cts (rest : List Nat) : ∀ (m : List (List Nat × List Nat)) (fuel : Nat),
    (∀ e ∈ m, SkipCtOk e) → m.length < fuel →
    skipCts fuel (encodeCts m ++ rest) = some rest := by
  intro m
  induction m with
  | nil =>
    intro fuel _ hf
    obtain ⟨f, rfl⟩ : ∃ f, fuel = f + 1 := ⟨fuel - 1, by simp at hf; omega⟩
    simp [encodeCts, skipCts, readVarBytes_zero]
  | cons e m ih =>
    intro fuel hok hf
    obtain ⟨h1, h2, h3⟩ := hok e (by simp)
    simp only [List.length_cons] at hf
    obtain ⟨f, rfl⟩ : ∃ f, fuel = f + 1 := ⟨fuel - 1, by omega⟩
    simp only [skip_encodeCts_cons, List.append_assoc, skipCts, varbytes_rt _ _ h2, h1, if_false,
      readString_rt _ _ h3]
    exact ih f (fun x hx => hok x (by simp [hx])) (by omega)

theorem skip_encodeCts_length : ∀ (m : List (List Nat × List Nat)), m.length < (encodeCts m).length := by
  intro m
  induction m with
  | nil => simp [encodeCts]
  | cons e m ih =>
    have := writeVarInt_length_pos e.1.length
    simp only [skip_encodeCts_cons, List.length_cons, List.length_append, writeString]
    omega

/-! the content-type map that `collectCts` builds -/

theorem skip_modify_lt (f : Nat → Nat) (hf : ∀ b, f b < 256) : ∀ (l : List Nat) (k : Nat),
    (∀ b ∈ l, b < 256) → ∀ b ∈ l.modify k f, b < 256 := by
  intro l
  induction l with
  | nil => intro k _ b hb; simp at hb
  | cons x xs ih =>
    intro k h b hb
    cases k with
    | zero =>
      simp only [List.modify_zero_cons, List.mem_cons] at hb
      rcases hb with hb | hb
      · subst hb; exact hf x
      · exact h b (by simp [hb])
    | succ k =>
      simp only [List.modify_succ_cons, List.mem_cons] at hb
      rcases hb with hb | hb
      · subst hb; exact h _ (by simp)
      · exact ih k (fun y hy => h y (by simp [hy])) b hb

theorem skip_setBit_ne_nil (bm : List Nat) (i : Nat) : setBit bm i ≠ [] := by
  intro h
  have := congrArg List.length h
  simp only [setBit, List.length_modify, List.length_append, List.length_replicate, List.length_nil] at this
  omega

theorem skip_setBit_lt (bm : List Nat) (i : Nat) (h : ∀ b ∈ bm, b < 256) : ∀ b ∈ setBit bm i, b < 256 := by
  unfold setBit
  apply skip_modify_lt _ (fun b => Nat.mod_lt _ (by decide))
  intro b hb
  simp only [List.mem_append, List.mem_replicate] at hb
  rcases hb with hb | ⟨_, hb⟩
  · exact h b hb
  · omega

theorem skip_addCt_ok : ∀ (m : List (List Nat × List Nat)) (ct : List Nat) (i : Nat),
    (∀ e ∈ m, SkipCtOk e) → ct.length < 2 ^ 64 → ∀ e ∈ addCt m ct i, SkipCtOk e := by
  intro m
  induction m with
  | nil =>
    intro ct i _ hct e he
    simp only [addCt, List.mem_singleton] at he
    subst he
    exact ⟨skip_setBit_ne_nil _ _, skip_setBit_lt _ _ (by simp), hct⟩
  | cons x xs ih =>
    intro ct i hm hct e he
    obtain ⟨k, bm⟩ := x
    have hx := hm (k, bm) (by simp)
    simp only [addCt] at he
    split at he
    · simp only [List.mem_cons] at he
      rcases he with he | he
      · subst he
        exact ⟨skip_setBit_ne_nil _ _, skip_setBit_lt _ _ hx.2.1, hx.2.2⟩
      · exact hm e (by simp [he])
    · simp only [List.mem_cons] at he
      rcases he with he | he
      · subst he; exact hx
      · exact ih ct i (fun y hy => hm y (by simp [hy])) hct e he

theorem skip_collectCts_ok : ∀ (cs : List Chunk) (i : Nat) (m : List (List Nat × List Nat)),
    (∀ c ∈ cs, c.ctype.length < 2 ^ 64) → (∀ e ∈ m, SkipCtOk e) →
    ∀ e ∈ collectCts cs i m, SkipCtOk e := by
  intro cs
  induction cs with
  | nil => intro i m _ hm; simpa [collectCts] using hm
  | cons c cs ih =>
    intro i m hcs hm
    simp only [collectCts]
    apply ih (i + 1) _ (fun x hx => hcs x (by simp [hx]))
    split
    · exact hm
    · exact skip_addCt_ok m c.ctype i hm (hcs c (by simp))

theorem skip_encodeBody (cs : List Chunk) (t0 : Int) (rest : List Nat)
    (hok : ∀ c ∈ cs, ChunkOk c ∧ c.ctype.length < 2 ^ 64) :
    skipStream (encodeBody cs t0 ++ rest) = some rest := by
  unfold skipStream encodeBody
  simp only [List.append_assoc]
  rw [skip_sizes _ cs false _ 0 0 (fun c hc => (hok c hc).1) (by simp only [List.length_append]; omega)]
  simp only [Nat.zero_add]
  rw [if_neg (by simp only [List.length_append]; omega)]
  rw [← List.append_assoc (dataOf cs false), ← List.length_append, List.drop_left, skip_times]
  simp only
  have hlen := skip_encodeCts_length (collectCts cs 0 [])
  exact skip_cts rest _ _
    (skip_collectCts_ok cs 0 [] (fun c hc => (hok c hc).2) (by simp))
    (by simp only [List.length_append]; omega)

theorem skip_encodeRecord (cs : List Chunk) (t0 : Int) (rest : List Nat)
    (hok : ∀ c ∈ cs, c.content.length < 2 ^ 64 ∧ c.ctype.length < 2 ^ 64) :
    skipStream (encodeRecord cs t0 ++ rest) = some rest := by
  unfold encodeRecord
  apply skip_encodeBody
  intro c hc
  simp only [dropEmpty, List.mem_filter, decide_eq_true_eq] at hc
  exact ⟨⟨hc.2, (hok c hc.1).1⟩, (hok c hc.1).2⟩

/-! ### (B) appended bytes do not disturb a successful parse -/

theorem readVarIntAux_append (q : List Nat) : ∀ (bs : List Nat) (acc v : Nat) (r : List Nat),
    readVarIntAux bs acc = some (v, r) → readVarIntAux (bs ++ q) acc = some (v, r ++ q) := by
  intro bs
  induction bs with
  | nil => intro acc v r h; simp [readVarIntAux] at h
  | cons b bs ih =>
    intro acc v r h
    simp only [List.cons_append, readVarIntAux] at h ⊢
    split at h
    · rename_i hb
      simp only [hb, if_true]
      simp only [Option.some.injEq, Prod.mk.injEq] at h
      obtain ⟨h1, h2⟩ := h
      subst h1 h2; rfl
    · rename_i hb
      simp only [hb, if_false]
      exact ih _ _ _ h

theorem readVarInt_append (bs q : List Nat) (v : Nat) (r : List Nat)
    (h : readVarInt bs = some (v, r)) : readVarInt (bs ++ q) = some (v, r ++ q) :=
  readVarIntAux_append q bs 0 v r h

theorem readVarBytesAux_append (q : List Nat) : ∀ (bs : List Nat) (buf filled : Nat) (v r : List Nat),
    readVarBytesAux bs buf filled = some (v, r) → readVarBytesAux (bs ++ q) buf filled = some (v, r ++ q) := by
  intro bs
  induction bs with
  | nil => intro buf filled v r h; simp [readVarBytesAux] at h
  | cons b bs ih =>
    intro buf filled v r h
    simp only [List.cons_append, readVarBytesAux] at h ⊢
    split at h
    · rename_i hf
      simp only [hf, if_true]
      split at h
      · rename_i hb
        simp only [hb, if_true]
        simp only [Option.some.injEq, Prod.mk.injEq] at h
        obtain ⟨h1, h2⟩ := h
        subst h1 h2; rfl
      · rename_i hb
        simp only [hb, if_false]
        rw [Option.map_eq_some_iff] at h
        obtain ⟨⟨x1, x2⟩, hr, h⟩ := h
        simp only [Prod.mk.injEq] at h
        obtain ⟨h1, h2⟩ := h
        subst h1 h2
        rw [ih _ _ _ _ hr]; rfl
    · rename_i hf
      simp only [hf, if_false]
      split at h
      · rename_i hb
        simp only [hb, if_true]
        simp only [Option.some.injEq, Prod.mk.injEq] at h
        obtain ⟨h1, h2⟩ := h
        subst h1 h2; rfl
      · rename_i hb
        simp only [hb, if_false]
        exact ih _ _ _ _ h

theorem readVarBytes_append (bs q v r : List Nat)
    (h : readVarBytes bs = some (v, r)) : readVarBytes (bs ++ q) = some (v, r ++ q) :=
  readVarBytesAux_append q bs 0 0 v r h

theorem readString_append (bs q v r : List Nat)
    (h : readString bs = some (v, r)) : readString (bs ++ q) = some (v, r ++ q) := by
  unfold readString at h ⊢
  cases hr : readVarInt bs with
  | none => simp [hr] at h
  | some x =>
    obtain ⟨len, rest⟩ := x
    rw [hr] at h
    rw [readVarInt_append _ q _ _ hr]
    try simp only at h ⊢
    split at h
    · simp at h
    · rename_i hl
      have hl' : ¬ ((rest ++ q).length < len) := by simp only [List.length_append]; omega
      simp only [hl', if_false]
      simp only [Option.some.injEq, Prod.mk.injEq] at h
      obtain ⟨h1, h2⟩ := h
      subst h1 h2
      rw [List.take_append_of_le_length (by omega), List.drop_append_of_le_length (by omega)]

theorem skipSizes_append (q : List Nat) : ∀ (f : Nat) (bs : List Nat) (z d n d' n' : Nat) (r : List Nat),
    skipSizes f bs z d n = some (d', n', r) →
    ∀ f', f ≤ f' → skipSizes f' (bs ++ q) z d n = some (d', n', r ++ q) := by
  intro f
  induction f with
  | zero => intro bs z d n d' n' r h; simp [skipSizes] at h
  | succ f ih =>
    intro bs z d n d' n' r h f' hf
    obtain ⟨g, rfl⟩ : ∃ g, f' = g + 1 := ⟨f' - 1, by omega⟩
    simp only [skipSizes] at h ⊢
    split at h
    · rename_i hz
      simp only [hz, if_true]
      simp only [Option.some.injEq, Prod.mk.injEq] at h
      obtain ⟨h1, h2, h3⟩ := h
      subst h1 h2 h3; rfl
    · rename_i hz
      simp only [hz, if_false]
      cases hr : readVarInt bs with
      | none => simp [hr] at h
      | some x =>
        obtain ⟨sz, rest⟩ := x
        rw [hr] at h
        rw [readVarInt_append _ q _ _ hr]
        try simp only at h ⊢
        split at h
        · rename_i hs
          rw [if_pos hs]
          exact ih _ _ _ _ _ _ _ h g (by omega)
        · rename_i hs
          rw [if_neg hs]
          exact ih _ _ _ _ _ _ _ h g (by omega)

theorem skipVarInts_append (q : List Nat) : ∀ (n : Nat) (bs r : List Nat),
    skipVarInts n bs = some r → skipVarInts n (bs ++ q) = some (r ++ q) := by
  intro n
  induction n with
  | zero => intro bs r h; simp only [skipVarInts, Option.some.injEq] at h ⊢; subst h; rfl
  | succ n ih =>
    intro bs r h
    simp only [skipVarInts] at h ⊢
    cases hr : readVarInt bs with
    | none => simp [hr] at h
    | some x =>
      obtain ⟨v, rest⟩ := x
      rw [hr] at h
      rw [readVarInt_append _ q _ _ hr]
      exact ih _ _ h

theorem skipCts_append (q : List Nat) : ∀ (f : Nat) (bs r : List Nat),
    skipCts f bs = some r → ∀ f', f ≤ f' → skipCts f' (bs ++ q) = some (r ++ q) := by
  intro f
  induction f with
  | zero => intro bs r h; simp [skipCts] at h
  | succ f ih =>
    intro bs r h f' hf
    obtain ⟨g, rfl⟩ : ∃ g, f' = g + 1 := ⟨f' - 1, by omega⟩
    simp only [skipCts] at h ⊢
    cases hr : readVarBytes bs with
    | none => simp [hr] at h
    | some x =>
      obtain ⟨mask, rest⟩ := x
      rw [hr] at h
      rw [readVarBytes_append _ q _ _ hr]
      try simp only at h ⊢
      split at h
      · rename_i hm
        simp only [hm, if_true]
        simp only [Option.some.injEq] at h
        subst h; rfl
      · rename_i hm
        simp only [hm, if_false]
        cases hs : readString rest with
        | none => simp [hs] at h
        | some y =>
          obtain ⟨ct, rest'⟩ := y
          rw [hs] at h
          rw [readString_append _ q _ _ hs]
          exact ih _ _ h g (by omega)

theorem skipStream_append (p q r : List Nat) (h : skipStream p = some r) :
    skipStream (p ++ q) = some (r ++ q) := by
  unfold skipStream at h ⊢
  cases hs : skipSizes (p.length + 2) p 0 0 0 with
  | none => simp [hs] at h
  | some x =>
    obtain ⟨d, n, rest⟩ := x
    rw [hs] at h
    rw [skipSizes_append q _ _ _ _ _ _ _ _ hs ((p ++ q).length + 2) (by simp only [List.length_append]; omega)]
    try simp only at h ⊢
    split at h
    · simp at h
    · rename_i hl
      have hl' : ¬ ((rest ++ q).length < d) := by simp only [List.length_append]; omega
      simp only [hl', if_false]
      cases hv : skipVarInts n (rest.drop d) with
      | none => simp [hv] at h
      | some rest2 =>
        rw [hv] at h
        rw [List.drop_append_of_le_length (by omega), skipVarInts_append q _ _ _ hv]
        try simp only at h ⊢
        exact skipCts_append q _ _ _ h _ (by simp only [List.length_append]; omega)

theorem skipStream_prefix_none (body : List Nat) (hgood : skipStream body = some [])
    (p q : List Nat) (hpq : p ++ q = body) (hq : q ≠ []) : skipStream p = none := by
  cases hp : skipStream p with
  | none => rfl
  | some r =>
    have := skipStream_append p q r hp
    rw [hpq, hgood] at this
    simp only [Option.some.injEq] at this
    have : q = [] := (List.append_eq_nil_iff.mp this.symm).2
    exact absurd this hq

end Pk.Proofs.CacheFile
