/-
  Helper lemmas for C05 / C08 (pcap import model).  Property theorems are in Pk/Props/C05.lean, C08.lean.
  Core Lean only.
-/
import Pk.Model.Import

namespace Pk.Proofs.Import
open Pk.Import

/-! ### `comparePackets` is a strict total order on (timestamp, file, index) -/

theorem pktLt_irrefl (a : Pkt) : pktLt a a = false := by
  simp [pktLt]

theorem str_trichotomy {a b : String} (h1 : ¬ a < b) (h2 : ¬ b < a) : a = b :=
  String.le_antisymm (String.not_lt.mp h2) (String.not_lt.mp h1)

theorem pktLt_iff (a b : Pkt) : pktLt a b = true ↔
    a.ts < b.ts ∨ (a.ts = b.ts ∧ (a.file < b.file ∨ (a.file = b.file ∧ a.idx < b.idx))) := by
  unfold pktLt
  by_cases h : a.ts = b.ts
  · by_cases f : a.file = b.file
    · simp [h, f]
    · simp [h, f]
  · simp [h]

theorem pktLt_trans {a b c : Pkt} (h1 : pktLt a b = true) (h2 : pktLt b c = true) : pktLt a c = true := by
  rw [pktLt_iff] at *
  rcases h1 with h1 | ⟨e1, h1⟩ <;> rcases h2 with h2 | ⟨e2, h2⟩
  · left; omega
  · left; omega
  · left; omega
  · right
    refine ⟨by omega, ?_⟩
    rcases h1 with h1 | ⟨f1, h1⟩ <;> rcases h2 with h2 | ⟨f2, h2⟩
    · left; exact String.lt_trans h1 h2
    · left; rw [← f2]; exact h1
    · left; rw [f1]; exact h2
    · right; exact ⟨f1.trans f2, by omega⟩

theorem pktLt_asymm {a b : Pkt} (h : pktLt a b = true) : pktLt b a = false := by
  cases hb : pktLt b a with
  | false => rfl
  | true => have := pktLt_trans h hb; simp [pktLt_irrefl] at this

/-- two packets that are not ordered either way have the same (timestamp, file, index) -/
theorem pktLt_trichotomy {a b : Pkt} (h1 : pktLt a b = false) (h2 : pktLt b a = false) :
    a.ts = b.ts ∧ a.file = b.file ∧ a.idx = b.idx := by
  have n1 : ¬ (pktLt a b = true) := by simp [h1]
  have n2 : ¬ (pktLt b a = true) := by simp [h2]
  rw [pktLt_iff] at n1 n2
  have t : a.ts = b.ts := by
    apply Nat.le_antisymm
    · exact Nat.le_of_not_lt (fun h => n2 (Or.inl h))
    · exact Nat.le_of_not_lt (fun h => n1 (Or.inl h))
  have f : a.file = b.file := by
    apply str_trichotomy
    · exact fun h => n1 (Or.inr ⟨t, Or.inl h⟩)
    · exact fun h => n2 (Or.inr ⟨t.symm, Or.inl h⟩)
  refine ⟨t, f, ?_⟩
  apply Nat.le_antisymm
  · exact Nat.le_of_not_lt (fun h => n2 (Or.inr ⟨t.symm, Or.inr ⟨f.symm, h⟩⟩))
  · exact Nat.le_of_not_lt (fun h => n1 (Or.inr ⟨t, Or.inr ⟨f, h⟩⟩))

theorem pktLe_total (a b : Pkt) : (pktLe a b || pktLe b a) = true := by
  unfold pktLe
  cases h : pktLt b a with
  | false => simp
  | true => simp [pktLt_asymm h]

theorem pktLt_congr_left {a a' b : Pkt} (h : a.ts = a'.ts ∧ a.file = a'.file ∧ a.idx = a'.idx) :
    pktLt a b = pktLt a' b := by
  unfold pktLt; rw [h.1, h.2.1, h.2.2]

theorem pktLt_congr_right {a b b' : Pkt} (h : b.ts = b'.ts ∧ b.file = b'.file ∧ b.idx = b'.idx) :
    pktLt a b = pktLt a b' := by
  unfold pktLt; rw [h.1, h.2.1, h.2.2]

theorem pktLe_trans (a b c : Pkt) (h1 : pktLe a b = true) (h2 : pktLe b c = true) : pktLe a c = true := by
  unfold pktLe at *
  simp only [Bool.not_eq_eq_eq_not, Bool.not_true] at *
  -- h1 : pktLt b a = false, h2 : pktLt c b = false ⊢ pktLt c a = false
  cases hca : pktLt c a with
  | false => rfl
  | true =>
    -- c < a.  Compare b with a.
    cases hab : pktLt a b with
    | true => -- c < a < b contradicts ¬ c < b
      have := pktLt_trans hca hab; simp [h2] at this
    | false => -- a and b have equal keys, so c < b
      have k := pktLt_trichotomy hab h1
      rw [pktLt_congr_right k] at hca; simp [h2] at hca

theorem pktLe_of_lt {a b : Pkt} (h : pktLt a b = true) : pktLe a b = true := by
  unfold pktLe; simp [pktLt_asymm h]

theorem pktLe_of_ts_lt {a b : Pkt} (h : a.ts < b.ts) : pktLe a b = true := by
  apply pktLe_of_lt; rw [pktLt_iff]; exact Or.inl h

/-- sortedness w.r.t. `comparePackets` -/
def Sorted (l : List Pkt) : Prop := l.Pairwise (fun a b => pktLe a b = true)

theorem sortPkts_sorted (l : List Pkt) : Sorted (sortPkts l) :=
  List.pairwise_mergeSort pktLe_trans pktLe_total l

theorem sortPkts_perm (l : List Pkt) : (sortPkts l).Perm l := List.mergeSort_perm l pktLe

/-! ### the inner merge loop -/

theorem mergeUntil_perm (limit : Option Nat) (os ns : List Pkt) :
    ((mergeUntil limit os ns).1 ++ ((mergeUntil limit os ns).2.1 ++ (mergeUntil limit os ns).2.2)).Perm (os ++ ns) := by
  fun_induction mergeUntil limit os ns <;> simp_all
  rename_i o os n ns out os' ns' _ _ _ ih
  exact (List.Perm.cons n ih).trans (List.perm_middle (l₁ := o :: os)).symm

theorem mergeUntil_before (limit : Option Nat) (os ns : List Pkt) :
    ∀ x ∈ (mergeUntil limit os ns).1, beforeLimit limit x.ts = true := by
  fun_induction mergeUntil limit os ns <;> simp_all

theorem mergeUntil_none (os ns : List Pkt) :
    (mergeUntil none os ns).2.1 = [] ∧ (mergeUntil none os ns).2.2 = [] := by
  fun_induction mergeUntil none os ns <;> simp_all [beforeLimit]

theorem Sorted.tail {a : Pkt} {l : List Pkt} (h : Sorted (a :: l)) : Sorted l := by
  unfold Sorted at *; exact (List.pairwise_cons.mp h).2

theorem Sorted.head {a : Pkt} {l : List Pkt} (h : Sorted (a :: l)) : ∀ y ∈ l, pktLe a y = true := by
  unfold Sorted at *; exact (List.pairwise_cons.mp h).1

theorem mergeUntil_rest_sorted (limit : Option Nat) (os ns : List Pkt) (ho : Sorted os) (hn : Sorted ns) :
    Sorted (mergeUntil limit os ns).2.1 ∧ Sorted (mergeUntil limit os ns).2.2 := by
  fun_induction mergeUntil limit os ns <;> simp_all [Sorted] <;> (try exact List.Pairwise.nil)

theorem step_lemma {p : Pkt} {out rest inp : List Pkt} (perm : (out ++ rest).Perm inp)
    (hp : ∀ y ∈ inp, pktLe p y = true)
    (ih : Sorted out ∧ ∀ x ∈ out, ∀ y ∈ rest, pktLe x y = true) :
    Sorted (p :: out) ∧ ∀ x ∈ p :: out, ∀ y ∈ rest, pktLe x y = true := by
  have hall : ∀ y ∈ out ++ rest, pktLe p y = true := fun y hy => hp y (perm.mem_iff.mp hy)
  refine ⟨?_, ?_⟩
  · unfold Sorted
    exact List.pairwise_cons.mpr ⟨fun y hy => hall y (List.mem_append_left _ hy), ih.1⟩
  · intro x hx y hy
    rcases List.mem_cons.mp hx with rfl | hx
    · exact hall y (List.mem_append_right _ hy)
    · exact ih.2 x hx y hy

/-- the merged prefix is sorted and every packet in it precedes everything left over -/
theorem mergeUntil_sorted (limit : Option Nat) (os ns : List Pkt) (ho : Sorted os) (hn : Sorted ns) :
    Sorted (mergeUntil limit os ns).1 ∧
    ∀ x ∈ (mergeUntil limit os ns).1, ∀ y ∈ (mergeUntil limit os ns).2.1 ++ (mergeUntil limit os ns).2.2,
      pktLe x y = true := by
  fun_induction mergeUntil limit os ns
  case case1 => simp [Sorted]
  case case2 o os h out os' ns' eq ih =>
    have pm := mergeUntil_perm limit os []
    rw [eq] at pm
    have ih' := ih ho.tail hn
    rw [eq] at ih'
    exact step_lemma pm (by simpa using ho.head) ih'
  case case3 => simp [Sorted]
  case case4 n ns h out os' ns' eq ih =>
    have pm := mergeUntil_perm limit [] ns
    rw [eq] at pm
    have ih' := ih ho hn.tail
    rw [eq] at ih'
    exact step_lemma pm (by simpa using hn.head) ih'
  case case5 => simp [Sorted]
  case case6 o os n ns hlt h out os' ns' eq ih =>
    have pm := mergeUntil_perm limit os (n :: ns)
    rw [eq] at pm
    have ih' := ih ho.tail hn
    rw [eq] at ih'
    refine step_lemma pm ?_ ih'
    intro y hy
    rcases List.mem_append.mp hy with hy | hy
    · exact ho.head y hy
    · rcases List.mem_cons.mp hy with rfl | hy
      · exact pktLe_of_lt hlt
      · exact pktLe_trans _ _ _ (pktLe_of_lt hlt) (hn.head y hy)
  case case7 => simp [Sorted]
  case case8 o os n ns hlt h out os' ns' eq ih =>
    have pm := mergeUntil_perm limit (o :: os) ns
    rw [eq] at pm
    have ih' := ih ho hn.tail
    rw [eq] at ih'
    refine step_lemma pm ?_ ih'
    have hno : pktLe n o = true := by unfold pktLe; simpa using hlt
    intro y hy
    rcases List.mem_append.mp hy with hy | hy
    · rcases List.mem_cons.mp hy with rfl | hy
      · exact hno
      · exact pktLe_trans _ _ _ hno (ho.head y hy)
    · exact hn.head y hy
  case case9 => simp [Sorted]

/-! ### the outer loop: lazy loading of older captures -/

theorem feedLoop_perm (olds : List OldPcap) : ∀ (old new : List Pkt),
    (feedLoop olds old new).Perm (old ++ new ++ olds.flatMap (·.pkts)) := by
  induction olds with
  | nil =>
    intro old new
    have pm := mergeUntil_perm none old new
    have hn := mergeUntil_none old new
    simp only [feedLoop, List.flatMap_nil, List.append_nil]
    rw [hn.1, hn.2] at pm
    simpa using pm
  | cons pc rest ih =>
    intro old new
    simp only [feedLoop, List.flatMap_cons]
    have pm := mergeUntil_perm (some pc.tmin) old new
    generalize mergeUntil (some pc.tmin) old new = r at pm
    obtain ⟨out, os', ns'⟩ := r
    simp only at pm ⊢
    have ih' := ih (sortPkts (os' ++ pc.pkts)) ns'
    have sp := sortPkts_perm (os' ++ pc.pkts)
    rw [List.perm_iff_count] at *
    intro a
    have h1 := pm a; have h2 := ih' a; have h3 := sp a
    simp only [List.count_append] at *
    omega

theorem beforeLimit_some {l t : Nat} : beforeLimit (some l) t = true ↔ t < l := by
  simp [beforeLimit]

theorem feedLoop_sorted (olds : List OldPcap) : ∀ (old new : List Pkt), Sorted old → Sorted new →
    olds.Pairwise (fun a b => a.tmin ≤ b.tmin) → (∀ pc ∈ olds, ∀ y ∈ pc.pkts, pc.tmin ≤ y.ts) →
    Sorted (feedLoop olds old new) := by
  induction olds with
  | nil =>
    intro old new ho hn _ _
    simp only [feedLoop]
    exact (mergeUntil_sorted none old new ho hn).1
  | cons pc rest ih =>
    intro old new ho hn hs hmin
    simp only [feedLoop]
    have hsorted := mergeUntil_sorted (some pc.tmin) old new ho hn
    have hrest := mergeUntil_rest_sorted (some pc.tmin) old new ho hn
    have hbefore := mergeUntil_before (some pc.tmin) old new
    generalize mergeUntil (some pc.tmin) old new = r at hsorted hrest hbefore
    obtain ⟨out, os', ns'⟩ := r
    simp only at hsorted hrest hbefore ⊢
    have hs' := List.pairwise_cons.mp hs
    have hR : Sorted (feedLoop rest (sortPkts (os' ++ pc.pkts)) ns') :=
      ih _ _ (sortPkts_sorted _) hrest.2 hs'.2 (fun pc' hpc' => hmin pc' (List.mem_cons_of_mem _ hpc'))
    unfold Sorted
    refine List.pairwise_append.mpr ⟨hsorted.1, hR, ?_⟩
    intro x hx y hy
    have hxt : x.ts < pc.tmin := beforeLimit_some.mp (hbefore x hx)
    have hy' := (feedLoop_perm rest (sortPkts (os' ++ pc.pkts)) ns').mem_iff.mp hy
    rcases List.mem_append.mp hy' with hy' | hy'
    · rcases List.mem_append.mp hy' with hy' | hy'
      · have hy'' := (sortPkts_perm (os' ++ pc.pkts)).mem_iff.mp hy'
        rcases List.mem_append.mp hy'' with h | h
        · exact hsorted.2 x hx y (List.mem_append_left _ h)
        · exact pktLe_of_ts_lt (Nat.lt_of_lt_of_le hxt (hmin pc (List.mem_cons_self ..) y h))
      · exact hsorted.2 x hx y (List.mem_append_right _ hy')
    · obtain ⟨pc', hpc', hyp⟩ := List.mem_flatMap.mp hy'
      have h1 : pc.tmin ≤ pc'.tmin := hs'.1 pc' hpc'
      have h2 : pc'.tmin ≤ y.ts := hmin pc' (List.mem_cons_of_mem _ hpc') y hyp
      exact pktLe_of_ts_lt (by omega)

end Pk.Proofs.Import
