/-
  C15 helper lemmas: the file as a list of records (`layout`), the invariant `Inv` that links a state
  of the model to such a list, and its preservation by every operation.
-/
import Pk.Model.CacheFile
import Pk.Proofs.CacheFile

namespace Pk.Proofs.CacheFile
open Pk.CacheFile

/-! ### the offset table as a function -/

theorem find_filter_ne (id x : Nat) (h : x ≠ id) : ∀ m : List (Nat × Info),
    List.find? (fun e => e.1 == x) (List.filter (fun e => e.1 != id) m) = List.find? (fun e => e.1 == x) m := by
  intro m
  have h' : (id == x) = false := by simpa using fun e => h e.symm
  induction m with
  | nil => rfl
  | cons e m ih =>
    by_cases he : e.1 = id
    · simp [he, h', ih]
    · have : (e.1 != id) = true := by simpa using he
      simp only [List.filter_cons, this, if_true, List.find?_cons]
      split
      · rfl
      · exact ih

theorem lookup_insert (m : List (Nat × Info)) (id x : Nat) (i : Info) :
    lookup (insert m id i) x = if x = id then some i else lookup m x := by
  by_cases h : x = id
  · subst h; simp [lookup_insert_self]
  · have h' : (id == x) = false := by simpa using fun e => h e.symm
    simp only [lookup, Pk.CacheFile.insert, List.find?_cons, h', h, if_false, erase]
    rw [find_filter_ne id x h]

theorem lookup_erase (m : List (Nat × Info)) (id x : Nat) :
    lookup (erase m id) x = if x = id then none else lookup m x := by
  by_cases h : x = id
  · subst h; simp [lookup_erase_self]
  · simp only [h, if_false, lookup, erase]
    rw [find_filter_ne id x h]

theorem readLe64_le64 (n : Nat) (rest : List Nat) (h : n < 2 ^ 64) : readLe64 (le64 n ++ rest) = n := by
  simp only [readLe64, le64, List.cons_append, List.nil_append, List.take_succ_cons, List.take_zero,
    List.foldr_cons, List.foldr_nil]
  omega

/-! ### records and the layout of the file -/

structure Rec where
  id : Nat
  body : List Nat

/-- `skipStream` finds exactly the end of the body, whatever follows -/
def GoodBody (b : List Nat) : Prop := ∀ rest, skipStream (b ++ rest) = some rest

def RecOk (r : Rec) : Prop := r.id < 2 ^ 64 ∧ GoodBody r.body

def recsBytes : List Rec → List Nat
  | [] => []
  | r :: rs => le64 r.id ++ (r.body ++ recsBytes rs)

def recsLen : List Rec → Nat
  | [] => 0
  | r :: rs => 8 + r.body.length + recsLen rs

def layout (rs : List Rec) : List Nat := headerBytes ++ recsBytes rs

/-- the offset table that belongs to a record list that starts at file offset `off` -/
def find (off : Nat) : List Rec → Nat → Option Info
  | [], _ => none
  | r :: rs, x =>
    if r.id = x ∧ x ≠ invalidStreamID then some { offset := off + 8, size := r.body.length }
    else find (off + 8 + r.body.length) rs x

/-- the record body that is served for an id -/
def view : List Rec → Nat → Option (List Nat)
  | [], _ => none
  | r :: rs, x => if r.id = x ∧ x ≠ invalidStreamID then some r.body else view rs x

def liveIds (rs : List Rec) : List Nat := (rs.map (·.id)).filter (· != invalidStreamID)

def Boundary (rs : List Rec) (off : Nat) : Prop := ∃ a b, rs = a ++ b ∧ off = 8 + recsLen a

theorem recsBytes_length (rs : List Rec) : (recsBytes rs).length = recsLen rs := by
  induction rs with
  | nil => rfl
  | cons r rs ih => simp only [recsBytes, recsLen, List.length_append, le64_length, ih]; omega

theorem recsBytes_append (a b : List Rec) : recsBytes (a ++ b) = recsBytes a ++ recsBytes b := by
  induction a with
  | nil => rfl
  | cons r a ih => simp [recsBytes, ih]

theorem recsLen_append (a b : List Rec) : recsLen (a ++ b) = recsLen a + recsLen b := by
  induction a with
  | nil => simp [recsLen]
  | cons r a ih => simp only [List.cons_append, recsLen, ih]; omega

theorem layout_length (rs : List Rec) : (layout rs).length = 8 + recsLen rs := by
  simp only [layout, headerBytes, List.length_append, recsBytes_length, List.length_cons, List.length_nil]

theorem liveIds_cons (r : Rec) (rs : List Rec) :
    liveIds (r :: rs) = if r.id = invalidStreamID then liveIds rs else r.id :: liveIds rs := by
  unfold liveIds
  by_cases h : r.id = invalidStreamID <;> simp [h]

theorem liveIds_append (a b : List Rec) : liveIds (a ++ b) = liveIds a ++ liveIds b := by
  simp [liveIds]

theorem find_none_of_not_mem : ∀ (rs : List Rec) (off x : Nat), x ∉ liveIds rs → find off rs x = none := by
  intro rs
  induction rs with
  | nil => intros; rfl
  | cons r rs ih =>
    intro off x hx
    rw [liveIds_cons] at hx
    unfold find
    by_cases h : r.id = x ∧ x ≠ invalidStreamID
    · obtain ⟨h1, h2⟩ := h
      subst h1
      simp [h2] at hx
    · rw [if_neg h]
      apply ih
      split at hx
      · exact hx
      · exact fun hm => hx (List.mem_cons_of_mem _ hm)

theorem mem_liveIds_of_find : ∀ (rs : List Rec) (off x : Nat) (i : Info), find off rs x = some i → x ∈ liveIds rs := by
  intro rs off x i h
  apply Classical.byContradiction
  intro hn
  rw [find_none_of_not_mem rs off x hn] at h
  cases h

theorem find_invalid (rs : List Rec) (off : Nat) : find off rs invalidStreamID = none := by
  apply find_none_of_not_mem
  simp [liveIds]

theorem find_append : ∀ (a b : List Rec) (off x : Nat),
    find off (a ++ b) x = (find off a x).or (find (off + recsLen a) b x) := by
  intro a
  induction a with
  | nil => intro b off x; simp [find, recsLen]
  | cons r a ih =>
    intro b off x
    simp only [List.cons_append, find, recsLen]
    split
    · rfl
    · rw [ih]; congr 2; omega

theorem view_append : ∀ (a b : List Rec) (x : Nat), view (a ++ b) x = (view a x).or (view b x) := by
  intro a
  induction a with
  | nil => intro b x; simp [view]
  | cons r a ih =>
    intro b x
    simp only [List.cons_append, view]
    split
    · rfl
    · rw [ih]

/-- the table entry of an id points at the body that `view` serves -/
theorem find_view : ∀ (rs : List Rec) (off : Nat) (pre : List Nat) (x : Nat), pre.length = off →
    match find off rs x with
    | none => view rs x = none
    | some info => view rs x = some (((pre ++ recsBytes rs).drop info.offset).take info.size) := by
  intro rs
  induction rs with
  | nil => intro off pre x _; simp [find, view]
  | cons r rs ih =>
    intro off pre x hp
    by_cases h : r.id = x ∧ x ≠ invalidStreamID
    · simp only [find, view, if_pos h, recsBytes]
      congr 1
      rw [← List.append_assoc, List.drop_append]
      have : (pre ++ le64 r.id).length = off + 8 := by simp [hp, le64_length]
      rw [this, Nat.sub_self, List.drop_zero, List.drop_eq_nil_of_le (by omega), List.nil_append,
        List.take_left']
      rfl
    · have := ih (off + 8 + r.body.length) (pre ++ (le64 r.id ++ r.body)) x
        (by simp [hp, le64_length]; omega)
      simp only [find, view, if_neg h, recsBytes]
      simpa [List.append_assoc] using this

/-! ### killing a record: its header is overwritten with the invalid id -/

def kill (x : Nat) (rs : List Rec) : List Rec :=
  rs.map fun r => if r.id = x then { r with id := invalidStreamID } else r

theorem kill_cons (x : Nat) (r : Rec) (rs : List Rec) :
    kill x (r :: rs) = (if r.id = x then { r with id := invalidStreamID } else r) :: kill x rs := rfl

theorem kill_append (x : Nat) (a b : List Rec) : kill x (a ++ b) = kill x a ++ kill x b := by
  simp [kill]

theorem recsLen_kill (x : Nat) (rs : List Rec) : recsLen (kill x rs) = recsLen rs := by
  induction rs with
  | nil => rfl
  | cons r rs ih =>
    rw [kill_cons]
    split <;> simp [recsLen, ih]

theorem boundary_kill (x : Nat) (rs : List Rec) (off : Nat) (h : Boundary rs off) : Boundary (kill x rs) off := by
  obtain ⟨a, b, rfl, rfl⟩ := h
  exact ⟨kill x a, kill x b, kill_append x a b, by rw [recsLen_kill]⟩

theorem invalid_lt : invalidStreamID < 2 ^ 64 := by decide

theorem ok_kill (x : Nat) (rs : List Rec) (h : ∀ r ∈ rs, RecOk r) : ∀ r ∈ kill x rs, RecOk r := by
  intro r hr
  simp only [kill, List.mem_map] at hr
  obtain ⟨r0, hr0, rfl⟩ := hr
  split
  · exact ⟨invalid_lt, (h r0 hr0).2⟩
  · exact h r0 hr0

theorem liveIds_kill (x : Nat) (rs : List Rec) : liveIds (kill x rs) = (liveIds rs).filter (· != x) := by
  induction rs with
  | nil => rfl
  | cons r rs ih =>
    rw [kill_cons]
    by_cases h1 : r.id = x
    · rw [if_pos h1, liveIds_cons, liveIds_cons, ih]
      simp only [if_true]
      split
      · rfl
      · rw [List.filter_cons]; simp [h1]
    · rw [if_neg h1, liveIds_cons, liveIds_cons, ih]
      split
      · rfl
      · rw [List.filter_cons]; simp [h1]

theorem find_kill (x : Nat) : ∀ (rs : List Rec) (off y : Nat),
    find off (kill x rs) y = if y = x then none else find off rs y := by
  intro rs
  induction rs with
  | nil => intro off y; simp [kill, find]
  | cons r rs ih =>
    intro off y
    rw [kill_cons]
    by_cases h1 : r.id = x
    · simp only [h1, if_true, find, ih]
      by_cases h2 : y = x
      · subst h2; simp [invalidStreamID]
        intro h; omega
      · have : ¬ (x = y ∧ y ≠ invalidStreamID) := fun h => h2 h.1.symm
        have h3 : ¬ (invalidStreamID = y ∧ y ≠ invalidStreamID) := fun h => h.2 h.1.symm
        simp [h2, this, h3]
    · simp only [h1, if_false, find, ih]
      by_cases h2 : y = x
      · subst h2; simp [h1]
      · simp [h2]

theorem view_kill (x : Nat) : ∀ (rs : List Rec) (y : Nat),
    view (kill x rs) y = if y = x then none else view rs y := by
  intro rs
  induction rs with
  | nil => intro y; simp [kill, view]
  | cons r rs ih =>
    intro y
    rw [kill_cons]
    by_cases h1 : r.id = x
    · simp only [h1, if_true, view, ih]
      by_cases h2 : y = x
      · subst h2; simp
        intro h; omega
      · have : ¬ (x = y ∧ y ≠ invalidStreamID) := fun h => h2 h.1.symm
        have h3 : ¬ (invalidStreamID = y ∧ y ≠ invalidStreamID) := fun h => h.2 h.1.symm
        simp [h2, this, h3]
    · simp only [h1, if_false, view, ih]
      by_cases h2 : y = x
      · subst h2; simp [h1]
      · simp [h2]

theorem kill_of_not_mem (x : Nat) (hx : x ≠ invalidStreamID) : ∀ rs : List Rec, x ∉ liveIds rs → kill x rs = rs := by
  intro rs
  induction rs with
  | nil => intro _; rfl
  | cons r rs ih =>
    intro h
    rw [liveIds_cons] at h
    rw [kill_cons]
    by_cases h1 : r.id = x
    · exfalso
      simp [h1, hx] at h
    · rw [if_neg h1, ih]
      split at h
      · exact h
      · exact fun hm => h (List.mem_cons_of_mem _ hm)

/-- the in-place header overwrite of `freeStream` turns the record list into `kill x rs` -/
theorem patch_kill (x : Nat) (hx : x ≠ invalidStreamID) : ∀ (rs : List Rec) (off : Nat) (pre : List Nat) (info : Info),
    pre.length = off → (liveIds rs).Nodup → find off rs x = some info →
    patch (pre ++ recsBytes rs) (info.offset - streamHeaderSize) (le64 invalidStreamID)
      = pre ++ recsBytes (kill x rs) := by
  intro rs
  induction rs with
  | nil => intro off pre info _ _ h; simp [find] at h
  | cons r rs ih =>
    intro off pre info hp hnd hf
    rw [liveIds_cons] at hnd
    rw [kill_cons]
    by_cases h1 : r.id = x
    · have hc : r.id = x ∧ x ≠ invalidStreamID := ⟨h1, hx⟩
      simp only [find, if_pos hc, Option.some.injEq] at hf
      subst hf
      have hlive : r.id ≠ invalidStreamID := by rw [h1]; exact hx
      rw [if_neg hlive] at hnd
      have hnm : x ∉ liveIds rs := by
        have := (List.nodup_cons.mp hnd).1
        rwa [h1] at this
      rw [if_pos h1, kill_of_not_mem x hx rs hnm]
      simp only [patch, streamHeaderSize, Nat.add_sub_cancel, recsBytes, le64_length]
      have hd : (pre ++ (le64 r.id ++ (r.body ++ recsBytes rs))).drop (off + 8) = r.body ++ recsBytes rs := by
        rw [← List.append_assoc]; exact List.drop_left' (by simp [hp, le64_length])
      rw [List.take_left' hp, hd]
    · have hc : ¬ (r.id = x ∧ x ≠ invalidStreamID) := fun h => h1 h.1
      simp only [find, if_neg hc] at hf
      have hnd' : (liveIds rs).Nodup := by
        split at hnd
        · exact hnd
        · exact (List.nodup_cons.mp hnd).2
      have := ih (off + 8 + r.body.length) (pre ++ (le64 r.id ++ r.body)) info
        (by simp [hp, le64_length]; omega) hnd' hf
      rw [if_neg h1]
      simpa [recsBytes, List.append_assoc] using this

theorem find_offset_ge : ∀ (rs : List Rec) (off x : Nat) (info : Info), find off rs x = some info →
    ∃ a r b, rs = a ++ r :: b ∧ info.offset = off + recsLen a + 8 ∧ info.size = r.body.length := by
  intro rs
  induction rs with
  | nil => intro off x info h; simp [find] at h
  | cons r rs ih =>
    intro off x info h
    by_cases hc : r.id = x ∧ x ≠ invalidStreamID
    · simp only [find, if_pos hc, Option.some.injEq] at h
      subst h
      exact ⟨[], r, rs, rfl, by simp [recsLen], rfl⟩
    · simp only [find, if_neg hc] at h
      obtain ⟨a, r', b, rfl, h1, h2⟩ := ih _ x info h
      refine ⟨r :: a, r', b, rfl, ?_, h2⟩
      simp only [recsLen]; omega

/-! ### the invariant -/

structure Inv (st : St) (rs : List Rec) : Prop where
  bytes : st.bytes = layout rs
  size : st.fileSize = st.bytes.length
  ok : ∀ r ∈ rs, RecOk r
  infos : ∀ x, lookup st.infos x = find 8 rs x
  nodup : (liveIds rs).Nodup
  fs : Boundary rs st.freeStart

theorem headerBytes_length : headerBytes.length = 8 := rfl

theorem Inv.fileSize_eq {st : St} {rs : List Rec} (h : Inv st rs) : st.fileSize = 8 + recsLen rs := by
  rw [h.size, h.bytes, layout_length]

/-- what a read returns, in terms of the record list -/
theorem Inv.lookup_view {st : St} {rs : List Rec} (h : Inv st rs) (x : Nat) :
    match lookup st.infos x with
    | none => view rs x = none
    | some info => view rs x = some (section_ st info) := by
  rw [h.infos x]
  have := find_view rs 8 headerBytes x rfl
  simp only [section_, h.bytes, layout]
  exact this

theorem Inv.data_eq {st : St} {rs : List Rec} (h : Inv st rs) (x : Nat) (t0 : Int) :
    data st x t0 = match view rs x with
      | none => some none
      | some b => (decodeRecord b t0).map some := by
  have := h.lookup_view x
  unfold data
  cases hl : lookup st.infos x with
  | none => rw [hl] at this; simp only at this; rw [this]
  | some info => rw [hl] at this; simp only at this; rw [this]

theorem Inv.none_eq {st : St} {rs : List Rec} (h : Inv st rs) (x : Nat) (hv : view rs x = none) :
    lookup st.infos x = none := by
  have := h.lookup_view x
  cases hl : lookup st.infos x with
  | none => rfl
  | some info => rw [hl] at this; simp only at this; rw [hv] at this; cases this

theorem reset_inv : Inv reset [] := by
  refine ⟨rfl, rfl, by simp, fun x => rfl, by simp [liveIds], ⟨[], [], rfl, rfl⟩⟩

theorem find_some_of_mem : ∀ (rs : List Rec) (off x : Nat), x ∈ liveIds rs → ∃ i, find off rs x = some i := by
  intro rs
  induction rs with
  | nil => intro off x h; simp [liveIds] at h
  | cons r rs ih =>
    intro off x h
    by_cases hc : r.id = x ∧ x ≠ invalidStreamID
    · exact ⟨_, by simp only [find, if_pos hc]; rfl⟩
    · simp only [find, if_neg hc]
      apply ih
      rw [liveIds_cons] at h
      split at h
      · exact h
      · rcases List.mem_cons.mp h with h | h
        · exfalso; apply hc; refine ⟨h.symm, ?_⟩; rw [h]; assumption
        · exact h

theorem not_mem_of_find_none (rs : List Rec) (off x : Nat) (h : find off rs x = none) : x ∉ liveIds rs := by
  intro hm
  obtain ⟨i, hi⟩ := find_some_of_mem rs off x hm
  rw [h] at hi; cases hi

theorem ne_invalid_of_mem_liveIds (rs : List Rec) (x : Nat) (h : x ∈ liveIds rs) : x ≠ invalidStreamID := by
  simp only [liveIds, List.mem_filter] at h
  simpa using h.2

theorem Inv.mk' {st : St} {rs : List Rec} (hb : st.bytes = layout rs) (hs : st.fileSize = 8 + recsLen rs)
    (ok : ∀ r ∈ rs, RecOk r) (infos : ∀ x, lookup st.infos x = find 8 rs x) (nodup : (liveIds rs).Nodup)
    (fs : Boundary rs st.freeStart) : Inv st rs :=
  ⟨hb, by rw [hs, hb, layout_length], ok, infos, nodup, fs⟩

theorem boundary_append_right (rs t : List Rec) (off : Nat) (h : Boundary rs off) : Boundary (rs ++ t) off := by
  obtain ⟨a, b, rfl, rfl⟩ := h
  exact ⟨a, b ++ t, by simp, rfl⟩

theorem boundary_end (rs : List Rec) : Boundary rs (8 + recsLen rs) := ⟨rs, [], by simp, rfl⟩

theorem boundary_of_find (rs : List Rec) (x : Nat) (info : Info) (h : find 8 rs x = some info) :
    Boundary rs (info.offset - streamHeaderSize) ∧ 8 ≤ info.offset - streamHeaderSize ∧
      info.offset - streamHeaderSize + 8 ≤ 8 + recsLen rs := by
  obtain ⟨a, r, b, rfl, h1, _⟩ := find_offset_ge rs 8 x info h
  refine ⟨⟨a, r :: b, rfl, ?_⟩, ?_, ?_⟩
  · simp only [streamHeaderSize]; omega
  · simp only [streamHeaderSize]; omega
  · simp only [streamHeaderSize, recsLen_append, recsLen]; omega

theorem patch_append_left (a b new : List Nat) (off : Nat) (h : off + new.length ≤ a.length) :
    patch (a ++ b) off new = patch a off new ++ b := by
  unfold patch
  rw [List.take_append_of_le_length (by omega), List.drop_append_of_le_length (by omega)]
  simp

/-- the effect of `freeStream` on the bytes and on `freeStart` -/
theorem freeStream_spec (s : St) (rs t : List Rec) (x : Nat) (info : Info)
    (hb : s.bytes = layout (rs ++ t)) (hnd : (liveIds rs).Nodup) (hf : find 8 rs x = some info)
    (hfs : Boundary (kill x rs ++ t) s.freeStart) :
    (freeStream s info).bytes = layout (kill x rs ++ t) ∧ Boundary (kill x rs ++ t) (freeStream s info).freeStart
      ∧ (freeStream s info).infos = s.infos ∧ (freeStream s info).fileSize = s.fileSize := by
  have hx : x ≠ invalidStreamID := ne_invalid_of_mem_liveIds rs x (mem_liveIds_of_find rs 8 x info hf)
  obtain ⟨hb1, hb2, hb3⟩ := boundary_of_find rs x info hf
  refine ⟨?_, ?_, rfl, rfl⟩
  · simp only [freeStream, hb, layout, recsBytes_append]
    rw [← List.append_assoc, patch_append_left _ _ _ _ (by
      rw [le64_length, List.length_append, recsBytes_length, headerBytes_length]; omega)]
    rw [patch_kill x hx rs 8 headerBytes info rfl hnd hf, List.append_assoc]
  · simp only [freeStream]
    split
    · exact boundary_append_right _ _ _ (boundary_kill x rs _ hb1)
    · exact hfs

/-! ### `setData` after the compaction decision -/

def storeCore (st : St) (id : Nat) (t0 : Int) (chunks : List Chunk) : St :=
  let record := encodeRecord chunks t0
  let st' : St :=
    { bytes := st.bytes ++ (le64 id ++ record)
      infos := insert st.infos id { offset := st.fileSize + streamHeaderSize, size := record.length }
      fileSize := st.fileSize + streamHeaderSize + record.length
      freeSize := st.freeSize
      freeStart := if st.freeStart = st.fileSize then st.freeStart + streamHeaderSize + record.length else st.freeStart }
  match lookup st.infos id with
  | none => st'
  | some o => freeStream st' o

theorem setData_eq (st : St) (id : Nat) (t0 : Int) (cs : List Chunk) :
    setData st id t0 cs
      = (if st.freeSize ≥ cleanupMinFreeSize ∧ st.freeSize ≥ st.fileSize / 2 then truncateFile st else some st).map
          fun s => storeCore s id t0 cs := by
  unfold setData
  cases (if st.freeSize ≥ cleanupMinFreeSize ∧ st.freeSize ≥ st.fileSize / 2 then truncateFile st else some st) with
  | none => rfl
  | some s =>
    simp only [Option.map_some, storeCore]
    cases lookup s.infos id <;> rfl

theorem view_store (x : Nat) (hx : x ≠ invalidStreamID) (rs : List Rec) (b : List Nat) (y : Nat) :
    view (kill x rs ++ [⟨x, b⟩]) y = if y = x then some b else view rs y := by
  rw [view_append, view_kill]
  by_cases h : y = x
  · subst h; simp [view, hx]
  · have : ¬ (x = y ∧ y ≠ invalidStreamID) := fun hh => h hh.1.symm
    simp [view, h, this]

theorem storeCore_inv (st : St) (rs : List Rec) (h : Inv st rs) (x : Nat) (t0 : Int) (cs : List Chunk)
    (hx : x < 2 ^ 64 - 1) (hgood : GoodBody (encodeRecord cs t0)) :
    Inv (storeCore st x t0 cs) (kill x rs ++ [⟨x, encodeRecord cs t0⟩]) := by
  have hxi : x ≠ invalidStreamID := by simp only [invalidStreamID]; omega
  have hfsz := h.fileSize_eq
  -- the parts that do not depend on whether an older record exists
  have hok : ∀ r ∈ kill x rs ++ [⟨x, encodeRecord cs t0⟩], RecOk r := by
    intro r hr
    rcases List.mem_append.mp hr with hr | hr
    · exact ok_kill x rs h.ok r hr
    · simp only [List.mem_singleton] at hr; subst hr; exact ⟨by simp only; omega, hgood⟩
  have hnd : (liveIds (kill x rs ++ [⟨x, encodeRecord cs t0⟩])).Nodup := by
    rw [liveIds_append, liveIds_kill, List.nodup_append]
    refine ⟨h.nodup.filter _, by simp [liveIds, hxi], ?_⟩
    intro a ha b hb
    simp only [List.mem_filter] at ha
    simp only [liveIds, List.map_cons, List.map_nil, List.mem_filter, List.mem_singleton] at hb
    rw [hb.1]; simpa using ha.2
  have hinf : ∀ y, lookup (insert st.infos x { offset := st.fileSize + streamHeaderSize, size := (encodeRecord cs t0).length }) y
      = find 8 (kill x rs ++ [⟨x, encodeRecord cs t0⟩]) y := by
    intro y
    rw [lookup_insert, find_append, find_kill, recsLen_kill, h.infos y]
    by_cases hy : y = x
    · subst hy; simp [find, hxi, hfsz, streamHeaderSize]
    · have : ¬ (x = y ∧ y ≠ invalidStreamID) := fun hh => hy hh.1.symm
      simp [find, hy, this]
  have hbnd0 : Boundary (kill x rs ++ [⟨x, encodeRecord cs t0⟩])
      (if st.freeStart = st.fileSize then st.freeStart + streamHeaderSize + (encodeRecord cs t0).length else st.freeStart) := by
    split
    · rename_i he
      have := boundary_end (kill x rs ++ [⟨x, encodeRecord cs t0⟩])
      rw [recsLen_append, recsLen_kill] at this
      simp only [recsLen] at this
      rw [he, hfsz, streamHeaderSize]
      have e : 8 + recsLen rs + 8 + (encodeRecord cs t0).length = 8 + (recsLen rs + (8 + (encodeRecord cs t0).length + 0)) := by omega
      rw [e]; exact this
    · exact boundary_append_right _ _ _ (boundary_kill x rs _ h.fs)
  unfold storeCore
  cases ho : lookup st.infos x with
  | none =>
    have hnm : x ∉ liveIds rs := not_mem_of_find_none rs 8 x (by rw [← h.infos x]; exact ho)
    have hk : kill x rs = rs := kill_of_not_mem x hxi rs hnm
    simp only
    refine Inv.mk' ?_ ?_ hok hinf hnd hbnd0
    · simp only [h.bytes, layout, recsBytes_append, hk, recsBytes, List.append_assoc, List.append_nil]
    · simp only [hfsz, recsLen_append, recsLen_kill, recsLen, streamHeaderSize]; omega
  | some o =>
    have hf : find 8 rs x = some o := by rw [← h.infos x]; exact ho
    simp only
    obtain ⟨f1, f2, f3, f4⟩ := freeStream_spec
      { bytes := st.bytes ++ (le64 x ++ encodeRecord cs t0)
        infos := insert st.infos x { offset := st.fileSize + streamHeaderSize, size := (encodeRecord cs t0).length }
        fileSize := st.fileSize + streamHeaderSize + (encodeRecord cs t0).length
        freeSize := st.freeSize
        freeStart := if st.freeStart = st.fileSize then st.freeStart + streamHeaderSize + (encodeRecord cs t0).length else st.freeStart }
      rs [⟨x, encodeRecord cs t0⟩] x o
      (by simp only [h.bytes, layout, recsBytes_append, recsBytes, List.append_assoc, List.append_nil])
      h.nodup hf hbnd0
    refine Inv.mk' ?_ ?_ hok ?_ hnd f2
    · rw [f1]
    · rw [f4]; simp only [hfsz, recsLen_append, recsLen_kill, recsLen, streamHeaderSize]; omega
    · rw [f3]; exact hinf

/-! ### `InvalidateChangedStreams` -/

theorem invalidateOne_inv (st : St) (rs : List Rec) (h : Inv st rs) (x : Nat) :
    ∃ rs', Inv (invalidateOne st x).1 rs' ∧ ∀ y, view rs' y = if y = x then none else view rs y := by
  unfold invalidateOne
  cases ho : lookup st.infos x with
  | none =>
    refine ⟨rs, h, ?_⟩
    intro y
    by_cases hy : y = x
    · subst hy
      have := h.lookup_view y
      rw [ho] at this
      simpa using this
    · simp [hy]
  | some o =>
    have hf : find 8 rs x = some o := by rw [← h.infos x]; exact ho
    obtain ⟨f1, f2, f3, f4⟩ := freeStream_spec st rs [] x o (by simp [h.bytes]) h.nodup hf
      (by simpa using boundary_kill x rs _ h.fs)
    simp only [List.append_nil] at f1 f2
    refine ⟨kill x rs, Inv.mk' f1 ?_ (ok_kill x rs h.ok) ?_ ?_ f2, view_kill x rs⟩
    · show (freeStream st o).fileSize = _
      rw [f4, h.fileSize_eq, recsLen_kill]
    · intro y
      show lookup (erase st.infos x) y = _
      rw [lookup_erase, find_kill, h.infos y]
    · rw [liveIds_kill]; exact h.nodup.filter _

theorem invalidate_inv : ∀ (ids : List Nat) (st : St) (rs : List Rec), Inv st rs →
    ∃ rs', Inv (invalidate st ids).1 rs' ∧ ∀ y, view rs' y = if y ∈ ids then none else view rs y := by
  intro ids
  induction ids with
  | nil => intro st rs h; exact ⟨rs, h, by simp⟩
  | cons x ids ih =>
    intro st rs h
    obtain ⟨rs1, h1, v1⟩ := invalidateOne_inv st rs h x
    obtain ⟨rs2, h2, v2⟩ := ih _ rs1 h1
    refine ⟨rs2, h2, ?_⟩
    intro y
    rw [v2, v1]
    by_cases hy : y = x
    · subst hy; simp
    · simp [hy]

end Pk.Proofs.CacheFile
