/- Helper lemmas for C06Reach: what `step` does to the dependency attributes of tags it does not edit;
   rejected calls change nothing; the result code does not depend on `Started`. -/
import Pk.Proofs.MgrTagsStep
import Pk.Proofs.MgrSettleFrame
namespace Pk.Proofs.MgrTruth
open Pk.Mgr Pk.Proofs.MgrTags

/-- the attributes of a tag the dependency classes look at -/
def Attrs (t : Tag) : List String × List String × Nat × Nat × Nat := (t.mainT, t.subT, t.mfeat, t.sfeat, t.gen)   -- CHANGED (gen)

/-! ## the "attributes kept" relation and its frame -/

def AKeep (n : String) (T T' : List (String × Tag)) : Prop :=
  (sget T' n).map Attrs = (sget T n).map Attrs

theorem AKeep.refl (n : String) (T : List (String × Tag)) : AKeep n T T := rfl
theorem AKeep.trans {n : String} {A B C : List (String × Tag)} (h1 : AKeep n A B) (h2 : AKeep n B C) :
    AKeep n A C := Eq.trans h2 h1
theorem AKeep.of_eq {n : String} {T T' : List (String × Tag)} (h : T' = T) : AKeep n T T' := h ▸ rfl

theorem akeep_sins_ne {n m : String} (t' : Tag) (T : List (String × Tag)) (h : m ≠ n) :
    AKeep n T (sins m t' T) := by
  simp [AKeep, sget_sins, h]

theorem akeep_sins_attrs {m : String} {t t' : Tag} {T : List (String × Tag)}
    (hm : sget T m = some t) (hr : Attrs t' = Attrs t) (n : String) : AKeep n T (sins m t' T) := by
  by_cases h : m = n
  · subst h; simp [AKeep, sget_sins, hm, hr]
  · exact akeep_sins_ne _ _ h

theorem akeep_sdel_ne {n m : String} (T : List (String × Tag)) (h : m ≠ n) : AKeep n T (sdel T m) := by
  simp [AKeep, sget_sdel, h]

theorem akeep_map (f : String → Tag → Tag) (hf : ∀ k t, Attrs (f k t) = Attrs t) (n : String)
    (T : List (String × Tag)) : AKeep n T (T.map fun p => (p.1, f p.1 p.2)) := by
  unfold AKeep
  rw [sget_map]
  cases sget T n with
  | none => rfl
  | some t => simp [hf]

/-- frame of a helper: tags in `N` keep their attributes (and their existence) -/
def AFr (N : String → Prop) (s s' : St) : Prop := ∀ n, N n → AKeep n s.tags s'.tags

theorem AFr.refl (N) (s : St) : AFr N s s := fun _ _ => rfl
theorem AFr.trans {N} {a b c : St} (h1 : AFr N a b) (h2 : AFr N b c) : AFr N a c :=
  fun n hn => (h1 n hn).trans (h2 n hn)
theorem AFr.mono {N N' : String → Prop} {a b : St} (h : AFr N a b) (hN : ∀ n, N' n → N n) : AFr N' a b :=
  fun n hn => h n (hN n hn)
theorem AFr.of_tags {N} {a b : St} (h : b.tags = a.tags) : AFr N a b := fun _ _ => AKeep.of_eq h
theorem AFr.of_same {N} {a b : St} (h : Same a b) : AFr N a b := AFr.of_tags h.1
theorem foldl_afr {N} {β} (f : St → β → St) (h : ∀ s b, AFr N s (f s b)) (l : List β) (s : St) :
    AFr N s (l.foldl f s) :=
  foldl_inv (fun s' => AFr N s s') f (fun a b ha => ha.trans (h a b)) l s (AFr.refl N s)

theorem setTag_afr_ne (s : St) (m : String) (t' : Tag) : AFr (· ≠ m) s (setTag s m t') :=
  fun _ hn => akeep_sins_ne _ _ (Ne.symm hn)

theorem setTag_afr_attrs {s : St} {m : String} {t t' : Tag} (hm : sget s.tags m = some t)
    (hr : Attrs t' = Attrs t) : AFr NT s (setTag s m t') :=
  fun n _ => akeep_sins_attrs hm hr n

theorem addRefBy_afr (s : St) (a b : String) : AFr NT s (addRefBy s a b) := by
  unfold addRefBy; split
  · rename_i t ht; exact setTag_afr_attrs ht rfl
  · exact AFr.refl _ _
theorem delRefBy_afr (s : St) (a b : String) : AFr NT s (delRefBy s a b) := by
  unfold delRefBy; split
  · rename_i t ht; exact setTag_afr_attrs ht rfl
  · exact AFr.refl _ _

theorem attrs_inheritOne (all : Nat) (T : List (String × Tag)) (t : Tag) :
    Attrs (inheritOne all T t) = Attrs t := by
  unfold inheritOne
  split
  · rfl
  · split <;> rfl

theorem passStep_akeep (all : Nat) (T0 : List (String × Tag)) (acc) (nt : String × Tag)
    (h : ∀ n, AKeep n T0 acc.1) : ∀ n, AKeep n T0 (passStep all acc nt).1 := by
  unfold passStep
  split
  · exact h
  · split
    · exact h
    · rename_i t ht
      split
      · intro n; exact (h n).trans (akeep_sins_attrs ht (attrs_inheritOne _ _ _) n)
      · exact h

theorem inherit_akeep (s : St) (n : String) : AKeep n s.tags (inherit s).tags := by
  obtain ⟨res, h, _⟩ := inheritLoop_inv s.all (fun acc => ∀ n, AKeep n s.tags acc.1)
    (passStep_akeep s.all s.tags) (s.tags.length + 1) s.tags [] (fun n => AKeep.refl _ _)
  exact h n

theorem inherit_afr (s : St) : AFr NT s (inherit s) := fun n _ => inherit_akeep s n

theorem map_afr (s s' : St) (f : String → Tag → Tag)
    (ht : s'.tags = s.tags.map fun p => (p.1, f p.1 p.2)) (hf : ∀ k t, Attrs (f k t) = Attrs t) :
    AFr NT s s' := fun n _ => ht ▸ akeep_map f hf n _

theorem attrs_invF (all : Nat) (upd rst add : IdSet) (t : Tag) : Attrs (invF all upd rst add t) = Attrs t := by
  unfold invF
  split
  · rfl
  · split
    · split <;> rfl
    · rfl

theorem invalidateTags_afr (s : St) (upd rst add : IdSet) : AFr NT s (invalidateTags s upd rst add) := by
  rw [invalidateTags_eq]
  refine AFr.trans (b := { s with tags := s.tags.map fun p => (p.1, invF s.all upd rst add p.2) }) ?_ (inherit_afr _)
  exact map_afr s _ (fun _ t => invF s.all upd rst add t) rfl (fun _ t => attrs_invF _ _ _ _ t)

theorem attachConv_afr (s : St) (n c : String) : AFr NT s (attachConv s n c).1 := by
  unfold attachConv
  split
  · exact AFr.refl _ _
  · rename_i t ht
    split
    · exact AFr.refl _ _
    · split
      · exact AFr.refl _ _
      · exact setTag_afr_attrs (t' := { t with convs := t.convs ++ [c] }) ht rfl

theorem attrs_odF (all : Nat) (t : Tag) : Attrs (odF all t) = Attrs t := by
  unfold odF
  split <;> rfl

theorem outputDropped_afr (s : St) (choice : Option String) : AFr NT s (outputDropped s choice) := by
  rw [outputDropped_eq]
  split
  · refine AFr.trans ?_ (AFr.of_same ((invalidatedDuring_same _ _).trans (startTagging_same _ _)))
    refine AFr.trans (b := { s with tags := s.tags.map fun p => (p.1, odF s.all p.2) }) ?_ (inherit_afr _)
    exact map_afr s _ (fun _ t => odF s.all t) rfl (fun _ t => attrs_odF _ t)
  · exact AFr.refl _ _

-- CHANGED (dropped): `detachConv` takes the tagging choice and may run `outputDropped`
theorem detachConv_afr (s : St) (n c : String) (choice : Option String := none) :
    AFr NT s (detachConv s n c choice) := by
  unfold detachConv
  split
  · exact AFr.refl _ _
  · rename_i t ht
    have h := setTag_afr_attrs (t' := { t with convs := t.convs.filter (· != c) }) ht rfl
    simp only []
    split
    · exact AFr.trans (fun n hn => h n hn) (outputDropped_afr _ _)
    · exact h

theorem muFin_afr (s : St) (name : String) (u : IdSet) : AFr (· ≠ name) s (muFin s name u) := by
  unfold muFin
  split
  · exact setTag_afr_ne _ _ _
  · exact AFr.refl _ _

theorem markUpdate_afr (s : St) (name : String) (a d : List Nat) :
    AFr (· ≠ name) s (markUpdate s name a d).1 := by
  rw [markUpdate_eq]
  split
  · exact AFr.refl _ _
  · rename_i t ht
    refine AFr.trans ?_ (muFin_afr _ _ _)
    refine AFr.trans ?_ (AFr.of_same (invalidatedDuring_same _ _))
    refine AFr.trans ?_ ((inherit_afr _).mono (fun _ _ => trivial))
    exact (AFr.of_same (muAdd_same t s a)).trans (setTag_afr_ne _ _ _)

/-! ## frames, event by event -/

theorem tdInval_afr (s : St) : AFr NT s (tdInval s) := by
  unfold tdInval; split
  · exact AFr.refl _ _
  · exact invalidateTags_afr _ _ _ _

theorem tdPublish_afr (s : St) (name : String) (snap : Tag) (result : IdSet) :
    AFr (· ≠ name) s (tdPublish s name snap result) := by
  unfold tdPublish
  split
  · split
    · refine AFr.trans ?_ ((tdInval_afr _).mono fun _ _ => trivial)
      exact (AFr.of_same (qConv_same _ _ _)).trans (setTag_afr_ne _ _ _)
    · exact AFr.refl _ _
  · exact AFr.refl _ _

theorem step_tagDone_afr (s : St) (name : String) (result : List Nat) (st : Started) :
    AFr (· ≠ name) s (step s (.tagDone name result) st).1 := by
  rw [step_tagDone_eq]
  split
  · exact AFr.refl _ _
  · split
    · exact AFr.of_tags rfl
    · rename_i jn snap held _ _
      refine AFr.trans ?_ (AFr.of_same ((jobTail_same _ _).trans (release_same _ _)))
      refine AFr.trans (b := tdPublish { s with jTag := none } name snap (ofList result)) ?_
        (AFr.of_tags rfl)
      exact AFr.trans (b := { s with jTag := none }) (AFr.of_tags rfl) (tdPublish_afr _ name _ _)

theorem attrs_cdF (all : Nat) (ids : IdSet) (t : Tag) : Attrs (cdF all ids t) = Attrs t := by   -- CHANGED (conv)
  unfold cdF; split
  · split <;> rfl
  · split <;> rfl

theorem cdMark_afr (s : St) (p : String × IdSet) : AFr NT s (cdMark s p) := by
  unfold cdMark; split
  · exact AFr.refl _ _
  · exact map_afr s _ (fun _ t => cdF s.all p.2 t) rfl (fun _ t => attrs_cdF _ _ t)

theorem step_convertDone_afr (s : St) (st : Started) : AFr NT s (step s .convertDone st).1 := by
  rw [step_convertDone_eq]
  split
  · exact AFr.refl _ _
  · refine AFr.trans ?_ (AFr.of_same (((startTagging_same _ _).trans (startConverter_same _)).trans (release_same _ _)))
    refine AFr.trans ?_ (inherit_afr _)
    refine AFr.trans ?_ (foldl_afr cdMark cdMark_afr _ _)
    exact AFr.of_tags rfl

theorem atFinish_afr (s : St) (name : String) (nt : Tag) (m : Bool) (st : Started) :
    AFr (· ≠ name) s (atFinish s name nt m st) := by
  unfold atFinish
  refine AFr.trans ?_ (foldl_afr _ (fun s r => (addRefBy_afr s r name).mono fun _ _ => trivial) _ _)
  split
  · exact setTag_afr_ne _ _ _
  · exact (setTag_afr_ne _ _ _).trans (AFr.of_same (startTagging_same _ _))

theorem step_addTag_afr (s : St) (name color defn : String) (f : Facts) (st : Started) :
    AFr (· ≠ name) s (step s (.addTag name color defn f) st).1 := by
  rw [step_addTag_eq]
  repeat' split
  all_goals first | exact AFr.refl _ _ | skip
  rw [atPair_fst]; exact atFinish_afr _ _ _ _ _

theorem uqApply_afr (s : St) (name : String) (t nt : Tag) (st : Started) :
    AFr (· ≠ name) s (uqApply s name t nt st) := by
  unfold uqApply uqInv uqRefs
  refine AFr.trans ?_ (AFr.of_same (((invalidatedDuring_same _ _).trans (startTagging_same _ _)).trans (startConverter_same _)))
  refine AFr.trans ?_ ((inherit_afr _).mono fun _ _ => trivial)
  refine AFr.trans ?_ (setTag_afr_ne _ _ _)
  refine AFr.trans ?_ (foldl_afr _ (fun s r => (addRefBy_afr s r name).mono fun _ _ => trivial) _ _)
  exact foldl_afr _ (fun s r => (delRefBy_afr s r name).mono fun _ _ => trivial) _ _

theorem step_updQuery_afr (s : St) (name defn : String) (f : Facts) (st : Started) :
    AFr (· ≠ name) s (step s (.updQuery name defn f) st).1 := by
  rw [step_updQuery_eq]
  repeat' split
  all_goals first | exact AFr.refl _ _ | skip
  exact uqApply_afr _ _ _ _ _

theorem step_updColor_afr (s : St) (name color : String) (st : Started) :
    AFr NT s (step s (.updColor name color) st).1 := by
  unfold step
  simp only []
  split
  · exact AFr.refl _ _
  · rename_i t ht
    split
    · exact AFr.refl _ _
    · exact setTag_afr_attrs ht rfl

theorem unApply_afr (s : St) (name new : String) (t : Tag) :
    AFr (fun n => n ≠ name ∧ n ≠ new) s (unApply s name new t) := by
  unfold unApply
  refine AFr.trans (b := { s with tags := sins new t (sdel s.tags name) }) ?_ ?_
  · exact fun n hn => (akeep_sdel_ne _ (Ne.symm hn.1)).trans (akeep_sins_ne _ _ (Ne.symm hn.2))
  · exact foldl_afr _ (fun s r => ((delRefBy_afr s r name).trans (addRefBy_afr _ r new)).mono fun _ _ => trivial) _ _

theorem step_updName_afr (s : St) (name new : String) (st : Started) :
    AFr (fun n => n ≠ name ∧ n ≠ new) s (step s (.updName name new) st).1 := by
  rw [step_updName_eq]
  repeat' split
  all_goals first | exact AFr.refl _ _ | skip
  exact unApply_afr _ _ _ _

theorem step_updConv_afr (s : St) (name : String) (convs : List String) (st : Started) :
    AFr NT s (step s (.updConv name convs) st).1 := by
  rw [step_updConv_eq]
  repeat' split
  all_goals first | exact AFr.refl _ _ | skip
  unfold ucAttach ucDetach
  refine AFr.trans ?_ (AFr.of_same (startConverter_same _))
  refine AFr.trans ?_ (foldl_afr _ (fun s c => attachConv_afr s name c) _ _)
  exact foldl_afr _ (fun s c => detachConv_afr s name c st.tag) _ _

theorem markTail_afr (s : St) (name : String) (a d : List Nat) (st : Started) :
    AFr (· ≠ name) s (markTail (markUpdate s name a d) st).1 :=
  (markUpdate_afr s name a d).trans (AFr.of_same ((startTagging_same _ _).trans (startConverter_same _)))

theorem step_markAdd_afr (s : St) (name : String) (ids : List Nat) (st : Started) :
    AFr (· ≠ name) s (step s (.markAdd name ids) st).1 := by
  rw [step_markAdd_eq]
  repeat' split
  all_goals first | exact AFr.refl _ _ | skip
  exact markTail_afr _ _ _ _ _

theorem step_markDel_afr (s : St) (name : String) (ids : List Nat) (st : Started) :
    AFr (· ≠ name) s (step s (.markDel name ids) st).1 := by
  rw [step_markDel_eq]
  repeat' split
  all_goals first | exact AFr.refl _ _ | skip
  exact markTail_afr _ _ _ _ _

-- CHANGED (dropped): `dtApply` takes the tagging choice
theorem dtApply_afr (s : St) (name : String) (t : Tag) (choice : Option String) :
    AFr (· ≠ name) s (dtApply s name t choice) := by
  unfold dtApply
  refine AFr.trans ((foldl_afr _ (fun s c => detachConv_afr s name c choice) t.convs s).mono fun _ _ => trivial) ?_
  refine AFr.trans (b := { (t.convs.foldl (fun s c => detachConv s name c choice) s) with
      tags := sdel (t.convs.foldl (fun s c => detachConv s name c choice) s).tags name }) ?_ ?_
  · exact fun n hn => akeep_sdel_ne _ (Ne.symm hn)
  · exact foldl_afr _ (fun s r => (delRefBy_afr s r name).mono fun _ _ => trivial) _ _

theorem step_delTag_afr (s : St) (name : String) (st : Started) :
    AFr (· ≠ name) s (step s (.delTag name) st).1 := by
  rw [step_delTag_eq]
  repeat' split
  all_goals first | exact AFr.refl _ _ | skip
  exact dtApply_afr _ _ _ _

theorem step_importPcaps_afr (s : St) (names : List String) (st : Started) :
    AFr NT s (step s (.importPcaps names) st).1 := by
  unfold step
  simp only []
  split
  · exact AFr.refl _ _
  · split
    · exact AFr.of_tags rfl
    · exact AFr.of_tags rfl

theorem step_viewOpen_afr (s : St) (k : Nat) (st : Started) : AFr NT s (step s (.viewOpen k) st).1 := by
  unfold step
  simp only []
  split
  · exact AFr.refl _ _
  · exact AFr.of_tags rfl

theorem step_viewRelease_afr (s : St) (k : Nat) (st : Started) : AFr NT s (step s (.viewRelease k) st).1 := by
  unfold step
  simp only []
  split
  · exact AFr.refl _ _
  · exact AFr.trans (b := { s with views := ndel s.views k }) (AFr.of_tags rfl)
      (AFr.of_same (release_same _ _))

theorem step_mergeDone_afr (s : St) (merged : List (Nat × List Nat)) (st : Started) :
    AFr NT s (step s (.mergeDone merged) st).1 := by
  rw [step_mergeDone_eq]
  split
  · exact AFr.refl _ _
  · rename_i off held _
    refine AFr.trans ?_ (AFr.of_same ((startMerge_same _).trans (release_same _ _)))
    refine AFr.trans (b := mdApply { s with jMerge := none } off held merged) ?_ (AFr.of_tags rfl)
    exact AFr.trans (b := { s with jMerge := none }) (AFr.of_tags rfl) (AFr.of_same (mdApply_same _ _ _ _))

theorem idApply_afr (s : St) (n : Nat) (created : List (Nat × List Nat)) (u r a : IdSet) :
    AFr NT s (idApply s n created u r a) := by
  unfold idApply
  split
  · exact AFr.refl _ _
  · refine AFr.trans ?_ (AFr.of_same ((invalidateConverters_same _ _).trans (invalidateConverters_same _ _)))
    exact AFr.trans (b := idCreated s n created u r a) (AFr.of_tags rfl) (invalidateTags_afr _ _ _ _)

theorem step_importDone_afr (s : St) (processed usednew : Nat) (created : List (Nat × List Nat))
    (upd rst add : List Nat) (st : Started) :
    AFr NT s (step s (.importDone processed usednew created upd rst add) st).1 := by
  rw [step_importDone_eq]
  split
  · exact AFr.refl _ _
  · rename_i jnext held _
    refine AFr.trans ?_ (AFr.of_same ((idQueue_same _).trans (jobTail_same _ _)))
    refine AFr.trans (b := idApply (release { s with all := jnext + usednew, jImport := none } held)
      (jnext + usednew) created (ofList upd) (ofList rst) (ofList add)) ?_ (AFr.of_tags rfl)
    refine AFr.trans ?_ (idApply_afr _ _ _ _ _ _)
    exact AFr.of_tags (release_same { s with all := jnext + usednew, jImport := none } held).1

/-- an event keeps the attributes (and the existence, both directions) of every tag it does not edit -/
theorem step_attrs (s : St) (e : Ev) (st : Started) (n : String) (hn : ¬ EditsN e n) :
    (sget (step s e st).1.tags n).map Attrs = (sget s.tags n).map Attrs := by
  have conv : ∀ (N : String → Prop), AFr N s (step s e st).1 → (¬ EditsN e n → N n) →
      (sget (step s e st).1.tags n).map Attrs = (sget s.tags n).map Attrs :=
    fun N h hN => h n (hN hn)
  cases e with
  | nop => rfl
  | importPcaps names => exact conv _ (step_importPcaps_afr s names st) (fun _ => trivial)
  | importDone processed usednew created upd rst add =>
    exact conv _ (step_importDone_afr s processed usednew created upd rst add st) (fun _ => trivial)
  | tagDone name result =>
    exact conv _ (step_tagDone_afr s name result st) (fun hn h => hn (by simp [EditsN, h]))
  | mergeDone merged => exact conv _ (step_mergeDone_afr s merged st) (fun _ => trivial)
  | convertDone => exact conv _ (step_convertDone_afr s st) (fun _ => trivial)
  | addTag name color defn f =>
    exact conv _ (step_addTag_afr s name color defn f st) (fun hn h => hn (by simp [EditsN, h]))
  | updQuery name defn f =>
    exact conv _ (step_updQuery_afr s name defn f st) (fun hn h => hn (by simp [EditsN, h]))
  | updColor name color => exact conv _ (step_updColor_afr s name color st) (fun _ => trivial)
  | updName name new =>
    exact conv _ (step_updName_afr s name new st)
      (fun hn => ⟨fun h => hn (by simp [EditsN, h]), fun h => hn (by simp [EditsN, h])⟩)
  | updConv name convs => exact conv _ (step_updConv_afr s name convs st) (fun _ => trivial)
  | markAdd name ids =>
    exact conv _ (step_markAdd_afr s name ids st) (fun hn h => hn (by simp [EditsN, h]))
  | markDel name ids =>
    exact conv _ (step_markDel_afr s name ids st) (fun hn h => hn (by simp [EditsN, h]))
  | delTag name =>
    exact conv _ (step_delTag_afr s name st) (fun hn h => hn (by simp [EditsN, h]))
  | viewOpen k => exact conv _ (step_viewOpen_afr s k st) (fun _ => trivial)
  | viewRelease k => exact conv _ (step_viewRelease_afr s k st) (fun _ => trivial)

/-! ## rejected calls -/

theorem markUpdate_res (s : St) (name : String) (a d : List Nat) (t : Tag) (ht : sget s.tags name = some t) :
    (markUpdate s name a d).2 = Res.ok := by
  rw [markUpdate_eq, ht]

/-- a rejected API call changes nothing -/
theorem step_rejected (s : St) (e : Ev) (st : Started) (h : (step s e st).2 = Res.err) : (step s e st).1 = s := by
  cases e with
  | nop => rfl
  | importPcaps names =>
    revert h; unfold step; simp only []
    split
    · intro _; rfl
    · intro h; cases h
  | importDone processed usednew created upd rst add =>
    revert h; rw [step_importDone_eq]
    split
    · intro _; rfl
    · intro h; cases h
  | tagDone name result =>
    revert h; rw [step_tagDone_eq]
    repeat' split
    all_goals first | (intro _; rfl) | (intro h; cases h)
  | mergeDone merged =>
    revert h; rw [step_mergeDone_eq]
    split
    · intro _; rfl
    · intro h; cases h
  | convertDone =>
    revert h; rw [step_convertDone_eq]
    split
    · intro _; rfl
    · intro h; cases h
  | addTag name color defn f =>
    revert h; rw [step_addTag_eq]
    repeat' split
    all_goals first | (intro _; rfl) | (intro h; cases h)
  | updQuery name defn f =>
    revert h; rw [step_updQuery_eq]
    repeat' split
    all_goals first | (intro _; rfl) | (intro h; cases h)
  | updColor name color =>
    revert h; unfold step; simp only []
    split
    · intro _; rfl
    · intro h; cases h
  | updName name new =>
    revert h; rw [step_updName_eq]
    repeat' split
    all_goals first | (intro _; rfl) | (intro h; cases h)
  | updConv name convs =>
    revert h; rw [step_updConv_eq]
    repeat' split
    all_goals first | (intro _; rfl) | (intro h; cases h)
  | markAdd name ids =>
    revert h; rw [step_markAdd_eq]
    repeat' split
    all_goals first | (intro _; rfl) | (intro h; cases h) | skip
    rename_i t ht _ _
    intro h
    simp only [markTail, markUpdate_res s name ids [] t ht] at h
    cases h
  | markDel name ids =>
    revert h; rw [step_markDel_eq]
    repeat' split
    all_goals first | (intro _; rfl) | (intro h; cases h) | skip
    rename_i t ht _ _
    intro h
    simp only [markTail, markUpdate_res s name [] ids t ht] at h
    cases h
  | delTag name =>
    revert h; rw [step_delTag_eq]
    repeat' split
    all_goals first | (intro _; rfl) | (intro h; cases h)
  | viewOpen k =>
    revert h; unfold step; simp only []
    split
    · intro _; rfl
    · intro h; cases h
  | viewRelease k =>
    revert h; unfold step; simp only []
    split
    · intro _; rfl
    · intro h; cases h

/-! ## the result code -/

theorem markTail_res (p : St × Res) (st : Started) : (markTail p st).2 = p.2 := rfl

/-- the result code of an event does not depend on which tagging job the service picked -/
theorem step_res_indep (s : St) (e : Ev) (st st' : Started) : (step s e st).2 = (step s e st').2 := by
  cases e with
  | nop => rfl
  | importPcaps names =>
    unfold step; simp only []
  | importDone processed usednew created upd rst add =>
    rw [step_importDone_eq, step_importDone_eq]
    split <;> rfl
  | tagDone name result =>
    rw [step_tagDone_eq, step_tagDone_eq]
    repeat' split
    all_goals rfl
  | mergeDone merged => rfl
  | convertDone =>
    rw [step_convertDone_eq, step_convertDone_eq]
    split <;> rfl
  | addTag name color defn f =>
    rw [step_addTag_eq, step_addTag_eq]
    repeat' split
    all_goals rfl
  | updQuery name defn f =>
    rw [step_updQuery_eq, step_updQuery_eq]
    repeat' split
    all_goals rfl
  | updColor name color => rfl
  | updName name new => rfl
  | updConv name convs =>
    rw [step_updConv_eq, step_updConv_eq]
    repeat' split
    all_goals rfl
  | markAdd name ids =>
    rw [step_markAdd_eq, step_markAdd_eq]
    repeat' split
    all_goals rfl
  | markDel name ids =>
    rw [step_markDel_eq, step_markDel_eq]
    repeat' split
    all_goals rfl
  | delTag name =>
    rw [step_delTag_eq, step_delTag_eq]
    repeat' split
    all_goals rfl
  | viewOpen k => rfl
  | viewRelease k => rfl


/-! ## the mark tag itself -/

theorem attrs_muAdd (t : Tag) (s : St) (a : List Nat) : Attrs (muAdd t s a).1 = Attrs t := by
  unfold muAdd
  split
  · rfl
  · simp only []
    split <;> rfl

theorem attrs_muDel (t : Tag) (d : List Nat) : Attrs (muDel t d) = Attrs t := by
  unfold muDel
  split
  · rfl
  · simp only []
    split <;> rfl

theorem markUpdate_self (s : St) (name : String) (a d : List Nat) (t : Tag) (ht : sget s.tags name = some t) :
    ∃ t', sget (markUpdate s name a d).1.tags name = some t' ∧ t'.unc = t.unc ∧ Attrs t' = Attrs t := by
  rw [markUpdate_eq, ht]
  simp only []
  have hk := inherit_akeep (setTag (muAdd t s a).2 name (muDel (muAdd t s a).1 d)) name
  have h0 : sget (setTag (muAdd t s a).2 name (muDel (muAdd t s a).1 d)).tags name =
      some (muDel (muAdd t s a).1 d) := by simp [setTag, sget_sins]
  unfold AKeep at hk
  rw [h0] at hk
  obtain ⟨t3, h3, ha⟩ := Option.map_eq_some_iff.mp hk
  have h4 : sget (invalidatedDuringTaggingJob (inherit (setTag (muAdd t s a).2 name (muDel (muAdd t s a).1 d)))
      (muDel (muAdd t s a).1 d).unc).tags name = some t3 := by
    rw [same_sget (invalidatedDuring_same _ _)]; exact h3
  refine ⟨{ t3 with unc := t.unc }, ?_, rfl, ?_⟩
  · unfold muFin; rw [h4]; simp [setTag, sget_sins]
  · show Attrs t3 = Attrs t
    rw [ha, attrs_muDel, attrs_muAdd]

theorem markTail_self (s : St) (name : String) (a d : List Nat) (st : Started) (t : Tag)
    (ht : sget s.tags name = some t) :
    ∃ t', sget (markTail (markUpdate s name a d) st).1.tags name = some t' ∧ t'.unc = t.unc ∧ Attrs t' = Attrs t := by
  obtain ⟨t', h1, h2, h3⟩ := markUpdate_self s name a d t ht
  refine ⟨t', ?_, h2, h3⟩
  have hs : Same (markUpdate s name a d).1 (markTail (markUpdate s name a d) st).1 :=
    (startTagging_same _ _).trans (startConverter_same _)
  rw [same_sget hs]; exact h1

/-- a mark update leaves the pending set and the attributes of the mark tag itself as they were -/
theorem step_markAdd_self (s : St) (name : String) (ids : List Nat) (st : Started) (t : Tag)
    (ht : sget s.tags name = some t) :
    ∃ t', sget (step s (.markAdd name ids) st).1.tags name = some t' ∧ t'.unc = t.unc ∧ Attrs t' = Attrs t := by
  rw [step_markAdd_eq]
  repeat' split
  all_goals first | exact ⟨t, ht, rfl, rfl⟩ | skip
  exact markTail_self _ _ _ _ _ _ ht

theorem step_markDel_self (s : St) (name : String) (ids : List Nat) (st : Started) (t : Tag)
    (ht : sget s.tags name = some t) :
    ∃ t', sget (step s (.markDel name ids) st).1.tags name = some t' ∧ t'.unc = t.unc ∧ Attrs t' = Attrs t := by
  rw [step_markDel_eq]
  repeat' split
  all_goals first | exact ⟨t, ht, rfl, rfl⟩ | skip
  exact markTail_self _ _ _ _ _ _ ht

/-! ## the tag counter `ngen` -/

section ngen
open Pk.Proofs.MgrSettle

@[simp, c09_frame] theorem release_ngen (s : St) (fs : List Nat) : (release s fs).ngen = s.ngen := by unfold release; frame
@[simp, c09_frame] theorem inherit_ngen (s : St) : (inherit s).ngen = s.ngen := rfl
@[simp, c09_frame] theorem invalidateTags_ngen (s : St) (a b c : IdSet) : (invalidateTags s a b c).ngen = s.ngen := rfl
@[simp, c09_frame] theorem invalidatedDuringTaggingJob_ngen (s : St) (ids : IdSet) :
    (invalidatedDuringTaggingJob s ids).ngen = s.ngen := by unfold invalidatedDuringTaggingJob; frame
@[simp, c09_frame] theorem invalidateConverters_ngen (s : St) (u : IdSet) : (invalidateConverters s u).ngen = s.ngen := by
  unfold invalidateConverters; frame
@[simp, c09_frame] theorem getIndexesCopy_ngen (s : St) (n : Nat) : ((getIndexesCopy s n).1).ngen = s.ngen := rfl
@[simp, c09_frame] theorem startMerge_ngen (s : St) : (startMerge s).ngen = s.ngen := by unfold startMerge; frame
@[simp, c09_frame] theorem startTagging_ngen (s : St) (c : Option String) : (startTagging s c).ngen = s.ngen := by
  unfold startTagging; frame
@[simp, c09_frame] theorem startConverter_ngen (s : St) : (startConverter s).ngen = s.ngen := by unfold startConverter; frame
@[simp, c09_frame] theorem startImport_ngen (s : St) : (startImport s).ngen = s.ngen := by unfold startImport; frame
@[simp, c09_frame] theorem setTag_ngen (s : St) (n : String) (t : Tag) : (setTag s n t).ngen = s.ngen := rfl
@[simp, c09_frame] theorem addRefBy_ngen (s : St) (a b : String) : (addRefBy s a b).ngen = s.ngen := by unfold addRefBy; frame
@[simp, c09_frame] theorem delRefBy_ngen (s : St) (a b : String) : (delRefBy s a b).ngen = s.ngen := by unfold delRefBy; frame
@[simp, c09_frame] theorem attachConv_ngen (s : St) (n c : String) : ((attachConv s n c).1).ngen = s.ngen := by
  unfold attachConv; frame
@[simp, c09_frame] theorem outputDropped_ngen (s : St) (ch : Option String) : (outputDropped s ch).ngen = s.ngen := by
  unfold outputDropped; frame
-- CHANGED (dropped): takes the tagging choice
@[simp, c09_frame] theorem detachConv_ngen (s : St) (n c : String) (ch : Option String := none) :
    (detachConv s n c ch).ngen = s.ngen := by
  unfold detachConv; frame
@[simp, c09_frame] theorem markUpdate_ngen (s : St) (n : String) (a d : List Nat) : ((markUpdate s n a d).1).ngen = s.ngen :=
  markUpdate_frame (·.ngen) (fun _ _ => rfl) (fun _ _ => rfl) (fun _ _ => rfl) (fun _ _ => rfl) s n a d

/-- what `step` does to `ngen`: `addTag` that is accepted counts one up, everything else keeps it -/
theorem step_ngen_cases (s : St) (e : Ev) (st : Started) :
    (step s e st).1.ngen = s.ngen ∨ ((∃ n c d f, e = .addTag n c d f) ∧ (step s e st).1.ngen = s.ngen + 1) := by
  cases e with
  | nop => exact .inl rfl
  | importPcaps names => left; unfold step; frame
  | importDone processed usednew created upd rst add =>
    left; rw [step_importDone_eq]; unfold jobTail idQueue idApply idCreated; frame
  | tagDone name result =>
    left; rw [step_tagDone_eq]; unfold jobTail tdPublish tdInval qConv; frame
  | mergeDone merged => left; unfold step; frame
  | convertDone => left; rw [step_convertDone_eq]; unfold cdMark; frame
  | addTag name color defn f =>
    rw [step_addTag_eq]
    repeat' split
    all_goals first | exact .inl rfl | skip
    right
    refine ⟨⟨_, _, _, _, rfl⟩, ?_⟩
    unfold atFinish
    rw [atPair_fst]
    frame
  | updQuery name defn f =>
    left; rw [step_updQuery_eq]; unfold uqApply uqInv uqRefs; frame
  | updColor name color => left; unfold step; frame
  | updName name new => left; rw [step_updName_eq]; unfold unApply; frame
  | updConv name convs => left; rw [step_updConv_eq]; unfold ucAttach ucDetach; frame
  | markAdd name ids => left; rw [step_markAdd_eq]; unfold markTail; frame
  | markDel name ids => left; rw [step_markDel_eq]; unfold markTail; frame
  | delTag name => left; rw [step_delTag_eq]; unfold dtApply; frame
  | viewOpen k => left; unfold step; frame
  | viewRelease k => left; unfold step; frame

/-- `ngen` only grows, and only `addTag` changes it -/
theorem step_ngen (s : St) (e : Ev) (st : Started) :
    s.ngen ≤ (step s e st).1.ngen ∧ ((∀ n c d f, e ≠ .addTag n c d f) → (step s e st).1.ngen = s.ngen) := by
  rcases step_ngen_cases s e st with h | ⟨⟨n, c, d, f, he⟩, h⟩
  · exact ⟨Nat.le_of_eq h.symm, fun _ => h⟩
  · exact ⟨by rw [h]; exact Nat.le_succ _, fun hne => absurd he (hne n c d f)⟩

end ngen

end Pk.Proofs.MgrTruth
