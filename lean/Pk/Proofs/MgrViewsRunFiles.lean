/-
  MgrViewsRunFiles — index files are immutable: what one step of the service loop does to the table of
  open files.  A file that is open keeps its content until it is closed; a file that is open after the
  step was open before with the same content, or it is one of the files the event reports (created by
  the import job / written by the merge job that completes).
-/
import Pk.Proofs.MgrViewsRun

namespace Pk.Proofs.MgrViewsRun
open Pk.Mgr Pk.Proofs.MgrViews

/-- `s'` has the open files of `s` (same content) except for files that were closed, plus possibly the
    files `rep` -/
structure FRel (rep : List (Nat × List Nat)) (s s' : St) : Prop where
  keep : ∀ f ids, nget s.files f = some ids → nget s'.files f = some ids ∨ nget s'.files f = none
  new : ∀ f ids, nget s'.files f = some ids → nget s.files f = some ids ∨ (f, ids) ∈ rep

theorem FRel.refl (s : St) : FRel [] s s := ⟨fun _ _ h => Or.inl h, fun _ _ h => Or.inl h⟩

theorem FRel.of_files {s s' : St} (h : s'.files = s.files) : FRel [] s s' := by
  constructor <;> intro f ids hf
  · rw [h]; exact Or.inl hf
  · rw [h] at hf; exact Or.inl hf

/-- a step that reports files, followed by steps that only close files -/
theorem FRel.trans {rep : List (Nat × List Nat)} {a b c : St} (h1 : FRel rep a b) (h2 : FRel [] b c) :
    FRel rep a c := by
  constructor
  · intro f ids hf
    rcases h1.keep f ids hf with h | h
    · exact h2.keep f ids h
    · right
      cases hc : nget c.files f with
      | none => rfl
      | some x =>
        rcases h2.new f x hc with h' | h'
        · rw [h] at h'; cases h'
        · cases h'
  · intro f ids hf
    rcases h2.new f ids hf with h | h
    · exact h1.new f ids h
    · cases h

theorem FRel.mono {rep : List (Nat × List Nat)} {a b : St} (h : FRel [] a b) : FRel rep a b :=
  ⟨h.keep, fun f ids hf => by
    rcases h.new f ids hf with h' | h'
    · exact Or.inl h'
    · cases h'⟩

theorem frel_rel1 (s : St) (g : Nat) : FRel [] s (rel1 s g) := by
  unfold rel1
  split
  · exact FRel.refl s
  · split
    · constructor <;> intro f ids hf <;> dsimp only at hf ⊢
      · rw [nget_ndel]
        by_cases h : f = g
        · simp [h]
        · simp [h, hf]
      · rw [nget_ndel] at hf
        by_cases h : f = g
        · simp [h] at hf
        · simp only [h, if_false] at hf; exact Or.inl hf
    · exact FRel.of_files rfl

theorem frel_release (s : St) (fs : List Nat) : FRel [] s (release s fs) := by
  induction fs generalizing s with
  | nil => exact FRel.refl s
  | cons g fs ih => rw [release_cons]; exact (frel_rel1 s g).trans (ih _)

theorem frel_frame {s s' : St} (h : Frame s s') : FRel [] s s' := FRel.of_files h.files

theorem nget_foldl_nins_cases (cr : List (Nat × List Nat)) (files : List (Nat × List Nat)) (f : Nat)
    (ids : List Nat)
    (h : nget (cr.foldl (fun fs (x : Nat × List Nat) => nins x.1 x.2 fs) files) f = some ids) :
    nget files f = some ids ∨ (f, ids) ∈ cr := by
  induction cr generalizing files with
  | nil => exact Or.inl h
  | cons c cr ih =>
    rw [List.foldl_cons] at h
    rcases ih _ h with h' | h'
    · rw [nget_nins] at h'
      by_cases hf : f = c.1
      · rw [if_pos hf] at h'
        cases h'
        exact Or.inr (by rw [hf]; exact List.mem_cons_self)
      · rw [if_neg hf] at h'; exact Or.inl h'
    · exact Or.inr (List.mem_cons_of_mem _ h')

/-- closing files, then inserting files whose ordinals were not open -/
theorem frel_insert {s s1 s2 : St} {cr : List (Nat × List Nat)} (h1 : FRel [] s s1)
    (hfresh : ∀ o ∈ cr.map (·.1), nget s.files o = none)
    (h2 : s2.files = cr.foldl (fun fs (x : Nat × List Nat) => nins x.1 x.2 fs) s1.files) : FRel cr s s2 := by
  constructor
  · intro f ids hf
    have hnm : f ∉ cr.map (·.1) := fun hm => by rw [hfresh f hm] at hf; cases hf
    rw [h2, nget_foldl_nins_of_not_mem _ _ _ hnm]
    exact h1.keep f ids hf
  · intro f ids hf
    rw [h2] at hf
    rcases nget_foldl_nins_cases _ _ _ _ hf with h | h
    · rcases h1.new f ids h with h' | h'
      · exact Or.inl h'
      · cases h'
    · exact Or.inr h

theorem frel_importBase (s : St) (jn : Nat) (held : List Nat) (un : Nat) (cr : List (Nat × List Nat))
    (u r a : IdSet) (hfresh : ∀ o ∈ cr.map (·.1), nget s.files o = none) :
    FRel cr s (importBase s jn held un cr u r a) := by
  have h1 : FRel [] s (release { s with all := jn + un, jImport := none } held) :=
    (FRel.of_files (s := s) (s' := { s with all := jn + un, jImport := none }) rfl).trans (frel_release _ _)
  unfold importBase; dsimp only
  split
  · exact h1.mono
  · exact frel_insert h1 hfresh rfl

theorem frel_mergeBase (s : St) (off : Nat) (held : List Nat) (mg : List (Nat × List Nat))
    (hfresh : ∀ o ∈ mg.map (·.1), nget s.files o = none) :
    FRel mg s (mergeBase s off held mg) := by
  unfold mergeBase; dsimp only
  split
  · exact (FRel.refl s).mono
  · have h1 : FRel [] s (release { s with jMerge := none } ((s.idx.drop off).take held.length)) :=
      (FRel.of_files (s := s) (s' := { s with jMerge := none }) rfl).trans (frel_release _ _)
    exact frel_insert h1 hfresh rfl

/-- the files an event reports: the files created by the import job / written by the merge job whose
    completion the event is -/
def reported (s : St) : Ev → List (Nat × List Nat)
  | .importDone _ _ created _ _ _ => if s.jImport.isSome then created else []
  | .mergeDone merged => if s.jMerge.isSome then merged else []
  | _ => []

/-- ONE STEP: open files keep their content or are closed; files open afterwards are old ones or
    reported ones.  (`hfresh`: reported files are new — `C13.FreshFiles`.) -/
theorem frel_step (s : St) (e : Ev) (st : Started)
    (hfresh : ∀ p ∈ reported s e, nget s.files p.1 = none) : FRel (reported s e) s (step s e st).1 := by
  cases e with
  | importDone a b c d e' f =>
    refine step_importDone s st a b c d e' f (FRel _ s) (FRel.refl s).mono (fun jn held fin hj hf => ?_)
    have hr : reported s (.importDone a b c d e' f) = c := by simp [reported, hj]
    rw [hr] at hfresh ⊢
    refine (frel_importBase s jn held b c _ _ _ ?_).trans (frel_frame hf)
    intro o ho
    obtain ⟨p, hp, rfl⟩ := List.mem_map.1 ho
    exact hfresh p hp
  | tagDone a b =>
    exact step_tagDone s st a b (FRel _ s) (fun s' hf => frel_frame hf)
      (fun jn snap held mid _ hf => (frel_frame hf).trans (frel_release _ _))
  | mergeDone m =>
    refine step_mergeDone s st m (FRel _ s) (FRel.refl s).mono (fun off held mid hj hf => ?_)
    have hr : reported s (.mergeDone m) = m := by simp [reported, hj]
    rw [hr] at hfresh ⊢
    refine ((frel_mergeBase s off held m ?_).trans (frel_frame hf)).trans (frel_release _ _)
    intro o ho
    obtain ⟨p, hp, rfl⟩ := List.mem_map.1 ho
    exact hfresh p hp
  | convertDone =>
    exact step_convertDone s st (FRel _ s) (fun s' hf => frel_frame hf)
      (fun sets held mid _ hf => (frel_frame hf).trans (frel_release _ _))
  | viewRelease k =>
    simp -zeta only [step]
    split
    · exact FRel.refl s
    · exact (FRel.of_files (s := s) (s' := { s with views := ndel s.views k }) rfl).trans (frel_release _ _)
  | _ =>
    exact frel_frame (frame_step_other s _ st (by simp) (by simp) (by simp) (by simp) (by simp))

end Pk.Proofs.MgrViewsRun
