/-
  MgrViewsRunExample — the concrete history of the NON-VACUITY example of Pk/Props/C10Reach.lean: the states as
  literals, the steps, and the payload contract (`PayloadOK`) of every event.

    importPcaps ["a.pcap"]; importDone creating file 0 = streams {0,1}; importPcaps ["b.pcap"]; importDone creating
    file 1 = stream {2}; viewOpen 7 (captures [0,1]); importPcaps ["c.pcap"]; importDone creating file 2 = streams
    {1,3} (stream 1 updated, stream 3 new; a merge job over [0,1,2] starts inside the step); mergeDone writing
    file 3 = streams {0,1,2,3} (the service list becomes [3]; files 0 and 1 stay open for the view, file 2 is closed)
-/
import Pk.Props.MgrReach
namespace Pk.Proofs.MgrViewsRunExample
open Pk.Mgr Pk.Props.MgrReach

def s0 : St := { convs := [], toconv := [], cached := [] }
def s1 : St := { s0 with queue := ["a.pcap"], pcaps := ["a.pcap"], jImport := some (0, []) }
def s2 : St :=
  { idx := [0], files := [(0, [0, 1])], used := [(0, 1)], next := 2, all := 2, nrec := 2, add := [0, 1],
    pcaps := ["a.pcap"] }
def s3 : St :=
  { s2 with used := [(0, 2)], queue := ["b.pcap"], pcaps := ["a.pcap", "b.pcap"], jImport := some (2, [0]) }
def s4 : St :=
  { idx := [0, 1], files := [(0, [0, 1]), (1, [2])], used := [(0, 1), (1, 1)], next := 3, all := 3, nrec := 3,
    add := [0, 1, 2], pcaps := ["a.pcap", "b.pcap"] }
def s5 : St := { s4 with used := [(0, 2), (1, 2)], views := [(7, [0, 1])] }
def s6 : St :=
  { s5 with used := [(0, 3), (1, 3)], queue := ["c.pcap"], pcaps := ["a.pcap", "b.pcap", "c.pcap"],
            jImport := some (3, [0, 1]) }
def s7 : St :=
  { idx := [0, 1, 2], files := [(0, [0, 1]), (1, [2]), (2, [1, 3])], used := [(0, 3), (1, 3), (2, 2)], next := 4,
    all := 4, nrec := 5, upd := [1], add := [0, 1, 2, 3], pcaps := ["a.pcap", "b.pcap", "c.pcap"],
    views := [(7, [0, 1])], merge := true, jMerge := some (0, [0, 1, 2]) }
def s8 : St :=
  { idx := [3], files := [(0, [0, 1]), (1, [2]), (3, [0, 1, 2, 3])], used := [(0, 1), (1, 1), (3, 1)], next := 4,
    all := 4, nrec := 4, upd := [1], add := [0, 1, 2, 3], pcaps := ["a.pcap", "b.pcap", "c.pcap"],
    views := [(7, [0, 1])] }

def e1 : Ev := .importPcaps ["a.pcap"]
def e2 : Ev := .importDone 1 2 [(0, [0, 1])] [] [] [0, 1]
def e3 : Ev := .importPcaps ["b.pcap"]
def e4 : Ev := .importDone 1 1 [(1, [2])] [] [] [2]
def e5 : Ev := .viewOpen 7
def e6 : Ev := .importPcaps ["c.pcap"]
def e7 : Ev := .importDone 1 1 [(2, [1, 3])] [1] [] [3]
def e8 : Ev := .mergeDone [(3, [0, 1, 2, 3])]

theorem step1 : step s0 e1 {} = (s1, .none) := rfl
theorem step2 : step s1 e2 {} = (s2, .none) := rfl
theorem step3 : step s2 e3 {} = (s3, .none) := rfl
theorem step4 : step s3 e4 {} = (s4, .none) := rfl
theorem step5 : step s4 e5 {} = (s5, .none) := rfl
theorem step6 : step s5 e6 {} = (s6, .none) := rfl
theorem step7 : step s6 e7 {} = (s7, .none) := rfl
theorem step8 : step s7 e8 {} = (s8, .none) := rfl

/-! ## the payload contract, event by event -/

theorem ok1 : PayloadOK s0 e1 := ⟨trivial, trivial, trivial, trivial, trivial⟩

theorem ok2 : PayloadOK s1 e2 := by
  refine ⟨⟨⟨?_, ?_⟩, ?_⟩, ?_, trivial, ?_, trivial⟩
  · simp
  · intro o _; exact ⟨rfl, rfl⟩
  · intro jn held h
    cases h
    refine ⟨rfl, fun _ => by simp, ?_⟩
    intro id h1 h2
    refine ⟨(0, [0, 1]), List.mem_singleton.2 rfl, ?_⟩
    show id ∈ [0, 1]
    simp only [List.mem_cons, List.not_mem_nil, or_false]; omega
  · intro _; exact ⟨by decide, by decide⟩
  · intro jn held h
    cases h
    refine ⟨fun id h => (by cases h), fun id h => (by cases h), fun id h => ?_⟩
    simp at h; omega

theorem ok3 : PayloadOK s2 e3 := ⟨trivial, trivial, trivial, trivial, trivial⟩

theorem ok4 : PayloadOK s3 e4 := by
  refine ⟨⟨⟨?_, ?_⟩, ?_⟩, ?_, trivial, ?_, trivial⟩
  · simp
  · intro o ho
    have : o = 1 := by simpa using ho
    subst this; exact ⟨rfl, rfl⟩
  · intro jn held h
    cases h
    refine ⟨rfl, fun _ => by simp, ?_⟩
    intro id h1 h2
    refine ⟨(1, [2]), List.mem_singleton.2 rfl, ?_⟩
    show id ∈ [2]
    rw [List.mem_singleton]; omega
  · intro _; exact ⟨by decide, by decide⟩
  · intro jn held h
    cases h
    refine ⟨fun id h => (by cases h), fun id h => (by cases h), fun id h => ?_⟩
    simp at h; omega

theorem ok5 : PayloadOK s4 e5 := ⟨trivial, trivial, trivial, trivial, trivial⟩
theorem ok6 : PayloadOK s5 e6 := ⟨trivial, trivial, trivial, trivial, trivial⟩

theorem ok7 : PayloadOK s6 e7 := by
  refine ⟨⟨⟨?_, ?_⟩, ?_⟩, ?_, trivial, ?_, trivial⟩
  · simp
  · intro o ho
    have : o = 2 := by simpa using ho
    subst this; exact ⟨rfl, rfl⟩
  · intro jn held h
    cases h
    refine ⟨rfl, fun _ => by simp, ?_⟩
    intro id h1 h2
    refine ⟨(2, [1, 3]), List.mem_singleton.2 rfl, ?_⟩
    show id ∈ [1, 3]
    simp only [List.mem_cons, List.not_mem_nil, or_false]; omega
  · intro _; exact ⟨by decide, by decide⟩
  · intro jn held h
    cases h
    refine ⟨fun id h => ?_, fun id h => (by cases h), fun id h => ?_⟩
    · simp at h; omega
    · simp at h; omega

theorem ok8 : PayloadOK s7 e8 := by
  refine ⟨⟨⟨?_, ?_⟩, ?_⟩, trivial, trivial, trivial, trivial⟩
  · simp
  · intro o ho
    have : o = 3 := by simpa using ho
    subst this; exact ⟨rfl, rfl⟩
  · intro off held h
    cases h
    refine ⟨rfl, fun _ id hid => ⟨(3, [0, 1, 2, 3]), List.mem_singleton.2 rfl, ?_⟩⟩
    obtain ⟨f, hf, hm⟩ := hid
    show id ∈ [0, 1, 2, 3]
    simp only [List.mem_cons, List.not_mem_nil, or_false] at hf
    rcases hf with rfl | rfl | rfl
    · have : id ∈ [0, 1] := hm
      simp at this ⊢; omega
    · have : id ∈ [2] := hm
      simp at this ⊢; omega
    · have : id ∈ [1, 3] := hm
      simp at this ⊢; omega

/-! ## a second continuation after `e7`: an import completes while the merge job is in flight

    importPcaps ["d.pcap"]; importDone creating file 4 = stream {0} (stream 0 updated) — appended AFTER the run
    [0,1,2] the merge job holds; mergeDone writing file 3 = streams {0,1,2,3}: the service list becomes [3,4], the
    merged file is spliced in BEFORE file 4 -/

def t8 : St :=
  { s7 with used := [(0, 4), (1, 4), (2, 3)], queue := ["d.pcap"],
            pcaps := ["a.pcap", "b.pcap", "c.pcap", "d.pcap"], jImport := some (4, [0, 1, 2]) }
def t9 : St :=
  { idx := [0, 1, 2, 4], files := [(0, [0, 1]), (1, [2]), (2, [1, 3]), (4, [0])],
    used := [(0, 3), (1, 3), (2, 2), (4, 1)], next := 4, all := 4, nrec := 6, upd := [0, 1], add := [0, 1, 2, 3],
    pcaps := ["a.pcap", "b.pcap", "c.pcap", "d.pcap"], views := [(7, [0, 1])], merge := true,
    jMerge := some (0, [0, 1, 2]) }
def t10 : St :=
  { idx := [3, 4], files := [(0, [0, 1]), (1, [2]), (3, [0, 1, 2, 3]), (4, [0])],
    used := [(0, 1), (1, 1), (3, 1), (4, 1)], next := 4, all := 4, nrec := 5, upd := [0, 1], add := [0, 1, 2, 3],
    pcaps := ["a.pcap", "b.pcap", "c.pcap", "d.pcap"], views := [(7, [0, 1])] }

def g8 : Ev := .importPcaps ["d.pcap"]
def g9 : Ev := .importDone 1 0 [(4, [0])] [0] [] []
def g10 : Ev := .mergeDone [(3, [0, 1, 2, 3])]

theorem gstep8 : step s7 g8 {} = (t8, .none) := rfl
theorem gstep9 : step t8 g9 {} = (t9, .none) := rfl
theorem gstep10 : step t9 g10 {} = (t10, .none) := rfl

theorem gok8 : PayloadOK s7 g8 := ⟨trivial, trivial, trivial, trivial, trivial⟩

theorem gok9 : PayloadOK t8 g9 := by
  refine ⟨⟨⟨?_, ?_⟩, ?_⟩, ?_, trivial, ?_, trivial⟩
  · simp
  · intro o ho
    have : o = 4 := by simpa using ho
    subst this; exact ⟨rfl, rfl⟩
  · intro jn held h
    cases h
    exact ⟨rfl, fun h => absurd rfl h, fun id h1 h2 => by omega⟩
  · intro _; exact ⟨by decide, by decide⟩
  · intro jn held h
    cases h
    refine ⟨fun id h => ?_, fun id h => (by cases h), fun id h => (by cases h)⟩
    have : id = 0 := by simpa using h
    omega

theorem gok10 : PayloadOK t9 g10 := by
  refine ⟨⟨⟨?_, ?_⟩, ?_⟩, trivial, trivial, trivial, trivial⟩
  · simp
  · intro o ho
    have : o = 3 := by simpa using ho
    subst this; exact ⟨rfl, rfl⟩
  · intro off held h
    cases h
    refine ⟨rfl, fun _ id hid => ⟨(3, [0, 1, 2, 3]), List.mem_singleton.2 rfl, ?_⟩⟩
    obtain ⟨f, hf, hm⟩ := hid
    show id ∈ [0, 1, 2, 3]
    simp only [List.mem_cons, List.not_mem_nil, or_false] at hf
    rcases hf with rfl | rfl | rfl
    · have : id ∈ [0, 1] := hm
      simp at this ⊢; omega
    · have : id ∈ [2] := hm
      simp at this ⊢; omega
    · have : id ∈ [1, 3] := hm
      simp at this ⊢; omega

end Pk.Proofs.MgrViewsRunExample
