/-
  Import tables: `mergeImports` (AddIndex), `nameTable`/`readImports` (Finalize / NewReader),
  `addImports` (AddStream).
-/
import Pk.Proofs.MergeFullDefs

namespace Pk.Index
open Pk Pk.Bytes

/-! ## mergeImports -/

theorem mfi_mergeImports_cons_mem (imps : List ImportKey) (k : ImportKey) (ks : List ImportKey)
    (hk : k ∈ imps) :
    mergeImports imps (k :: ks) =
      ((mergeImports imps ks).1, (imps.idxOf k % 2 ^ 32) :: (mergeImports imps ks).2) := by
  simp [mergeImports, hk]

theorem mfi_mergeImports_cons_not_mem (imps : List ImportKey) (k : ImportKey) (ks : List ImportKey)
    (hk : k ∉ imps) :
    mergeImports imps (k :: ks) =
      ((mergeImports (imps ++ [k]) ks).1, (imps.length % 2 ^ 32) :: (mergeImports (imps ++ [k]) ks).2) := by
  simp [mergeImports, hk]

theorem mfi_nodup_snoc (imps : List ImportKey) (k : ImportKey) (h : imps.Nodup) (hk : k ∉ imps) :
    (imps ++ [k]).Nodup := by
  rw [List.nodup_append]
  refine ⟨h, by simp, ?_⟩
  intro a ha b hb
  simp at hb
  subst hb
  intro hab
  subst hab
  exact hk ha

theorem mergeImports_spec (imps ks : List ImportKey) :
    (∃ extra, (mergeImports imps ks).1 = imps ++ extra ∧ ∀ k ∈ extra, k ∈ ks) ∧
    (mergeImports imps ks).2.length = ks.length ∧
    (imps.Nodup → (mergeImports imps ks).1.Nodup) ∧
    ((mergeImports imps ks).1.length ≤ 2 ^ 32 → ∀ (i : Nat) (k : ImportKey), ks[i]? = some k →
      ∃ j : Nat, (mergeImports imps ks).2[i]? = some j ∧ (mergeImports imps ks).1[j]? = some k) := by
  induction ks generalizing imps with
  | nil => simp [mergeImports]
  | cons k ks ih =>
    by_cases hc : k ∈ imps
    · rw [mfi_mergeImports_cons_mem _ _ _ hc]
      obtain ⟨⟨extra, he, hex⟩, hlen, hnd, hget⟩ := ih imps
      refine ⟨⟨extra, he, fun x hx => List.mem_cons_of_mem _ (hex x hx)⟩, by simp [hlen], hnd, ?_⟩
      intro hle i k' hi
      cases i with
      | zero =>
        simp only [List.getElem?_cons_zero, Option.some.injEq] at hi
        subst hi
        simp only [List.getElem?_cons_zero, Option.some.injEq, exists_eq_left']
        have hlt : imps.idxOf k < imps.length := List.idxOf_lt_length_of_mem hc
        have hl : imps.length ≤ 2 ^ 32 := by
          change (mergeImports imps ks).1.length ≤ 2 ^ 32 at hle
          rw [he, List.length_append] at hle; omega
        change (mergeImports imps ks).1[imps.idxOf k % 2 ^ 32]? = some k
        rw [he, Nat.mod_eq_of_lt (by omega), List.getElem?_append_left hlt]
        simp [List.getElem?_eq_getElem hlt]
      | succ i =>
        simp only [List.getElem?_cons_succ] at hi ⊢
        exact hget hle i k' hi
    · rw [mfi_mergeImports_cons_not_mem _ _ _ hc]
      obtain ⟨⟨extra, he, hex⟩, hlen, hnd, hget⟩ := ih (imps ++ [k])
      refine ⟨⟨k :: extra, by simpa using he, ?_⟩, by simp [hlen],
        fun h => hnd (mfi_nodup_snoc imps k h hc), ?_⟩
      · intro x hx
        rcases List.mem_cons.1 hx with rfl | hx
        · exact List.mem_cons_self
        · exact List.mem_cons_of_mem _ (hex x hx)
      · intro hle i k' hi
        cases i with
        | zero =>
          simp only [List.getElem?_cons_zero, Option.some.injEq] at hi
          subst hi
          simp only [List.getElem?_cons_zero, Option.some.injEq, exists_eq_left']
          have hl : imps.length < 2 ^ 32 := by
            change (mergeImports (imps ++ [k]) ks).1.length ≤ 2 ^ 32 at hle
            rw [he] at hle; simp only [List.length_append, List.length_cons, List.length_nil] at hle; omega
          change (mergeImports (imps ++ [k]) ks).1[imps.length % 2 ^ 32]? = some k
          rw [he, Nat.mod_eq_of_lt hl]
          simp
        | succ i =>
          simp only [List.getElem?_cons_succ] at hi ⊢
          exact hget hle i k' hi

/-! ## addImports -/

theorem addImports_spec (imps : List ImportKey) (rs : List SrcRef) :
    (∃ extra, addImports imps rs = imps ++ extra ∧ ∀ k ∈ extra, ∃ r ∈ rs, k = r.key) ∧
    (imps.Nodup → (addImports imps rs).Nodup) ∧ (∀ r ∈ rs, r.key ∈ addImports imps rs) := by
  induction rs generalizing imps with
  | nil => simp [addImports]
  | cons r rs ih =>
    rw [addImports]
    by_cases hc : r.key ∈ imps
    · have hc' : imps.contains r.key = true := by simpa using hc
      rw [if_pos hc']
      obtain ⟨⟨extra, he, hex⟩, hnd, hmem⟩ := ih imps
      refine ⟨⟨extra, he, fun x hx => ?_⟩, hnd, ?_⟩
      · obtain ⟨r', hr', e⟩ := hex x hx
        exact ⟨r', List.mem_cons_of_mem _ hr', e⟩
      · intro r' hr'
        rcases List.mem_cons.1 hr' with rfl | hr'
        · rw [he]; exact List.mem_append_left _ hc
        · exact hmem r' hr'
    · have hc' : ¬ imps.contains r.key = true := by simpa using hc
      rw [if_neg hc']
      obtain ⟨⟨extra, he, hex⟩, hnd, hmem⟩ := ih (imps ++ [r.key])
      refine ⟨⟨r.key :: extra, by simpa using he, fun x hx => ?_⟩,
        fun h => hnd (mfi_nodup_snoc imps r.key h hc), ?_⟩
      · rcases List.mem_cons.1 hx with rfl | hx
        · exact ⟨r, List.mem_cons_self, rfl⟩
        · obtain ⟨r', hr', e⟩ := hex x hx
          exact ⟨r', List.mem_cons_of_mem _ hr', e⟩
      · intro r' hr'
        rcases List.mem_cons.1 hr' with rfl | hr'
        · rw [he]; simp
        · exact hmem r' hr'

/-! ## nameTable / readImports -/

/-- every recorded offset points at its name, NUL-terminated, in `blob` -/
def mfi_OffsInv (blob : Bytes) (offs : List (Bytes × Nat)) : Prop :=
  ∀ e ∈ offs, (0 : UInt8) ∉ e.1 ∧ ∃ rest, blob.drop e.2 = e.1 ++ 0 :: rest

theorem mfi_OffsInv_grow {blob : Bytes} {offs : List (Bytes × Nat)} (h : mfi_OffsInv blob offs)
    (fn : Bytes) (hfn : (0 : UInt8) ∉ fn) :
    mfi_OffsInv (blob ++ fn ++ [0]) (offs ++ [(fn, blob.length)]) := by
  intro e he
  rcases List.mem_append.1 he with he | he
  · obtain ⟨h0, rest, hr⟩ := h e he
    refine ⟨h0, rest ++ (fn ++ [0]), ?_⟩
    have hlt : e.2 ≤ blob.length := by
      by_cases hh : e.2 ≤ blob.length
      · exact hh
      · rw [List.drop_eq_nil_of_le (by omega)] at hr
        simp at hr
    rw [List.append_assoc, List.drop_append_of_le_length hlt, hr]
    simp
  · simp at he
    subst he
    refine ⟨hfn, [], ?_⟩
    simp

theorem mfi_nameTableGo_inv (ks : List ImportKey) (blob : Bytes) (offs : List (Bytes × Nat))
    (h : mfi_OffsInv blob offs) (hks : NoNul ks) :
    mfi_OffsInv (nameTableGo blob offs ks).1 (nameTableGo blob offs ks).2 ∧
    (∀ fn, (fn ∈ offs.map (·.1) ∨ fn ∈ ks.map (·.1)) → fn ∈ (nameTableGo blob offs ks).2.map (·.1)) := by
  induction ks generalizing blob offs with
  | nil => simp [nameTableGo]; exact h
  | cons k ks ih =>
    obtain ⟨fn, o⟩ := k
    have hks' : NoNul ks := fun k hk => hks k (List.mem_cons_of_mem _ hk)
    have hfn : (0 : UInt8) ∉ fn := hks (fn, o) List.mem_cons_self
    rw [nameTableGo]
    split
    · rename_i hany
      obtain ⟨hi, hm⟩ := ih blob offs h hks'
      refine ⟨hi, ?_⟩
      intro fn' hfn'
      apply hm
      rcases hfn' with h1 | h1
      · exact Or.inl h1
      · simp only [List.map_cons, List.mem_cons] at h1
        rcases h1 with rfl | h1
        · left
          simp only [List.any_eq_true, beq_iff_eq] at hany
          obtain ⟨e, he, hee⟩ := hany
          exact List.mem_map.2 ⟨e, he, hee⟩
        · exact Or.inr h1
    · obtain ⟨hi, hm⟩ := ih _ _ (mfi_OffsInv_grow h fn hfn) hks'
      refine ⟨hi, ?_⟩
      intro fn' hfn'
      apply hm
      rcases hfn' with h1 | h1
      · left; simp only [List.map_append, List.mem_append]; exact Or.inl h1
      · simp only [List.map_cons, List.mem_cons] at h1
        rcases h1 with rfl | h1
        · left; simp
        · exact Or.inr h1

theorem mfi_takeWhile_nul (fn rest : Bytes) (h : (0 : UInt8) ∉ fn) :
    (fn ++ 0 :: rest).takeWhile (· ≠ 0) = fn := by
  induction fn with
  | nil => simp
  | cons a fn ih =>
    have ha : a ≠ 0 := by intro e; subst e; exact h List.mem_cons_self
    have hfn : (0 : UInt8) ∉ fn := fun hh => h (List.mem_cons_of_mem _ hh)
    have := ih hfn
    simp only [List.cons_append, List.takeWhile_cons, ha, ne_eq, not_false_eq_true, decide_true, if_true, this]

theorem mfi_finalize_importNames (w : Writer) : w.finalize.importNames = (nameTable w.imports).1 := rfl

theorem mfi_finalize_imports (w : Writer) :
    w.finalize.imports = w.imports.map fun k =>
      { filename := match (nameTable w.imports).2.find? (fun e => e.1 == k.1) with | some e => e.2 | none => 0,
        offset := k.2 } := rfl

/-- `Finalize` then `NewReader`: the reader's import table is the writer's -/
theorem finalize_imports (w : Writer) (h : NoNul w.imports) :
    readImports w.finalize.importNames w.finalize.imports = w.imports := by
  rw [mfi_finalize_importNames, mfi_finalize_imports, readImports, List.map_map]
  obtain ⟨hinv, hmem⟩ := mfi_nameTableGo_inv w.imports [] [] (by intro e he; simp at he) h
  change mfi_OffsInv (nameTable w.imports).1 (nameTable w.imports).2 at hinv
  change ∀ fn, _ → fn ∈ (nameTable w.imports).2.map (·.1) at hmem
  conv => rhs; rw [← List.map_id w.imports]
  apply List.map_congr_left
  intro k hk
  have hin : k.1 ∈ (nameTable w.imports).2.map (·.1) := hmem k.1 (Or.inr (List.mem_map_of_mem hk))
  obtain ⟨e0, he0, hee0⟩ := List.mem_map.1 hin
  cases hf : (nameTable w.imports).2.find? (fun e => e.1 == k.1) with
  | none =>
    rw [List.find?_eq_none] at hf
    exact absurd (by simpa using hee0) (hf e0 he0)
  | some e =>
    have hp := List.find?_some hf
    have hm := List.mem_of_find?_eq_some hf
    have he1 : e.1 = k.1 := by simpa using hp
    obtain ⟨h0, rest, hr⟩ := hinv e hm
    simp only [Function.comp, hf, id]
    rw [hr, mfi_takeWhile_nul _ _ h0, he1]

end Pk.Index
