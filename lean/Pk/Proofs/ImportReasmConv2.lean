/-
  Helper lemmas for Pk/Props/C05Reasm.lean, target (4): one packet of the only connection through
  `tcpPacket`.
-/
import Pk.Proofs.ImportReasmConv

namespace Pk.Proofs.ImportReasm
open Pk.Import

/-- the two endpoints of a TCP conversation -/
structure Endpoints where
  cip : String
  sip : String
  cport : Nat
  sport : Nat
deriving Repr, DecidableEq

/-- `p` travels client → server -/
def isC2S (e : Endpoints) (p : Pkt) : Prop :=
  p.udp = false ∧ p.src = e.cip ∧ p.dst = e.sip ∧ p.sport = e.cport ∧ p.dport = e.sport
/-- `p` travels server → client -/
def isS2C (e : Endpoints) (p : Pkt) : Prop :=
  p.udp = false ∧ p.src = e.sip ∧ p.dst = e.cip ∧ p.sport = e.sport ∧ p.dport = e.cport

instance (e : Endpoints) (p : Pkt) : Decidable (isC2S e p) := by unfold isC2S; infer_instance
instance (e : Endpoints) (p : Pkt) : Decidable (isS2C e p) := by unfold isS2C; infer_instance

/-- client and server endpoint differ (otherwise the two directions cannot be told apart) -/
def Endpoints.Distinct (e : Endpoints) : Prop := ¬ (e.cip = e.sip ∧ e.cport = e.sport)

instance (e : Endpoints) : Decidable e.Distinct := by unfold Endpoints.Distinct; infer_instance

/-- the connection record of the conversation -/
def ConnOf (e : Endpoints) (c : TcpConn) : Prop :=
  c.src = e.cip ∧ c.dst = e.sip ∧ c.sport = e.cport ∧ c.dport = e.sport ∧ c.stream = 0

/-- `lastSeen` update of `getConnection` -/
def touch (h : Half) (ts : Nat) : Half := if h.lastSeen < ts then { h with lastSeen := ts } else h

/-- nothing of the connection is older than the timeout at time `ts` -/
def Fresh (c : TcpConn) (ts : Nat) : Prop :=
  (∀ pg ∈ c.c2s.queue, ¬ (pg.ref.ts + timeout < ts)) ∧ (∀ pg ∈ c.s2c.queue, ¬ (pg.ref.ts + timeout < ts)) ∧
  ¬ (c.c2s.lastSeen + timeout < ts)

theorem tcpFind_c2s (e : Endpoints) (c : TcpConn) (p : Pkt) (hc : ConnOf e c) (hp : isC2S e p) :
    tcpFind p [c] 0 = some (0, false) := by
  obtain ⟨c1, c2, c3, c4, _⟩ := hc
  obtain ⟨_, p1, p2, p3, p4⟩ := hp
  simp [tcpFind, c1, c2, c3, c4, p1, p2, p3, p4]

theorem tcpFind_s2c (e : Endpoints) (c : TcpConn) (p : Pkt) (hc : ConnOf e c) (hd : e.Distinct) (hp : isS2C e p) :
    tcpFind p [c] 0 = some (0, true) := by
  obtain ⟨c1, c2, c3, c4, _⟩ := hc
  obtain ⟨_, p1, p2, p3, p4⟩ := hp
  have : ¬ (e.cip = e.sip ∧ e.sip = e.cip ∧ e.cport = e.sport ∧ e.sport = e.cport) := fun h => hd ⟨h.1, h.2.2.1⟩
  simp [tcpFind, c1, c2, c3, c4, p1, p2, p3, p4, this]

/-- a packet without SYN/FIN/RST of an established connection, client → server -/
theorem tcpPacket_c2s (e : Endpoints) (c : TcpConn) (st : Stream) (ud : List UdpConn) (u : Bool) (p : Pkt)
    (hc : ConnOf e c) (hp : isC2S e p) (hfresh : Fresh c p.ts)
    (hfsm : st.fsm = { state := .established, dir := false })
    (hflags : p.syn = false ∧ p.fin = false ∧ p.rst = false)
    (hopen : c.s2c.closed = false) :
    ∃ u', tcpPacket { streams := #[st], tcp := [c], udp := ud, unmodelled := u } p =
      { streams := #[(feed false (st, touch c.c2s p.ts) p).1],
        tcp := [{ c with c2s := (feed false (st, touch c.c2s p.ts) p).2 }], udp := ud, unmodelled := u' } := by
  obtain ⟨f1, f2, f3⟩ := hflags
  have hstream : c.stream = 0 := hc.2.2.2.2
  unfold tcpPacket
  simp only [tcpFlush_single (assemblerIndex p) p.ts c st u hstream hfresh.1 hfresh.2.1 hfresh.2.2,
    tcpFind_c2s e c p hc hp]
  refine ⟨u || decide (p.payload.length > 1900), ?_⟩
  simp [hstream, Fsm.check, Stream.addPkt, hfsm, f2, f3, feed, touch, hopen]

/-- a packet without SYN/FIN/RST of an established connection, server → client -/
theorem tcpPacket_s2c (e : Endpoints) (c : TcpConn) (st : Stream) (ud : List UdpConn) (u : Bool) (p : Pkt)
    (hc : ConnOf e c) (hd : e.Distinct) (hp : isS2C e p) (hfresh : Fresh c p.ts)
    (hfsm : st.fsm = { state := .established, dir := false })
    (hflags : p.syn = false ∧ p.fin = false ∧ p.rst = false)
    (hopen : c.c2s.closed = false) :
    ∃ u', tcpPacket { streams := #[st], tcp := [c], udp := ud, unmodelled := u } p =
      { streams := #[(feed true (st, touch c.s2c p.ts) p).1],
        tcp := [{ c with s2c := (feed true (st, touch c.s2c p.ts) p).2 }], udp := ud, unmodelled := u' } := by
  obtain ⟨f1, f2, f3⟩ := hflags
  have hstream : c.stream = 0 := hc.2.2.2.2
  unfold tcpPacket
  simp only [tcpFlush_single (assemblerIndex p) p.ts c st u hstream hfresh.1 hfresh.2.1 hfresh.2.2,
    tcpFind_s2c e c p hc hd hp]
  refine ⟨u || decide (p.payload.length > 1900), ?_⟩
  simp [hstream, Fsm.check, Stream.addPkt, hfsm, f2, f3, feed, touch, hopen]

end Pk.Proofs.ImportReasm
