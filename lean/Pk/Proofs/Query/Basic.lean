/-
  Shared helper lemmas for the query proofs: insertion sort is a permutation, `optAll`.
-/
import Pk.Model.Query.Sem

namespace Pk.Query

/-- value of an optional cleaned list of conditions: `none` (impossible) is false -/
def optAll {α : Type} (ev : α → Bool) : Option (List α) → Bool
  | some r => r.all ev
  | none => false

@[simp] theorem optAll_some {α : Type} (ev : α → Bool) (r : List α) : optAll ev (some r) = r.all ev := rfl
@[simp] theorem optAll_none {α : Type} (ev : α → Bool) : optAll ev none = false := rfl

theorem insertBy_perm {α : Type} (lt : α → α → Bool) (x : α) (l : List α) :
    (insertBy lt x l).Perm (x :: l) := by
  induction l with
  | nil => simp [insertBy]
  | cons y ys ih =>
    simp only [insertBy]
    split
    · exact (List.Perm.cons y ih).trans (List.Perm.swap x y ys)
    · exact List.Perm.refl _

theorem isort_perm {α : Type} (lt : α → α → Bool) (l : List α) : (isort lt l).Perm l := by
  induction l with
  | nil => simp [isort]
  | cons x xs ih =>
    have : isort lt (x :: xs) = insertBy lt x (isort lt xs) := rfl
    rw [this]
    exact (insertBy_perm lt x _).trans (List.Perm.cons x ih)

theorem mem_isort {α : Type} (lt : α → α → Bool) (l : List α) (x : α) : x ∈ isort lt l ↔ x ∈ l :=
  (isort_perm lt l).mem_iff

theorem all_isort {α : Type} (lt : α → α → Bool) (l : List α) (p : α → Bool) :
    (isort lt l).all p = l.all p := by
  apply Bool.eq_iff_iff.mpr
  simp only [List.all_eq_true]
  constructor
  · intro h x hx; exact h x ((mem_isort lt l x).mpr hx)
  · intro h x hx; exact h x ((mem_isort lt l x).mp hx)

theorem length_isort {α : Type} (lt : α → α → Bool) (l : List α) : (isort lt l).length = l.length :=
  (isort_perm lt l).length_eq

/-! ### the shape invariant of parser-produced conditions

`Cond.OK` is what `translate` produces for the variable-free fragment *and* what every operation
(`Conj.clean`, `Cond.invert`, AND/OR/THEN) preserves:
  * flag conditions only speak about the two protocol bits and their value is a sub-mask of the mask;
  * host conditions have one stream operand and a 4/16-byte constant, or two stream operands and no
    constant; masks have their family's length;
  * payload chains are non-empty.
-/

/-- the forbidden value is a sub-mask of the mask (otherwise `v &&& mask = value` of cleanFlagConditions
    and `(x ^^^ value) &&& mask ≠ 0` disagree) -/
def FlagC.OK (f : FlagC) : Prop := f.mask < 4 ∧ f.value &&& f.mask = f.value

def HostC.OK (h : HostC) : Prop :=
  (h.srcs.length = 1 ∧ (h.host.length = 4 ∨ h.host.length = 16) ∨ h.srcs.length = 2 ∧ h.host = []) ∧
    h.m4.length = 4 ∧ h.m6.length = 16

def DataC.OK (d : DataC) : Prop := d.els ≠ []

def Cond.OK : Cond → Prop
  | .flag f => f.OK
  | .host h => h.OK
  | .data d => d.OK
  | _ => True

def Conj.OK (c : Conj) : Prop := ∀ x ∈ c, x.OK
def CSet.OK (cs : CSet) : Prop := ∀ c ∈ cs, Conj.OK c

end Pk.Query
