/-
  Soundness of the translation of a single variable-free term:
  `evalSet (trTerm ref t) ρ = evalTerm ref t ρ` together with the shape invariant.
-/
import Pk.Proofs.Query.Basic

namespace Pk.Query

/-! ### the fragment -/

def NumPart.isNum : NumPart → Bool
  | .num _ _ => true
  | _ => false

def TimePart.noVar : TimePart → Bool
  | .var _ _ => false
  | _ => true

def Term.Frag (t : Term) : Prop :=
  (t.conv = "" ∨ t.key = "data" ∨ t.key = "cdata" ∨ t.key = "sdata") ∧
    match t.value with
    | .tags names => names ≠ []
    | .protos l => l ≠ [] ∧ ∀ p ∈ l, ∃ tok, p = .token tok
    | .hosts l => l ≠ [] ∧ (t.key = "chost" ∨ t.key = "shost" ∨ t.key = "host") ∧
        ∀ h ∈ l, h.var = none ∧ ((normHost h.host).length = 4 ∨ (normHost h.host).length = 16)
    | .nums l => l ≠ [] ∧ t.key ∈ ["id","cport","sport","port","cbytes","sbytes","bytes"] ∧
        ∀ e ∈ l, (e.length = 1 ∨ e.length = 2) ∧ ∀ r ∈ e, ∀ p ∈ r, p.isNum
    | .times l => l ≠ [] ∧ t.key ∈ ["ftime","ltime","time"] ∧
        ∀ e ∈ l, (e.length = 1 ∨ e.length = 2) ∧ ∀ r ∈ e, ∀ p ∈ r, p.noVar
    | .data _ _ => t.key ∈ ["data","cdata","sdata"]
    | .other => False

namespace TermSound

/-! ### generic helpers -/

/-- pointwise relation of two lists (core has no `List.Forall₂`) -/
inductive Rel2 {α β : Type} (R : α → β → Prop) : List α → List β → Prop
  | nil : Rel2 R [] []
  | cons {x y xs ys} : R x y → Rel2 R xs ys → Rel2 R (x :: xs) (y :: ys)

/-- success of `mapOutcome` is elementwise success -/
theorem mapOutcome_ok {α β : Type} (f : α → Outcome β) :
    ∀ (l : List α) (r : List β), mapOutcome f l = .ok r → Rel2 (fun x y => f x = .ok y) l r
  | [], r, h => by
    simp only [mapOutcome, Outcome.ok.injEq] at h
    subst h; exact .nil
  | x :: xs, r, h => by
    simp only [mapOutcome] at h
    split at h
    · rename_i y hy
      split at h
      · rename_i ys hys
        simp only [Outcome.ok.injEq] at h
        subst h
        exact .cons hy (mapOutcome_ok f xs ys hys)
      all_goals cases h
    all_goals cases h

theorem Rel2.mem_right {α β : Type} {R : α → β → Prop} {l : List α} {r : List β} (h : Rel2 R l r) :
    ∀ y ∈ r, ∃ x ∈ l, R x y := by
  induction h with
  | nil => intro y hy; cases hy
  | cons hxy _ ih =>
    intro y' hy'
    rcases List.mem_cons.mp hy' with rfl | hy'
    · exact ⟨_, List.mem_cons_self, hxy⟩
    · obtain ⟨x', hx', hr⟩ := ih y' hy'
      exact ⟨x', List.mem_cons_of_mem _ hx', hr⟩

theorem Rel2.ne_nil {α β : Type} {R : α → β → Prop} {l : List α} {r : List β} (h : Rel2 R l r)
    (hl : l ≠ []) : r ≠ [] := by
  cases h with
  | nil => exact absurd rfl hl
  | cons _ _ => simp

theorem Rel2.any_eq {α β : Type} {R : α → β → Prop} {l : List α} {r : List β} (h : Rel2 R l r)
    (P : β → Bool) (Q : α → Bool) (hpq : ∀ x ∈ l, ∀ y, R x y → P y = Q x) : r.any P = l.any Q := by
  induction h with
  | nil => rfl
  | cons hxy _ ih =>
    simp only [List.any_cons]
    rw [hpq _ List.mem_cons_self _ hxy, ih (fun x hx y hr => hpq x (List.mem_cons_of_mem _ hx) y hr)]

theorem any_flatten {α : Type} (P : α → Bool) (ll : List (List α)) :
    ll.flatten.any P = ll.any (fun l => l.any P) := by
  induction ll with
  | nil => rfl
  | cons l ls ih => simp [List.any_append, ih]

theorem liftSet_ok {o : Outcome CSet} {g : GSet} (h : liftSet o = .ok g) :
    ∃ cs, o = .ok cs ∧ g = nilIfEmpty cs := by
  cases o <;> simp [liftSet] at h
  exact ⟨_, rfl, h.symm⟩

theorem nilIfEmpty_ne {cs : CSet} (h : cs ≠ []) : nilIfEmpty cs = some cs := by
  simp [nilIfEmpty, h]

/-! ### tags -/

theorem trTags_sound (t : Term) (names : List String) (ρ : Env) (hne : names ≠ []) :
    trTags t names ≠ [] ∧ CSet.OK (trTags t names) ∧
      evalSet (trTags t names) ρ = evalTagTerm t names ρ := by
  refine ⟨?_, ?_, ?_⟩
  · simpa [trTags] using hne
  · intro c hc x hx
    simp only [trTags, List.mem_map] at hc
    obtain ⟨v, _, rfl⟩ := hc
    simp only [List.mem_singleton] at hx
    subst hx; trivial
  · simp only [trTags, evalSet, evalTagTerm, List.any_map]
    congr 1
    funext v
    simp only [Function.comp, evalConj, List.all_cons, List.all_nil, Bool.and_true, evalCond, evalTag,
      tagBit, accMatching, accUncertainMatching, accFailing, accUncertainFailing]
    cases (ρ t.sq).tagMatch (t.key ++ "/" ++ v.trimAscii.copy) <;>
      cases (ρ t.sq).tagUncertain (t.key ++ "/" ++ v.trimAscii.copy) <;> decide

/-! ### data -/

theorem dataFlags_ne (key : String) : dataFlags key ≠ [] := by
  unfold dataFlags; split
  · simp
  · split <;> simp

theorem trData_sound (t : Term) (content : String) (vars : List DataVar) (ρ : Env) :
    trData t content vars ≠ [] ∧ CSet.OK (trData t content vars) ∧
      evalSet (trData t content vars) ρ =
        (dataFlags t.key).any (fun f =>
          ((ρ t.sq).step { sq := t.sq, regex := content, vars := vars, flags := f, conv := t.conv } 0).isSome) := by
  refine ⟨?_, ?_, ?_⟩
  · simpa [trData] using dataFlags_ne t.key
  · intro c hc x hx
    simp only [trData, List.mem_map] at hc
    obtain ⟨v, _, rfl⟩ := hc
    simp only [List.mem_singleton] at hx
    subst hx
    simp [Cond.OK, DataC.OK]
  · simp only [trData, evalSet, List.any_map]
    congr 1
    funext f
    simp [Function.comp, evalConj, evalCond, evalData, chain]

/-! ### numbers -/

theorem flatten_ne_nil {α : Type} {ll : List (List α)} (h : ll ≠ []) (hne : ∀ l ∈ ll, l ≠ []) :
    ll.flatten ≠ [] := by
  cases ll with
  | nil => exact absurd rfl h
  | cons l ls =>
    have := hne l List.mem_cons_self
    cases l with
    | nil => exact absurd rfl this
    | cons a as => simp

theorem numParts_isNum (ρ : Env) : ∀ (r : List NumPart) (nc : NumC), (∀ p ∈ r, p.isNum) →
    numParts r nc = .ok { sum := nc.sum, n := nc.n + numPartsVal ρ r }
  | [], nc, _ => by simp [numParts, numPartsVal]
  | .num ops n :: rest, nc, h => by
    simp only [numParts]
    rw [numParts_isNum ρ rest _ (fun p hp => h p (List.mem_cons_of_mem _ hp))]
    simp only [numPartsVal, List.map_cons, List.sum_cons, numPartVal, Outcome.ok.injEq, NumC.mk.injEq, true_and]
    omega
  | .var ops v :: rest, nc, h => by
    have := h _ List.mem_cons_self
    simp [NumPart.isNum] at this

theorem numOwn_nil (t : Term) (ty : NumType) (n : Int) :
    numOwn t ty { sum := [], n := n } = .ok { sum := [{ sq := t.sq, factor := -1, ty := ty }], n := n } := by
  simp [numOwn, runOwnLoop, ownLoop]

theorem numEntryFor_sound (t : Term) (ρ : Env) (ty : NumType) (lo hi : Int) (e0 e1 : Bool) (conj : Conj)
    (h : numEntryFor t ({ sum := [], n := lo }, { sum := [], n := hi }, e0, e1) ty = .ok conj) :
    Conj.OK conj ∧ evalConj conj ρ =
      inRange (numVar (ρ t.sq) ty) (if e0 then none else some lo) (if e1 then none else some hi) := by
  simp only [numEntryFor, numOwn_nil, Outcome.ok.injEq] at h
  subst h
  constructor
  · intro x hx
    cases e0 <;> cases e1 <;> simp at hx <;> (try rcases hx with rfl | rfl) <;> (try subst hx) <;> trivial
  · cases e0 <;> cases e1 <;>
      simp [evalConj, evalCond, evalNum, NumC.neg, numSumVal, inRange] <;>
      (first | omega | (apply Bool.eq_iff_iff.mpr; simp; omega))

theorem numBounds_sound (t : Term) (ρ : Env) (ty : NumType) (e : List (List NumPart))
    (hlen : e.length = 1 ∨ e.length = 2) (hnum : ∀ r ∈ e, ∀ p ∈ r, p.isNum)
    (b : NumC × NumC × Bool × Bool) (h : numBounds e = .ok b) :
    ∃ lo hi e0 e1, b = ({ sum := [], n := lo }, { sum := [], n := hi }, e0, e1) ∧
      evalNumEntry t ρ ty e =
        inRange (numVar (ρ t.sq) ty) (if e0 then none else some lo) (if e1 then none else some hi) := by
  match e, hlen, hnum, h with
  | [r], _, hnum, h =>
    simp only [numBounds, numParts_isNum ρ r _ (hnum r List.mem_cons_self), Outcome.ok.injEq] at h
    subst h
    refine ⟨_, _, _, _, rfl, ?_⟩
    simp only [evalNumEntry, optVal]
    cases r.isEmpty <;> simp
  | [r0, r1], _, hnum, h =>
    simp only [numBounds, numParts_isNum ρ r0 _ (hnum r0 List.mem_cons_self),
      numParts_isNum ρ r1 _ (hnum r1 (List.mem_cons_of_mem _ List.mem_cons_self)), Outcome.ok.injEq] at h
    subst h
    refine ⟨_, _, _, _, rfl, ?_⟩
    simp only [evalNumEntry, optVal]
    cases r0.isEmpty <;> cases r1.isEmpty <;> simp

theorem numKeyTypes_ne (key : String) : numKeyTypes key ≠ [] := by
  unfold numKeyTypes
  repeat (first | split | simp)

theorem trNumEntry_sound (t : Term) (ρ : Env) (e : List (List NumPart))
    (hlen : e.length = 1 ∨ e.length = 2) (hnum : ∀ r ∈ e, ∀ p ∈ r, p.isNum)
    (cs : CSet) (h : trNumEntry t e = .ok cs) :
    cs ≠ [] ∧ CSet.OK cs ∧
      evalSet cs ρ = (numKeyTypes t.key).any (fun ty => evalNumEntry t ρ ty e) := by
  unfold trNumEntry at h
  split at h
  · rename_i b hb
    have hrel := mapOutcome_ok _ _ _ h
    refine ⟨hrel.ne_nil (numKeyTypes_ne _), ?_, ?_⟩
    · intro c hc
      obtain ⟨ty, _, hty⟩ := hrel.mem_right c hc
      obtain ⟨lo, hi, e0, e1, rfl, _⟩ := numBounds_sound t ρ ty e hlen hnum b hb
      exact (numEntryFor_sound t ρ ty lo hi e0 e1 c hty).1
    · unfold evalSet
      apply hrel.any_eq
      intro ty _ c hty
      obtain ⟨lo, hi, e0, e1, rfl, hev⟩ := numBounds_sound t ρ ty e hlen hnum b hb
      rw [hev]
      exact (numEntryFor_sound t ρ ty lo hi e0 e1 c hty).2
  all_goals cases h

theorem trNums_sound (t : Term) (l : List (List (List NumPart))) (ρ : Env) (hne : l ≠ [])
    (hf : ∀ e ∈ l, (e.length = 1 ∨ e.length = 2) ∧ ∀ r ∈ e, ∀ p ∈ r, p.isNum)
    (cs : CSet) (h : trNums t l = .ok cs) :
    cs ≠ [] ∧ CSet.OK cs ∧
      evalSet cs ρ = l.any (fun ranges => (numKeyTypes t.key).any (fun ty => evalNumEntry t ρ ty ranges)) := by
  unfold trNums at h
  split at h
  · rename_i ll hll
    simp only [Outcome.ok.injEq] at h
    subst h
    have hrel := mapOutcome_ok _ _ _ hll
    refine ⟨?_, ?_, ?_⟩
    · apply flatten_ne_nil (hrel.ne_nil hne)
      intro c hc
      obtain ⟨e, he, hce⟩ := hrel.mem_right c hc
      exact (trNumEntry_sound t ρ e (hf e he).1 (hf e he).2 c hce).1
    · intro c hc
      obtain ⟨c', hc', hcc'⟩ := List.mem_flatten.mp hc
      obtain ⟨e, he, hce⟩ := hrel.mem_right c' hc'
      exact (trNumEntry_sound t ρ e (hf e he).1 (hf e he).2 c' hce).2.1 c hcc'
    · unfold evalSet
      rw [any_flatten]
      apply hrel.any_eq
      intro e he c hce
      exact (trNumEntry_sound t ρ e (hf e he).1 (hf e he).2 c hce).2.2
  all_goals cases h

/-! ### times -/

theorem timeParts_noVar (ref : Int) (ρ : Env) : ∀ (r : List TimePart) (tc : TimeC), (∀ p ∈ r, p.noVar) →
    ∃ rtf, timeParts ref r tc = .ok { sum := tc.sum, dur := tc.dur + timePartsVal ref ρ r, rtf := rtf }
  | [], tc, _ => ⟨tc.rtf, by simp [timeParts, timePartsVal]⟩
  | .dur ops ns :: rest, tc, h => by
    simp only [timeParts]
    obtain ⟨rtf, hr⟩ := timeParts_noVar ref ρ rest { tc with dur := tc.dur + opsFactor ops * ns }
      (fun p hp => h p (List.mem_cons_of_mem _ hp))
    refine ⟨rtf, ?_⟩
    rw [hr]
    simp only [timePartsVal, List.map_cons, List.sum_cons, timePartVal, Outcome.ok.injEq, TimeC.mk.injEq,
      true_and, and_true]
    omega
  | .abs ops c :: rest, tc, h => by
    simp only [timeParts]
    obtain ⟨rtf, hr⟩ := timeParts_noVar ref ρ rest
      { tc with dur := tc.dur + opsFactor ops * (civilNs c - ref), rtf := tc.rtf - opsFactor ops }
      (fun p hp => h p (List.mem_cons_of_mem _ hp))
    refine ⟨rtf, ?_⟩
    rw [hr]
    simp only [timePartsVal, List.map_cons, List.sum_cons, timePartVal, Outcome.ok.injEq, TimeC.mk.injEq,
      true_and, and_true]
    omega
  | .var ops v :: rest, tc, h => by
    have := h _ List.mem_cons_self
    simp [TimePart.noVar] at this

/-- the own-variable summand appended by `timeOwn` to an empty sum -/
def ownTime (t : Term) (tci : Nat) : TimeSummand :=
  if t.key = "ftime" then { sq := t.sq, f := -1, l := 0 }
  else if t.key = "ltime" then { sq := t.sq, f := 0, l := -1 }
  else { sq := t.sq, f := -(tci : Int), l := -(1 - (tci : Int)) }

theorem timeOwn_nil (t : Term) (tci : Nat) (htci : tci = 0 ∨ tci = 1) (dur rtf : Int) :
    timeOwn t tci { sum := [], dur := dur, rtf := rtf } =
      .ok { sum := [ownTime t tci], dur := dur, rtf := rtf } := by
  rcases htci with rfl | rfl <;>
    (simp only [timeOwn, runOwnLoop, ownLoop, ownTime]
     by_cases h1 : t.key = "ftime"
     · simp [h1]
     · by_cases h2 : t.key = "ltime" <;> simp [h1, h2])

theorem trTimeEntry_sound (t : Term) (ref : Int) (ρ : Env) (e : List (List TimePart))
    (hlen : e.length = 1 ∨ e.length = 2) (hnv : ∀ r ∈ e, ∀ p ∈ r, p.noVar)
    (conj : Conj) (h : trTimeEntry t ref e = .ok conj) :
    Conj.OK conj ∧ evalConj conj ρ = evalTimeEntry t ref ρ e := by
  have key : ∀ (lo hi : Int) (e0 e1 : Bool) (rl rh : Int),
      Conj.OK ((if e0 then [] else [Cond.time (TimeC.neg { sum := [ownTime t 0], dur := lo, rtf := rl })]) ++
        (if e1 then [] else [Cond.time { sum := [ownTime t 1], dur := hi, rtf := rh }])) ∧
      evalConj ((if e0 then [] else [Cond.time (TimeC.neg { sum := [ownTime t 0], dur := lo, rtf := rl })]) ++
        (if e1 then [] else [Cond.time { sum := [ownTime t 1], dur := hi, rtf := rh }])) ρ =
      (if t.key = "ftime" then inRange (ρ t.sq).ftime (if e0 then none else some lo) (if e1 then none else some hi)
       else if t.key = "ltime" then inRange (ρ t.sq).ltime (if e0 then none else some lo) (if e1 then none else some hi)
       else inRange (ρ t.sq).ltime (if e0 then none else some lo) none &&
            inRange (ρ t.sq).ftime none (if e1 then none else some hi)) := by
    intro lo hi e0 e1 rl rh
    constructor
    · intro x hx
      cases e0 <;> cases e1 <;> simp at hx <;> (try rcases hx with rfl | rfl) <;> (try subst hx) <;> trivial
    · by_cases h1 : t.key = "ftime"
      · cases e0 <;> cases e1 <;>
          simp [h1, ownTime, evalConj, evalCond, evalTime, TimeC.neg, timeSumVal, inRange] <;>
          (first | omega | (apply Bool.eq_iff_iff.mpr; simp; omega))
      · by_cases h2 : t.key = "ltime"
        · cases e0 <;> cases e1 <;>
            simp [h2, ownTime, evalConj, evalCond, evalTime, TimeC.neg, timeSumVal, inRange] <;>
            (first | omega | (apply Bool.eq_iff_iff.mpr; simp; omega))
        · cases e0 <;> cases e1 <;>
            simp [h1, h2, ownTime, evalConj, evalCond, evalTime, TimeC.neg, timeSumVal, inRange] <;>
            (first | omega | (apply Bool.eq_iff_iff.mpr; simp; omega))
  match e, hlen, hnv, h with
  | [r], _, hnv, h =>
    obtain ⟨rtf, hr⟩ := timeParts_noVar ref ρ r { sum := [], dur := 0, rtf := 0 } (hnv r List.mem_cons_self)
    simp only [trTimeEntry, timeBounds, hr, timeOwn_nil t 0 (Or.inl rfl), timeOwn_nil t 1 (Or.inr rfl),
      Outcome.ok.injEq] at h
    subst h
    refine ⟨(key _ _ _ _ _ _).1, ?_⟩
    rw [(key _ _ _ _ _ _).2]
    simp only [evalTimeEntry, optVal]
    cases r.isEmpty <;> simp
  | [r0, r1], _, hnv, h =>
    obtain ⟨rtf0, hr0⟩ := timeParts_noVar ref ρ r0 { sum := [], dur := 0, rtf := 0 } (hnv r0 List.mem_cons_self)
    obtain ⟨rtf1, hr1⟩ := timeParts_noVar ref ρ r1 { sum := [], dur := 0, rtf := 0 }
      (hnv r1 (List.mem_cons_of_mem _ List.mem_cons_self))
    simp only [trTimeEntry, timeBounds, hr0, hr1, timeOwn_nil t 0 (Or.inl rfl), timeOwn_nil t 1 (Or.inr rfl),
      Outcome.ok.injEq] at h
    subst h
    refine ⟨(key _ _ _ _ _ _).1, ?_⟩
    rw [(key _ _ _ _ _ _).2]
    simp only [evalTimeEntry, optVal]
    cases r0.isEmpty <;> cases r1.isEmpty <;> simp

theorem trTimes_sound (t : Term) (ref : Int) (l : List (List (List TimePart))) (ρ : Env) (hne : l ≠ [])
    (hf : ∀ e ∈ l, (e.length = 1 ∨ e.length = 2) ∧ ∀ r ∈ e, ∀ p ∈ r, p.noVar)
    (cs : CSet) (h : trTimes t ref l = .ok cs) :
    cs ≠ [] ∧ CSet.OK cs ∧ evalSet cs ρ = l.any (evalTimeEntry t ref ρ) := by
  have hrel := mapOutcome_ok _ _ _ h
  refine ⟨hrel.ne_nil hne, ?_, ?_⟩
  · intro c hc
    obtain ⟨e, he, hce⟩ := hrel.mem_right c hc
    exact (trTimeEntry_sound t ref ρ e (hf e he).1 (hf e he).2 c hce).1
  · unfold evalSet
    apply hrel.any_eq
    intro e he c hce
    exact (trTimeEntry_sound t ref ρ e (hf e he).1 (hf e he).2 c hce).2

/-! ### protocols -/

theorem and_small (x b n : Nat) (hb : b < 2 ^ n) : x &&& b = (x % 2 ^ n) &&& b := by
  have h1 : x &&& b < 2 ^ n := Nat.and_lt_two_pow x hb
  have h2 : (x &&& b) % 2 ^ n = (x % 2 ^ n) &&& (b % 2 ^ n) := Nat.and_mod_two_pow
  rw [Nat.mod_eq_of_lt h1, Nat.mod_eq_of_lt hb] at h2
  exact h2

theorem flag_fin : ∀ r f : Fin 4,
    ((flagInvertValues f.val 3).all (fun v => ((r.val ^^^ v) &&& 3) != 0)) = decide (r.val &&& 3 = f.val) := by
  decide

theorem flag_vals : ∀ f : Fin 4, ∀ v ∈ flagInvertValues f.val 3, v < 4 ∧ v &&& 3 = v := by decide

theorem flag_mod (x v : Nat) : (x ^^^ v) &&& 3 = ((x % 4) ^^^ v) &&& 3 := by
  rw [and_small (x ^^^ v) 3 2 (by decide), Nat.xor_mod_two_pow, and_small ((x % 4) ^^^ v) 3 2 (by decide),
    Nat.xor_mod_two_pow]
  have : x % 2 ^ 2 = x % 4 := rfl
  rw [this, Nat.mod_mod]

theorem all_congr' {α : Type} {l : List α} {p q : α → Bool} (h : ∀ x ∈ l, p x = q x) : l.all p = l.all q := by
  induction l with
  | nil => rfl
  | cons a as ih =>
    simp only [List.all_cons]
    rw [h a List.mem_cons_self, ih (fun x hx => h x (List.mem_cons_of_mem _ hx))]

theorem protoValue_lt {tok : String} {f : Nat} (h : protoValue tok = some f) : f < 4 := by
  unfold protoValue at h
  split at h <;> simp at h <;> omega

theorem proto_entry (sq : String) (f : Nat) (hf : f < 4) (ρ : Env) :
    CSet.OK (Cond.invert (.flag { sqs := [sq], value := f, mask := 3 })) ∧
      evalSet (Cond.invert (.flag { sqs := [sq], value := f, mask := 3 })) ρ =
        decide ((ρ sq).flags &&& 3 = f) := by
  constructor
  · intro c hc x hx
    simp only [Cond.invert, List.mem_singleton] at hc
    subst hc
    simp only [List.mem_map] at hx
    obtain ⟨v, hv, rfl⟩ := hx
    have := flag_vals ⟨f, hf⟩ v hv
    exact ⟨show (3 : Nat) < 4 by decide, this.2⟩
  · simp only [Cond.invert, evalSet, List.any_cons, List.any_nil, Bool.or_false, evalConj, List.all_map]
    have h1 : (flagInvertValues f 3).all
          ((fun x => evalCond x ρ) ∘ fun v => Cond.flag { sqs := [sq], value := v, mask := 3 }) =
        (flagInvertValues f 3).all (fun v => ((((ρ sq).flags % 4) ^^^ v) &&& 3) != 0) := by
      apply all_congr'
      intro v hv
      simp only [Function.comp, evalCond, evalFlag, xorFlags, List.foldl_cons, List.foldl_nil, Nat.zero_xor]
      rw [flag_mod]
    rw [h1]
    have hr : (ρ sq).flags % 4 < 4 := Nat.mod_lt _ (by decide)
    have := flag_fin ⟨(ρ sq).flags % 4, hr⟩ ⟨f, hf⟩
    simp only at this
    rw [this, and_small (ρ sq).flags 3 2 (by decide)]

theorem trProtos_sound (t : Term) (ρ : Env) : ∀ (l : List ProtoEntry) (cs : CSet),
    (∀ p ∈ l, ∃ tok, p = .token tok) → trProtos t l = .ok cs →
    (l ≠ [] → cs ≠ []) ∧ CSet.OK cs ∧ evalSet cs ρ = l.any (evalProto t ρ)
  | [], cs, _, h => by
    simp only [trProtos, Outcome.ok.injEq] at h
    subst h
    exact ⟨fun h => absurd rfl h, fun c hc => (by cases hc), rfl⟩
  | .var v :: rest, cs, hf, _ => by
    obtain ⟨tok, h⟩ := hf _ List.mem_cons_self
    cases h
  | .token tok :: rest, cs, hf, h => by
    simp only [trProtos] at h
    split at h
    · cases h
    · rename_i f hpv
      split at h
      · rename_i tl htl
        simp only [Outcome.ok.injEq] at h
        subst h
        obtain ⟨_, ih2, ih3⟩ := trProtos_sound t ρ rest tl (fun p hp => hf p (List.mem_cons_of_mem _ hp)) htl
        obtain ⟨e1, e2⟩ := proto_entry t.sq f (protoValue_lt hpv) ρ
        refine ⟨fun _ => by simp [Cond.invert], ?_, ?_⟩
        · intro c hc
          rcases List.mem_append.mp hc with hc | hc
          · exact e1 c hc
          · exact ih2 c hc
        · unfold evalSet at e2 ih3 ⊢
          rw [List.any_append, e2, ih3, List.any_cons]
          simp only [evalProto, hpv]
      · rename_i o hne
        exact (hne cs h).elim

/-! ### hosts -/

theorem packBytes_length : ∀ (n : Nat) (bs : List Bool), (packBytes n bs).length = n
  | 0, _ => rfl
  | n + 1, bs => by simp [packBytes, packBytes_length n]

theorem hostMasks_len {ms : Option (List Int)} {m4 m6 : List Nat} (h : hostMasks ms = .ok (m4, m6)) :
    m4.length = 4 ∧ m6.length = 16 := by
  unfold hostMasks at h
  split at h
  · simp only [Outcome.ok.injEq, Prod.mk.injEq] at h
    obtain ⟨rfl, rfl⟩ := h
    simp
  · split at h
    · simp only [Outcome.ok.injEq, Prod.mk.injEq] at h
      obtain ⟨rfl, rfl⟩ := h
      simp [packBytes_length]
    all_goals cases h

theorem xorBytes_comm : ∀ a b : List Nat, xorBytes a b = xorBytes b a
  | [], [] => rfl
  | [], _ :: _ => rfl
  | _ :: _, [] => rfl
  | a :: as, b :: bs => by simp [xorBytes, Nat.xor_comm, xorBytes_comm as bs]

theorem hostTypes_ne (key : String) : hostTypes key ≠ [] := by
  unfold hostTypes
  repeat (first | split | simp)

theorem trHostEntry_sound (t : Term) (server : Bool) (ρ : Env) (e : HostEntry) (hv : e.var = none)
    (hlen : (normHost e.host).length = 4 ∨ (normHost e.host).length = 16)
    (conj : Conj) (h : trHostEntry t server e = .ok conj) :
    Conj.OK conj ∧ evalConj conj ρ = evalHostEntry t server ρ e := by
  unfold trHostEntry at h
  split at h
  · rename_i m4 m6 hm
    rw [hv] at h
    simp only [Outcome.ok.injEq] at h
    subst h
    have hml := hostMasks_len hm
    constructor
    · intro x hx
      simp only [List.mem_singleton] at hx
      subst hx
      exact ⟨Or.inl ⟨rfl, hlen⟩, hml⟩
    · have hne : normHost e.host ≠ [] := by
        intro h0; rw [h0] at hlen; simp at hlen
      simp only [evalConj, List.all_cons, List.all_nil, Bool.and_true, evalCond, evalHost, hostOperands, hne,
        if_false, List.map_cons, List.map_nil, List.singleton_append, List.foldl_cons, List.foldl_nil,
        evalHostEntry, hm, hv, maskedEq]
      by_cases hl : (srcHost ρ { sq := t.sq, server := server }).length = (normHost e.host).length
      · simp only [hl, decide_true, if_true, true_and, xorBytes_comm (normHost e.host)]
        cases (List.all _ _) <;> rfl
      · simp [hl]
  all_goals cases h

theorem trHosts_sound (t : Term) (l : List HostEntry) (ρ : Env) (hne : l ≠ [])
    (hf : ∀ h ∈ l, h.var = none ∧ ((normHost h.host).length = 4 ∨ (normHost h.host).length = 16))
    (cs : CSet) (h : trHosts t l = .ok cs) :
    cs ≠ [] ∧ CSet.OK cs ∧
      evalSet cs ρ = (hostTypes t.key).any (fun server => l.any (evalHostEntry t server ρ)) := by
  unfold trHosts at h
  split at h
  · split at h
    · rename_i ll hll
      simp only [Outcome.ok.injEq] at h
      subst h
      have hrel := mapOutcome_ok _ _ _ hll
      refine ⟨?_, ?_, ?_⟩
      · apply flatten_ne_nil (hrel.ne_nil (hostTypes_ne _))
        intro c hc
        obtain ⟨server, _, hs⟩ := hrel.mem_right c hc
        exact (mapOutcome_ok _ _ _ hs).ne_nil hne
      · intro c hc
        obtain ⟨c', hc', hcc'⟩ := List.mem_flatten.mp hc
        obtain ⟨server, _, hs⟩ := hrel.mem_right c' hc'
        obtain ⟨e, he, hce⟩ := (mapOutcome_ok _ _ _ hs).mem_right c hcc'
        exact (trHostEntry_sound t server ρ e (hf e he).1 (hf e he).2 c hce).1
      · unfold evalSet
        rw [any_flatten]
        apply hrel.any_eq
        intro server _ c hs
        apply (mapOutcome_ok _ _ _ hs).any_eq
        intro e he conj hce
        exact (trHostEntry_sound t server ρ e (hf e he).1 (hf e he).2 conj hce).2
    all_goals cases h
  all_goals cases h

end TermSound

open TermSound in
/-- translation of a single variable-free term: a non-nil, non-empty, well-shaped condition set with
    the meaning the surface semantics gives the term -/
theorem trTerm_sound (ref : Int) (t : Term) (g : GSet) (ρ : Env) (hf : t.Frag) (hρ : Env.WF ρ)
    (h : trTerm ref t = .ok g) :
    ∃ cs, g = some cs ∧ cs ≠ [] ∧ CSet.OK cs ∧ evalSet cs ρ = evalTerm ref t ρ := by
  have _ := hρ
  obtain ⟨hconv, hv⟩ := hf
  unfold trTerm at h
  have hc : ¬ (t.conv ≠ "" ∧ t.key ≠ "data" ∧ t.key ≠ "cdata" ∧ t.key ≠ "sdata") := by
    intro ⟨h0, h1, h2, h3⟩
    rcases hconv with h | h | h | h
    · exact h0 h
    · exact h1 h
    · exact h2 h
    · exact h3 h
  rw [if_neg hc] at h
  unfold evalTerm
  split at h
  · rename_i names hval
    simp only [hval] at hv ⊢
    obtain ⟨h1, h2, h3⟩ := trTags_sound t names ρ hv
    simp only [Outcome.ok.injEq] at h
    exact ⟨_, by rw [← h, nilIfEmpty_ne h1], h1, h2, h3⟩
  · rename_i l hval
    simp only [hval] at hv ⊢
    obtain ⟨cs, hcs, rfl⟩ := liftSet_ok h
    obtain ⟨h1, h2, h3⟩ := trProtos_sound t ρ l cs hv.2 hcs
    exact ⟨cs, nilIfEmpty_ne (h1 hv.1), h1 hv.1, h2, h3⟩
  · rename_i l hval
    simp only [hval] at hv ⊢
    obtain ⟨cs, hcs, rfl⟩ := liftSet_ok h
    obtain ⟨h1, h2, h3⟩ := trHosts_sound t l ρ hv.1 hv.2.2 cs hcs
    exact ⟨cs, nilIfEmpty_ne h1, h1, h2, h3⟩
  · rename_i l hval
    simp only [hval] at hv ⊢
    obtain ⟨cs, hcs, rfl⟩ := liftSet_ok h
    obtain ⟨h1, h2, h3⟩ := trNums_sound t l ρ hv.1 hv.2.2 cs hcs
    exact ⟨cs, nilIfEmpty_ne h1, h1, h2, h3⟩
  · rename_i l hval
    simp only [hval] at hv ⊢
    obtain ⟨cs, hcs, rfl⟩ := liftSet_ok h
    obtain ⟨h1, h2, h3⟩ := trTimes_sound t ref l ρ hv.1 hv.2.2 cs hcs
    exact ⟨cs, nilIfEmpty_ne h1, h1, h2, h3⟩
  · rename_i content vars hval
    simp only [hval] at hv ⊢
    obtain ⟨h1, h2, h3⟩ := trData_sound t content vars ρ
    simp only [Outcome.ok.injEq] at h
    exact ⟨_, by rw [← h, nilIfEmpty_ne h1], h1, h2, h3⟩
  · rename_i hval
    simp only [hval] at hv


/-! ### C14: the own-variable loop terminates

`sc - i + 1` strictly decreases in every iteration (a non-removing step advances `i`, a removing
step lowers `sc`), so `len + 2` units of fuel suffice for any input list — no hypothesis on the
summands (distinct keys, non-zero factors) is needed. -/

theorem TermSound.ownLoop_fuel {σ : Type} (isOwn : σ → Bool) (dec : σ → σ) (isZero : σ → Bool) (fresh : σ) :
    ∀ (fuel i : Nat) (sc : Int) (l : List σ), sc - (i : Int) + 1 < (fuel : Int) → 0 < fuel →
      ∃ r, ownLoop isOwn dec isZero fresh fuel i sc l = some r := by
  intro fuel
  induction fuel with
  | zero => intro i sc l _ h; exact absurd h (Nat.lt_irrefl 0)
  | succ fuel ih =>
    intro i sc l h _
    unfold ownLoop
    by_cases hgt : (i : Int) > sc
    · exact ⟨l, by simp [hgt]⟩
    · simp only [hgt, if_false]
      split
      · exact ⟨_, rfl⟩
      · rename_i s _
        have hf : 0 < fuel := by omega
        split <;> split <;> (apply ih _ _ _ _ hf; omega)

theorem ownLoop_terminates {σ : Type} (isOwn : σ → Bool) (dec : σ → σ) (isZero : σ → Bool) (fresh : σ)
    (l : List σ) : ∃ r, runOwnLoop isOwn dec isZero fresh l = .ok r := by
  obtain ⟨r, hr⟩ := TermSound.ownLoop_fuel isOwn dec isZero fresh (2 * l.length + 3) 0 l.length l
    (by omega) (by omega)
  exact ⟨r, by simp [runOwnLoop, hr]⟩

/-- number instance -/
theorem numOwn_terminates (t : Term) (ty : NumType) (nc : NumC) : ∃ r, numOwn t ty nc = .ok r := by
  unfold numOwn
  obtain ⟨r, hr⟩ := ownLoop_terminates (fun (s : NumSummand) => decide (s.sq = t.sq ∧ s.ty = ty))
      (fun s => { s with factor := s.factor - 1 }) (fun s => decide (s.factor = 0))
      { sq := t.sq, factor := 0, ty := ty } nc.sum
  rw [hr]
  exact ⟨_, rfl⟩

/-- time instance -/
theorem timeOwn_terminates (t : Term) (tci : Nat) (tc : TimeC) : ∃ r, timeOwn t tci tc = .ok r := by
  unfold timeOwn
  simp only
  obtain ⟨r, hr⟩ := ownLoop_terminates (fun (s : TimeSummand) => decide (s.sq = t.sq))
      (fun s => if t.key = "ftime" then { s with f := s.f - 1 }
        else if t.key = "ltime" then { s with l := s.l - 1 }
        else { s with f := s.f - (tci : Int), l := s.l - (1 - (tci : Int)) })
      (fun s => decide (s.f = 0 ∧ s.l = 0)) { sq := t.sq, f := 0, l := 0 } tc.sum
  rw [hr]
  exact ⟨_, rfl⟩


end Pk.Query
