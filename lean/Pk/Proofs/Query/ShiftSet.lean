/-
  C14 (reference-time shift), part 3: NOT / AND / OR / THEN on condition sets commute with the
  shift (on sets whose time conditions are `Safe`) and keep every `TInv` invariant.
-/
import Pk.Proofs.Query.ShiftClean

namespace Pk.Query
namespace Shift

@[simp] theorem shiftG_none (d : Int) : shiftG d none = none := rfl
@[simp] theorem shiftG_some (d : Int) (cs : CSet) : shiftG d (some cs) = some (shiftS d cs) := rfl

theorem items_shift (d : Int) (g : GSet) : (shiftG d g).items = shiftS d g.items := by
  cases g <;> rfl

/-! ### OR -/

theorem Or_shift (d : Int) (a b : GSet) : GSet.Or (shiftG d a) (shiftG d b) = shiftG d (GSet.Or a b) := by
  unfold GSet.Or
  simp only [items_shift, ← shiftS_append]
  by_cases h : a.items ++ b.items = []
  · rw [if_pos h, if_pos ((shiftS_eq_nil d _).mpr h)]; rfl
  · have : shiftS d (a.items ++ b.items) ≠ [] := fun h' => h ((shiftS_eq_nil d _).mp h')
    rw [if_neg h, if_neg this]; rfl

theorem Or_tp {P : TimeC → Prop} {a b : GSet} (ha : CSet.TP P a.items) (hb : CSet.TP P b.items) :
    CSet.TP P (GSet.Or a b).items := by
  unfold GSet.Or
  simp only
  split
  · exact cset_tp_nil P
  · exact cset_tp_append ha hb

/-! ### AND -/

theorem andPairs_shift (d : Int) (a b : CSet) (ha : CSet.TP TimeC.Safe a) (hb : CSet.TP TimeC.Safe b) :
    CSet.andPairs (shiftS d a) (shiftS d b) = shiftS d (CSet.andPairs a b) := by
  unfold CSet.andPairs
  induction a with
  | nil => rfl
  | cons c1 a ih =>
    simp only [shiftS_cons, List.flatMap_cons, shiftS_append]
    rw [ih (cset_tp_tail ha)]
    congr 1
    have h1 := ha c1 List.mem_cons_self
    clear ih
    induction b with
    | nil => rfl
    | cons c2 b ihb =>
      simp only [shiftS_cons, List.map_cons]
      rw [conj_and_shift d c1 c2 h1 (hb c2 List.mem_cons_self), ihb (cset_tp_tail hb)]

theorem andPairs_tp {P : TimeC → Prop} (hP : TInv P) {a b : CSet} (ha : CSet.TP P a) (hb : CSet.TP P b) :
    CSet.TP P (CSet.andPairs a b) := by
  intro c hc
  simp only [CSet.andPairs, List.mem_flatMap, List.mem_map] at hc
  obtain ⟨c1, h1, c2, h2, rfl⟩ := hc
  exact conj_and_tp hP (ha c1 h1) (hb c2 h2)

theorem And_shift (d : Int) (a b : GSet) (ha : CSet.TP TimeC.Safe a.items) (hb : CSet.TP TimeC.Safe b.items) :
    GSet.And (shiftG d a) (shiftG d b) = shiftG d (GSet.And a b) := by
  unfold GSet.And
  simp only [items_shift, shiftS_eq_nil]
  split
  · rfl
  · split
    · rfl
    · rw [andPairs_shift d _ _ ha hb]; rfl

theorem And_tp {P : TimeC → Prop} (hP : TInv P) {a b : GSet} (ha : CSet.TP P a.items) (hb : CSet.TP P b.items) :
    CSet.TP P (GSet.And a b).items := by
  unfold GSet.And
  split
  · exact hb
  · split
    · exact ha
    · exact andPairs_tp hP ha hb

/-! ### THEN -/

theorem filter_noData_shift (d : Int) (a : Conj) :
    (shiftJ d a).filter (fun c => (Cond.data? c).isNone) = shiftJ d (a.filter (fun c => (Cond.data? c).isNone)) := by
  have hf : ((fun c => (Cond.data? c).isNone) ∘ shiftC d) = (fun c => (Cond.data? c).isNone) := by
    funext x; cases x <;> rfl
  simp only [shiftJ, List.filter_map, hf]

theorem shiftJ_of_data (d : Int) : ∀ (l : Conj), (∀ x ∈ l, ∃ dc, x = Cond.data dc) → shiftJ d l = l
  | [], _ => rfl
  | x :: l, h => by
    obtain ⟨dc, rfl⟩ := h x List.mem_cons_self
    rw [shiftJ_cons, shiftJ_of_data d l (fun y hy => h y (List.mem_cons_of_mem _ hy))]
    rfl

theorem conj_seq_shift (d : Int) (a b : Conj) : Conj.seq (shiftJ d a) (shiftJ d b) = shiftJ d (Conj.seq a b) := by
  unfold Conj.seq
  simp only [fm_data, filter_noData_shift]
  split
  · simp only [shiftJ_append]
    rw [shiftJ_of_data d (List.map Cond.data _) (by intro x hx; obtain ⟨dc, _, rfl⟩ := List.mem_map.mp hx; exact ⟨dc, rfl⟩),
      shiftJ_of_data d (List.map Cond.data _) (by intro x hx; obtain ⟨dc, _, rfl⟩ := List.mem_map.mp hx; exact ⟨dc, rfl⟩)]
  · simp only [shiftJ_append]
    congr 1
    symm
    apply shiftJ_of_data
    intro x hx
    simp only [List.mem_flatMap, List.mem_append, List.mem_map] at hx
    obtain ⟨adc, _, hx⟩ := hx
    rcases hx with hx | ⟨bdc, _, rfl⟩
    · split at hx
      · simp only [List.mem_singleton] at hx
        exact ⟨adc, hx⟩
      · cases hx
    · exact ⟨_, rfl⟩

theorem seq_mem_time {a b : Conj} {tc : TimeC} (h : Cond.time tc ∈ Conj.seq a b) :
    Cond.time tc ∈ a ∨ Cond.time tc ∈ b := by
  unfold Conj.seq at h
  simp only at h
  split at h
  · simp only [List.mem_append, List.mem_filter, List.mem_map] at h
    rcases h with ((⟨h, _⟩ | ⟨h, _⟩) | ⟨x, _, hx⟩) | ⟨x, _, hx⟩
    · exact Or.inl h
    · exact Or.inr h
    · cases hx
    · cases hx
  · simp only [List.mem_append, List.mem_filter, List.mem_flatMap, List.mem_map] at h
    rcases h with (⟨h, _⟩ | ⟨h, _⟩) | ⟨adc, _, h⟩
    · exact Or.inl h
    · exact Or.inr h
    · rcases h with h | ⟨x, _, hx⟩
      · split at h
        · simp at h
        · cases h
      · cases hx

theorem conj_seq_tp {P : TimeC → Prop} {a b : Conj} (ha : Conj.TP P a) (hb : Conj.TP P b) :
    Conj.TP P (Conj.seq a b) := by
  intro tc h
  rcases seq_mem_time h with h | h
  · exact ha tc h
  · exact hb tc h

theorem seqPairs_shift (d : Int) (a b : CSet) :
    (shiftS d a).flatMap (fun c1 => (shiftS d b).map (fun c2 => Conj.seq c1 c2)) =
      shiftS d (a.flatMap (fun c1 => b.map (fun c2 => Conj.seq c1 c2))) := by
  induction a with
  | nil => rfl
  | cons c1 a ih =>
    simp only [shiftS_cons, List.flatMap_cons, shiftS_append]
    rw [ih]
    congr 1
    clear ih
    induction b with
    | nil => rfl
    | cons c2 b ihb =>
      simp only [shiftS_cons, List.map_cons]
      rw [conj_seq_shift, ihb]

theorem gseq_shift (d : Int) (a b : GSet) : GSet.seq (shiftG d a) (shiftG d b) = shiftG d (GSet.seq a b) := by
  unfold GSet.seq
  simp only [items_shift, shiftS_eq_nil]
  split
  · rfl
  · split
    · rfl
    · simp only [seqPairs_shift, shiftS_eq_nil]
      split
      · rfl
      · rfl

theorem gseq_tp {P : TimeC → Prop} {a b : GSet} (ha : CSet.TP P a.items) (hb : CSet.TP P b.items) :
    CSet.TP P (GSet.seq a b).items := by
  unfold GSet.seq
  split
  · exact hb
  · split
    · exact ha
    · simp only
      split
      · exact cset_tp_nil P
      · intro c hc
        simp only [GSet.items, List.mem_flatMap, List.mem_map] at hc
        obtain ⟨c1, h1, c2, h2, rfl⟩ := hc
        exact conj_seq_tp (ha c1 h1) (hb c2 h2)

/-! ### NOT -/

theorem cond_invert_shift (d : Int) (x : Cond) : Cond.invert (shiftC d x) = shiftS d (Cond.invert x) := by
  cases x with
  | time c =>
    simp only [shiftC, Cond.invert, shiftS, shiftJ, List.map_cons, List.map_nil, shiftT, List.cons.injEq,
      Cond.time.injEq, TimeC.mk.injEq, true_and, and_true]
    grind
  | tag c => rfl
  | host c => rfl
  | num c => rfl
  | impossible => rfl
  | flag c =>
    simp only [shiftC, Cond.invert, shiftS, shiftJ, List.map_cons, List.map_nil, List.map_map,
      List.cons.injEq, and_true]
    rfl
  | data c =>
    simp only [shiftC, Cond.invert, shiftS, List.map_map]
    rfl

theorem cond_invert_tp {P : TimeC → Prop} (hP : TInv P) (x : Cond) (hx : ∀ tc, x = Cond.time tc → P tc) :
    CSet.TP P (Cond.invert x) := by
  cases x with
  | time c =>
    intro c' hc' tc htc
    simp only [Cond.invert, List.mem_singleton] at hc'
    subst hc'
    simp only [List.mem_singleton, Cond.time.injEq] at htc
    subst htc
    exact hP.inv c (hx c rfl)
  | flag f =>
    intro c' hc' tc htc
    simp only [Cond.invert, List.mem_singleton] at hc'
    subst hc'
    obtain ⟨v, _, hv⟩ := List.mem_map.mp htc
    cases hv
  | tag c => intro c' hc' tc htc; simp [Cond.invert] at hc'; subst hc'; simp at htc
  | host c => intro c' hc' tc htc; simp [Cond.invert] at hc'; subst hc'; simp at htc
  | num c => intro c' hc' tc htc; simp [Cond.invert] at hc'; subst hc'; simp at htc
  | impossible => intro c' hc' tc htc; simp [Cond.invert] at hc'; subst hc'; simp at htc
  | data c =>
    intro c' hc' tc htc
    simp only [Cond.invert, List.mem_map] at hc'
    obtain ⟨i, _, rfl⟩ := hc'
    simp at htc

theorem conj_invert_shift (d : Int) (c : Conj) : Conj.invert (shiftJ d c) = shiftG d (Conj.invert c) := by
  unfold Conj.invert
  simp only [shiftJ_eq_nil]
  split
  · rfl
  · have : ∀ (l : Conj) (acc : GSet),
        (shiftJ d l).foldl (fun res x => GSet.Or res (some (Cond.invert x))) (shiftG d acc) =
          shiftG d (l.foldl (fun res x => GSet.Or res (some (Cond.invert x))) acc) := by
      intro l
      induction l with
      | nil => intro acc; rfl
      | cons x rest ih =>
        intro acc
        simp only [shiftJ_cons, List.foldl_cons]
        rw [cond_invert_shift, ← shiftG_some, Or_shift, ih]
    exact this c none

theorem conj_invert_tp {P : TimeC → Prop} (hP : TInv P) (c : Conj) (h : Conj.TP P c) :
    CSet.TP P (Conj.invert c).items := by
  unfold Conj.invert
  split
  · exact cset_tp_cons (tp_impossible P) (cset_tp_nil P)
  · have : ∀ (l : Conj) (acc : GSet), Conj.TP P l → CSet.TP P acc.items →
        CSet.TP P (l.foldl (fun res x => GSet.Or res (some (Cond.invert x))) acc).items := by
      intro l
      induction l with
      | nil => intro acc _ ha; exact ha
      | cons x rest ih =>
        intro acc hl ha
        simp only [List.foldl_cons]
        apply ih _ (fun tc htc => hl tc (List.mem_cons_of_mem _ htc))
        apply Or_tp ha
        exact cond_invert_tp hP x (fun tc hx => hl tc (hx ▸ List.mem_cons_self))
    exact this c none h (cset_tp_nil P)

theorem cset_invert_shift (d : Int) (cs : CSet) (h : CSet.TP TimeC.Safe cs) :
    CSet.invert (shiftS d cs) = shiftG d (CSet.invert cs) := by
  unfold CSet.invert
  have : ∀ (l : CSet) (acc : GSet), CSet.TP TimeC.Safe l → CSet.TP TimeC.Safe acc.items →
      (shiftS d l).foldl (fun conds cc => GSet.And conds (Conj.invert cc)) (shiftG d acc) =
        shiftG d (l.foldl (fun conds cc => GSet.And conds (Conj.invert cc)) acc) := by
    intro l
    induction l with
    | nil => intro acc _ _; rfl
    | cons c rest ih =>
      intro acc hl ha
      have hc := conj_invert_tp tinv_safe c (hl c List.mem_cons_self)
      simp only [shiftS_cons, List.foldl_cons]
      rw [conj_invert_shift, And_shift d _ _ ha hc, ih _ (cset_tp_tail hl) (And_tp tinv_safe ha hc)]
  exact this cs (some []) h (cset_tp_nil _)

theorem cset_invert_tp {P : TimeC → Prop} (hP : TInv P) (cs : CSet) (h : CSet.TP P cs) :
    CSet.TP P (CSet.invert cs).items := by
  unfold CSet.invert
  have : ∀ (l : CSet) (acc : GSet), CSet.TP P l → CSet.TP P acc.items →
      CSet.TP P (l.foldl (fun conds cc => GSet.And conds (Conj.invert cc)) acc).items := by
    intro l
    induction l with
    | nil => intro acc _ ha; exact ha
    | cons c rest ih =>
      intro acc hl ha
      simp only [List.foldl_cons]
      apply ih _ (cset_tp_tail hl)
      exact And_tp hP ha (conj_invert_tp hP c (hl c List.mem_cons_self))
  exact this cs (some []) h (cset_tp_nil P)

end Shift
end Pk.Query
