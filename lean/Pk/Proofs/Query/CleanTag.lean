/-
  Soundness of `cleanTag` (cleanTagConditions): the cleaned list is equivalent to the conjunction
  of the input tag conditions; `none` exactly stands for an unsatisfiable conjunction.
-/
import Pk.Proofs.Query.Basic

namespace Pk.Query

theorem and_two_pow_ne_zero (x k : Nat) : ((x &&& 2 ^ k) != 0) = x.testBit k := by
  cases h : x.testBit k with
  | true =>
    have : (x &&& 2 ^ k).testBit k = true := by simp [Nat.testBit_and, Nat.testBit_two_pow_self, h]
    cases h0 : (x &&& 2 ^ k) with
    | zero => rw [h0] at this; simp at this
    | succ n => simp
  | false =>
    have : x &&& 2 ^ k = 0 := by
      apply Nat.eq_of_testBit_eq
      intro i
      simp only [Nat.testBit_and, Nat.testBit_two_pow, Nat.zero_testBit]
      by_cases hki : k = i
      · subst hki; simp [h]
      · simp [hki]
    simp [this]

/-- and-ing accept masks is the conjunction of the single-bit tests -/
theorem and_pow_ne_zero (a b k : Nat) :
    (((a &&& b) &&& 2 ^ k) != 0) = (((a &&& 2 ^ k) != 0) && ((b &&& 2 ^ k) != 0)) := by
  simp only [and_two_pow_ne_zero, Nat.testBit_and]

theorem tagBit_pow (m u : Bool) : ∃ k, tagBit m u = 2 ^ k := by
  cases m <;> cases u
  · exact ⟨1, rfl⟩
  · exact ⟨3, rfl⟩
  · exact ⟨0, rfl⟩
  · exact ⟨2, rfl⟩

theorem evalTag_and (sq name : String) (a b : Nat) (ρ : Env) :
    evalTag { sq := sq, name := name, acc := a &&& b } ρ =
      (evalTag { sq := sq, name := name, acc := a } ρ && evalTag { sq := sq, name := name, acc := b } ρ) := by
  simp only [evalTag]
  obtain ⟨k, hk⟩ := tagBit_pow ((ρ sq).tagMatch name) ((ρ sq).tagUncertain name)
  rw [hk]
  exact and_pow_ne_zero a b k

theorem evalTag_zero (c : TagC) (ρ : Env) (h : c.acc = 0) : evalTag c ρ = false := by
  simp [evalTag, h]

theorem tagMerge_sound (m : List TagC) (lc : TagC) (ρ : Env) :
    optAll (fun c => evalTag c ρ) (tagMerge m lc) = (m.all (fun c => evalTag c ρ) && evalTag lc ρ) := by
  induction m with
  | nil => simp [tagMerge]
  | cons e es ih =>
    simp only [tagMerge]
    split
    · rename_i h
      obtain ⟨h1, h2⟩ := h
      have hand := evalTag_and e.sq e.name e.acc lc.acc ρ
      have hlc : evalTag { sq := e.sq, name := e.name, acc := lc.acc } ρ = evalTag lc ρ := by
        rw [h1, h2]
      rw [hlc] at hand
      split
      · rename_i h0
        have : evalTag { sq := e.sq, name := e.name, acc := e.acc &&& lc.acc } ρ = false :=
          evalTag_zero _ ρ h0
        rw [this] at hand
        simp only [optAll_none, List.all_cons]
        revert hand
        cases evalTag e ρ <;> cases evalTag lc ρ <;> simp
      · simp only [optAll_some, List.all_cons]
        rw [hand]
        cases evalTag e ρ <;> cases evalTag lc ρ <;> simp
    · cases hm : tagMerge es lc with
      | none =>
        rw [hm] at ih
        simp only [Option.map_none, optAll_none, List.all_cons]
        simp only [optAll_none] at ih
        rw [Bool.and_assoc, ← ih]; simp
      | some r =>
        rw [hm] at ih
        simp only [Option.map_some, optAll_some, List.all_cons]
        simp only [optAll_some] at ih
        rw [Bool.and_assoc, ← ih]

theorem tagFold_sound (m lcs : List TagC) (ρ : Env) :
    optAll (fun c => evalTag c ρ) (tagFold m lcs) =
      (m.all (fun c => evalTag c ρ) && lcs.all (fun c => evalTag c ρ)) := by
  induction lcs generalizing m with
  | nil => simp [tagFold]
  | cons lc rest ih =>
    simp only [tagFold]
    split
    · rename_i h0
      simp [evalTag_zero lc ρ h0]
    · have hm := tagMerge_sound m lc ρ
      split
      · rename_i hnone
        rw [hnone] at hm
        simp only [optAll_none] at hm
        simp only [optAll_none, List.all_cons]
        rw [← Bool.and_assoc, ← hm]; simp
      · rename_i m' hsome
        rw [hsome] at hm
        simp only [optAll_some] at hm
        rw [ih m', hm]
        simp only [List.all_cons, Bool.and_assoc]

theorem cleanTag_sound (lcs : List TagC) (ρ : Env) :
    optAll (fun c => evalTag c ρ) (cleanTag lcs) = lcs.all (fun c => evalTag c ρ) := by
  have h := tagFold_sound [] lcs ρ
  simp only [cleanTag]
  cases hf : tagFold [] lcs with
  | none => rw [hf] at h; simpa using h
  | some r =>
    rw [hf] at h
    simp only [Option.map_some, optAll_some, all_isort]
    simpa using h

end Pk.Query
