/-
  `cleanData` (cleanDataConditions) preserves the meaning of a conjunction of data chains.
-/
import Pk.Proofs.Query.Basic

namespace Pk.Query

/-! ### three-way comparisons -/

structure CleanData.CmpOK {α : Type} (cmp : α → α → Ordering) : Prop where
  eq_iff : ∀ a b, cmp a b = .eq ↔ a = b
  lt_gt : ∀ a b, cmp a b = .lt → cmp b a = .gt

open CleanData

theorem CleanData.cmpString_ok : CmpOK cmpString := by
  constructor
  · intro a b
    unfold cmpString
    constructor
    · intro h
      split at h
      · cases h
      · split at h
        · assumption
        · cases h
    · intro h
      subst h
      simp [String.lt_irrefl]
  · intro a b h
    unfold cmpString at h ⊢
    split at h
    · rename_i hab
      have h1 : ¬ b < a := String.lt_asymm hab
      have h2 : ¬ b = a := by
        intro e; subst e; exact String.lt_irrefl _ hab
      simp [h1, h2]
    · split at h <;> cases h

theorem CleanData.compareNat_ok : CmpOK (fun a b : Nat => compare a b) := by
  constructor
  · intro a b; exact Nat.compare_eq_eq
  · intro a b h
    have h1 : a < b := Nat.compare_eq_lt.mp h
    exact Nat.compare_eq_gt.mpr h1

theorem CleanData.lexCmp_ok {α : Type} {cmp : α → α → Ordering} (h : CmpOK cmp) : CmpOK (lexCmp cmp) := by
  constructor
  · intro a
    induction a with
    | nil => intro b; cases b <;> simp [lexCmp]
    | cons x xs ih =>
      intro b
      cases b with
      | nil => simp [lexCmp]
      | cons y ys =>
        simp only [lexCmp]
        cases hc : cmp x y with
        | eq =>
          have := (h.eq_iff x y).mp hc
          simp [ih ys, this]
        | lt =>
          have : x ≠ y := fun e => by rw [(h.eq_iff x y).mpr e] at hc; cases hc
          simp [this]
        | gt =>
          have : x ≠ y := fun e => by rw [(h.eq_iff x y).mpr e] at hc; cases hc
          simp [this]
  · intro a
    induction a with
    | nil => intro b; cases b <;> simp [lexCmp]
    | cons x xs ih =>
      intro b
      cases b with
      | nil => simp [lexCmp]
      | cons y ys =>
        simp only [lexCmp]
        cases hc : cmp x y with
        | eq =>
          have e := (h.eq_iff x y).mp hc
          have hc' : cmp y x = .eq := (h.eq_iff y x).mpr e.symm
          simp only [hc']
          exact ih ys
        | lt =>
          simp [h.lt_gt x y hc]
        | gt => simp

theorem CleanData.cmpDataVar_ok : CmpOK cmpDataVar := by
  constructor
  · intro a b
    unfold cmpDataVar
    constructor
    · intro h
      split at h
      · rename_i hne; exact absurd (Nat.compare_eq_eq.mp h) hne
      · split at h
        · rename_i hne; exact absurd ((cmpString_ok.eq_iff _ _).mp h) hne
        · rename_i h1 h2
          have h3 := (cmpString_ok.eq_iff _ _).mp h
          cases a; cases b; simp_all
    · intro h; subst h; simp [(cmpString_ok.eq_iff _ _).mpr rfl]
  · intro a b h
    unfold cmpDataVar at h ⊢
    split at h
    · rename_i hne
      have : ¬ b.pos = a.pos := fun e => hne e.symm
      simp only [ne_eq, this, not_false_eq_true, if_true]
      exact compareNat_ok.lt_gt _ _ h
    · rename_i h1
      have e1 : b.pos = a.pos := by simp at h1; exact h1.symm
      split at h
      · rename_i hne
        have : ¬ b.sq = a.sq := fun e => hne e.symm
        simp only [ne_eq, e1, not_true_eq_false, if_false, this, not_false_eq_true, if_true]
        exact cmpString_ok.lt_gt _ _ h
      · rename_i h2
        have e2 : b.sq = a.sq := by simp at h2; exact h2.symm
        simp only [ne_eq, e1, e2, not_true_eq_false, if_false]
        exact cmpString_ok.lt_gt _ _ h

theorem CleanData.cmpDataEl_ok : CmpOK cmpDataEl := by
  have hv := lexCmp_ok cmpDataVar_ok
  constructor
  · intro a b
    unfold cmpDataEl
    constructor
    · intro h
      split at h
      · rename_i hne; exact absurd ((cmpString_ok.eq_iff _ _).mp h) hne
      · split at h
        · rename_i hne; exact absurd (Nat.compare_eq_eq.mp h) hne
        · split at h
          · rename_i hne; exact absurd ((cmpString_ok.eq_iff _ _).mp h) hne
          · split at h
            · rename_i hne; exact absurd ((cmpString_ok.eq_iff _ _).mp h) hne
            · have h5 := (hv.eq_iff _ _).mp h
              cases a; cases b; simp_all
    · intro h; subst h; simp [(hv.eq_iff _ _).mpr rfl]
  · intro a b h
    unfold cmpDataEl at h ⊢
    split at h
    · rename_i hne
      have : ¬ b.sq = a.sq := fun e => hne e.symm
      simp only [ne_eq, this, not_false_eq_true, if_true]
      exact cmpString_ok.lt_gt _ _ h
    · rename_i h1
      have e1 : b.sq = a.sq := by simp at h1; exact h1.symm
      simp only [ne_eq, e1, not_true_eq_false, if_false]
      split at h
      · rename_i hne
        have : ¬ b.flags = a.flags := fun e => hne e.symm
        simp only [this, not_false_eq_true, if_true]
        exact compareNat_ok.lt_gt _ _ h
      · rename_i h2
        have e2 : b.flags = a.flags := by simp at h2; exact h2.symm
        simp only [e2, not_true_eq_false, if_false]
        split at h
        · rename_i hne
          have : ¬ b.regex = a.regex := fun e => hne e.symm
          simp only [this, not_false_eq_true, if_true]
          exact cmpString_ok.lt_gt _ _ h
        · rename_i h3
          have e3 : b.regex = a.regex := by simp at h3; exact h3.symm
          simp only [e3, not_true_eq_false, if_false]
          split at h
          · rename_i hne
            have : ¬ b.conv = a.conv := fun e => hne e.symm
            simp only [this, not_false_eq_true, if_true]
            exact cmpString_ok.lt_gt _ _ h
          · rename_i h4
            have e4 : b.conv = a.conv := by simp at h4; exact h4.symm
            simp only [e4, not_true_eq_false, if_false]
            exact hv.lt_gt _ _ h

/-! ### adjacent sortedness of insertion sort -/

inductive CleanData.Adj {α : Type} (R : α → α → Prop) : List α → Prop
  | nil : Adj R []
  | single (a : α) : Adj R [a]
  | cons {a b : α} {l : List α} : R a b → Adj R (b :: l) → Adj R (a :: b :: l)

theorem CleanData.Adj.tail {α : Type} {R : α → α → Prop} {a : α} {l : List α} (h : Adj R (a :: l)) : Adj R l := by
  cases h with
  | single => exact Adj.nil
  | cons _ h => exact h

theorem CleanData.insertBy_adj {α : Type} (lt : α → α → Bool) (hasym : ∀ a b, lt a b = true → lt b a = false)
    (x : α) (l : List α) (h : Adj (fun a b => lt b a = false) l) :
    Adj (fun a b => lt b a = false) (insertBy lt x l) := by
  induction l with
  | nil => exact Adj.single x
  | cons y ys ih =>
    simp only [insertBy]
    split
    · rename_i hyx
      have ih' := ih h.tail
      cases ys with
      | nil => exact Adj.cons (hasym y x hyx) (Adj.single x)
      | cons z zs =>
        simp only [insertBy] at ih' ⊢
        split
        · rename_i hzx
          simp only [hzx, if_true] at ih'
          cases h with
          | cons hyz _ => exact Adj.cons hyz ih'
        · rename_i hzx
          simp only [hzx] at ih'
          exact Adj.cons (hasym y x hyx) ih'
    · rename_i hyx
      exact Adj.cons (by simpa using hyx) h

theorem CleanData.isort_adj {α : Type} (lt : α → α → Bool) (hasym : ∀ a b, lt a b = true → lt b a = false)
    (l : List α) : Adj (fun a b => lt b a = false) (isort lt l) := by
  induction l with
  | nil => exact Adj.nil
  | cons x xs ih => exact insertBy_adj lt hasym x _ ih

theorem CleanData.dataLt_asymm (a b : DataC) (h : dataLt a b = true) : dataLt b a = false := by
  unfold dataLt at h ⊢
  have ok := lexCmp_ok cmpDataEl_ok
  split at h
  · rename_i hlt
    rw [ok.lt_gt _ _ hlt]
  · cases h

theorem CleanData.compat_prefix (a b : List DataEl) (hc : dataCompat a b = true)
    (hs : lexCmp cmpDataEl b a ≠ .lt) : a <+: b := by
  induction a generalizing b with
  | nil => exact List.nil_prefix
  | cons x xs ih =>
    cases b with
    | nil => simp [lexCmp] at hs
    | cons y ys =>
      simp only [dataCompat, Bool.and_eq_true, decide_eq_true_eq] at hc
      have e : x = y := (cmpDataEl_ok.eq_iff _ _).mp hc.1
      subst e
      simp only [lexCmp, (cmpDataEl_ok.eq_iff x x).mpr rfl] at hs
      have := ih ys hc.2 hs
      exact List.cons_prefix_cons.mpr ⟨rfl, this⟩

/-! ### semantics of chains -/

/-- position after all elements matched in sequence -/
def CleanData.run (ρ : Env) : List DataEl → Nat → Option Nat
  | [], p => some p
  | e :: es, p =>
    match (ρ e.sq).step e p with
    | none => none
    | some p' => run ρ es p'

theorem CleanData.chain_cons_ne (ρ : Env) (inv : Bool) (e : DataEl) (es : List DataEl) (p : Nat) (h : es ≠ []) :
    chain ρ inv (e :: es) p =
      match (ρ e.sq).step e p with
      | none => false
      | some p' => chain ρ inv es p' := by
  cases es with
  | nil => exact absurd rfl h
  | cons e2 es =>
    rw [chain]
    all_goals first | rfl | simp

theorem CleanData.chain_append (ρ : Env) (inv : Bool) (xs ys : List DataEl) (p : Nat) (h : ys ≠ []) :
    chain ρ inv (xs ++ ys) p =
      match run ρ xs p with
      | none => false
      | some p' => chain ρ inv ys p' := by
  induction xs generalizing p with
  | nil => simp [run]
  | cons x xs ih =>
    rw [List.cons_append, chain_cons_ne _ _ _ _ _ (by simp [h]), run]
    cases (ρ x.sq).step x p with
    | none => rfl
    | some p' => exact ih p'

theorem CleanData.chain_false_eq (ρ : Env) (xs : List DataEl) (p : Nat) :
    chain ρ false xs p = (run ρ xs p).isSome := by
  induction xs generalizing p with
  | nil => simp [chain, run]
  | cons x xs ih =>
    cases xs with
    | nil =>
      simp only [chain, run]
      cases (ρ x.sq).step x p <;> simp
    | cons y ys =>
      rw [chain_cons_ne _ _ _ _ _ (by simp), run]
      cases (ρ x.sq).step x p with
      | none => rfl
      | some p' => exact ih p'

theorem CleanData.chain_true_run (ρ : Env) (xs : List DataEl) (p : Nat) (h : chain ρ true xs p = true) :
    run ρ xs p = none := by
  induction xs generalizing p with
  | nil => simp [chain] at h
  | cons x xs ih =>
    cases xs with
    | nil =>
      simp only [chain] at h
      simp only [run]
      cases hs : (ρ x.sq).step x p <;> simp_all
    | cons y ys =>
      rw [chain_cons_ne _ _ _ _ _ (by simp)] at h
      rw [run]
      cases hs : (ρ x.sq).step x p with
      | none => rfl
      | some p' =>
        rw [hs] at h
        exact ih p' h

theorem CleanData.prefix_same_length {α : Type} {a b : List α} (hp : a <+: b) (hl : a.length = b.length) : a = b := by
  obtain ⟨t, ht⟩ := hp
  have : t.length = 0 := by
    have := congrArg List.length ht
    simp at this; omega
  have : t = [] := List.eq_nil_of_length_eq_zero this
  subst this; simpa using ht

theorem CleanData.data_same_contra (a b : DataC) (ρ : Env) (he : a.els = b.els) (hi : a.inv ≠ b.inv) :
    (evalData a ρ && evalData b ρ) = false := by
  unfold evalData
  rw [he]
  have : a.inv = !b.inv := by cases ha : a.inv <;> cases hb : b.inv <;> simp_all
  rw [this]
  generalize b.els = l
  generalize (0:Nat) = p
  induction l generalizing p with
  | nil => cases b.inv <;> simp [chain]
  | cons x xs ih =>
    cases xs with
    | nil => simp only [chain]; cases (ρ x.sq).step x p <;> cases b.inv <;> simp
    | cons y ys =>
      rw [chain_cons_ne _ _ _ _ _ (by simp), chain_cons_ne _ _ _ _ _ (by simp)]
      cases (ρ x.sq).step x p with
      | none => rfl
      | some p' => exact ih p'

theorem CleanData.data_prefix_contra (a b : DataC) (ρ : Env) (hp : a.els <+: b.els)
    (hl : a.els.length < b.els.length) (hi : a.inv = true) :
    (evalData a ρ && evalData b ρ) = false := by
  obtain ⟨t, ht⟩ := hp
  have htne : t ≠ [] := by
    intro e; subst e; simp at ht; rw [ht] at hl; omega
  unfold evalData
  cases ha : chain ρ a.inv a.els 0 with
  | false => rfl
  | true =>
    rw [hi] at ha
    have hr := chain_true_run ρ _ _ ha
    rw [← ht, chain_append _ _ _ _ _ htne, hr]
    rfl

theorem CleanData.data_prefix_implied (a b : DataC) (ρ : Env) (hp : a.els <+: b.els)
    (hl : a.els.length < b.els.length) (hi : a.inv = false) (hb : evalData b ρ = true) :
    evalData a ρ = true := by
  obtain ⟨t, ht⟩ := hp
  have htne : t ≠ [] := by
    intro e; subst e; simp at ht; rw [ht] at hl; omega
  unfold evalData at hb ⊢
  rw [← ht, chain_append _ _ _ _ _ htne] at hb
  rw [hi, chain_false_eq]
  cases hr : run ρ a.els 0 with
  | none => rw [hr] at hb; cases hb
  | some p' => rfl

theorem CleanData.optAll_map_cons {α : Type} (ev : α → Bool) (a : α) (o : Option (List α)) :
    optAll ev (o.map (a :: ·)) = (ev a && optAll ev o) := by
  cases o <;> simp

theorem CleanData.dataDedup_sound (ρ : Env) (a : DataC) (rest : List DataC)
    (hs : Adj (fun x y => dataLt y x = false) (a :: rest)) :
    optAll (fun c => evalData c ρ) (dataDedup a rest) = (a :: rest).all (fun c => evalData c ρ) := by
  induction rest generalizing a with
  | nil => simp [dataDedup]
  | cons b rest ih =>
    have ih' := ih b hs.tail
    have hab : dataLt b a = false := by cases hs with | cons h _ => exact h
    simp only [dataDedup]
    split
    · rename_i hc
      have hp : a.els <+: b.els := by
        apply compat_prefix _ _ hc
        intro hlt
        simp [dataLt, hlt] at hab
      have hle : a.els.length ≤ b.els.length := hp.length_le
      split
      · rename_i h1
        have := data_same_contra a b ρ (prefix_same_length hp h1.1) h1.2
        simp only [optAll_none, List.all_cons]
        rw [← Bool.and_assoc, this]; rfl
      · rename_i h1
        split
        · rename_i h2
          have := data_prefix_contra a b ρ hp h2.2 h2.1
          simp only [optAll_none, List.all_cons]
          rw [← Bool.and_assoc, this]; rfl
        · rename_i h2
          rw [ih']
          simp only [List.all_cons]
          have himp : evalData b ρ = true → evalData a ρ = true := by
            intro hb
            by_cases hl : a.els.length = b.els.length
            · have he := prefix_same_length hp hl
              have hi : a.inv = b.inv := by
                cases ha : a.inv <;> cases hb' : b.inv <;> simp_all
              have : a = b := by cases a; cases b; simp_all
              rw [this]; exact hb
            · have hlt : a.els.length < b.els.length := by omega
              have hi : a.inv = false := by
                cases ha : a.inv
                · rfl
                · exact absurd ⟨ha, hlt⟩ h2
              exact data_prefix_implied a b ρ hp hlt hi hb
          cases hb : evalData b ρ with
          | false => simp
          | true => simp [himp hb]
    · rw [optAll_map_cons, ih']
      simp

/-- full strength; the non-emptiness of the chains is not needed -/
theorem cleanData_sound' (dcs : List DataC) (ρ : Env) :
    optAll (fun c => evalData c ρ) (cleanData dcs) = dcs.all (fun c => evalData c ρ) := by
  have hs := isort_adj dataLt dataLt_asymm dcs
  rw [← all_isort dataLt dcs]
  unfold cleanData
  split
  · rename_i h; rw [h]; simp
  · rename_i a rest h
    rw [h] at hs ⊢
    exact dataDedup_sound ρ a rest hs

set_option linter.unusedVariables false in
theorem cleanData_sound (dcs : List DataC) (ρ : Env) (hne : ∀ d ∈ dcs, d.els ≠ []) :
    optAll (fun c => evalData c ρ) (cleanData dcs) = dcs.all (fun c => evalData c ρ) :=
  cleanData_sound' dcs ρ

/-! ### the output is a sub-list of the input -/

theorem CleanData.dataDedup_subset (a : DataC) (rest : List DataC) :
    ∀ r, dataDedup a rest = some r → ∀ x ∈ r, x ∈ a :: rest := by
  induction rest generalizing a with
  | nil => intro r hr x hx; simp only [dataDedup, Option.some.injEq] at hr; subst hr; exact hx
  | cons b rest ih =>
    intro r hr x hx
    simp only [dataDedup] at hr
    split at hr
    · split at hr
      · cases hr
      · split at hr
        · cases hr
        · exact List.mem_cons_of_mem _ (ih b r hr x hx)
    · cases hd : dataDedup b rest with
      | none => rw [hd] at hr; cases hr
      | some tl =>
        rw [hd] at hr
        simp only [Option.map_some, Option.some.injEq] at hr
        subst hr
        rcases List.mem_cons.mp hx with e | e
        · simp [e]
        · exact List.mem_cons_of_mem _ (ih b tl hd x e)

theorem cleanData_subset (dcs r : List DataC) (hr : cleanData dcs = some r) : ∀ d ∈ r, d ∈ dcs := by
  intro d hd
  unfold cleanData at hr
  split at hr
  · simp only [Option.some.injEq] at hr; subst hr; cases hd
  · rename_i a rest hs
    have := dataDedup_subset a rest r hr d hd
    rw [← hs] at this
    exact (mem_isort _ _ _).mp this

/-- in particular the invariant `DataC.OK` (non-empty chains) is preserved -/
theorem cleanData_ok (dcs : List DataC) (h : ∀ d ∈ dcs, d.OK) (r : List DataC)
    (hr : cleanData dcs = some r) : ∀ d ∈ r, d.OK :=
  fun d hd => h d (cleanData_subset dcs r hr d hd)

end Pk.Query
