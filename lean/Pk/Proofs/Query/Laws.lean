/-
  Instantiation of the set-level results (SetLevel / SetLevel2) with the per-kind lemmas:
  `laws : Laws`, `termLaw`, and the closed theorems for the fragment `Frag` / `Term.Frag`.
-/
import Pk.Proofs.Query.CleanTag
import Pk.Proofs.Query.CleanNum
import Pk.Proofs.Query.CleanTime
import Pk.Proofs.Query.CleanFlag
import Pk.Proofs.Query.CleanHost
import Pk.Proofs.Query.CleanData
import Pk.Proofs.Query.Invert
import Pk.Proofs.Query.TermSound
import Pk.Proofs.Query.SetLevel2

namespace Pk.Query

/-! ### `Conj.clean` -/

/-- a conjunct is the conjunction of its six kinds (and contains no `impossible`) -/
theorem evalConj_partition (c : Conj) (ρ : Env) :
    evalConj c ρ =
      ((!c.any (· = Cond.impossible)) &&
        (c.filterMap Cond.tag?).all (fun x => evalTag x ρ) &&
        (c.filterMap Cond.flag?).all (fun x => evalFlag x ρ) &&
        (c.filterMap Cond.host?).all (fun x => evalHost x ρ) &&
        (c.filterMap Cond.num?).all (fun x => evalNum x ρ) &&
        (c.filterMap Cond.time?).all (fun x => evalTime x ρ) &&
        (c.filterMap Cond.data?).all (fun x => evalData x ρ)) := by
  induction c with
  | nil => simp
  | cons x rest ih =>
    rw [evalConj_cons, ih]
    cases x with
    | tag t =>
      simp only [List.filterMap_cons, Cond.tag?, Cond.flag?, Cond.host?, Cond.num?, Cond.time?,
        Cond.data?, List.all_cons, List.any_cons, evalCond]
      cases evalTag t ρ <;> simp
    | flag t =>
      simp only [List.filterMap_cons, Cond.tag?, Cond.flag?, Cond.host?, Cond.num?, Cond.time?,
        Cond.data?, List.all_cons, List.any_cons, evalCond]
      cases evalFlag t ρ <;> simp
    | host t =>
      simp only [List.filterMap_cons, Cond.tag?, Cond.flag?, Cond.host?, Cond.num?, Cond.time?,
        Cond.data?, List.all_cons, List.any_cons, evalCond]
      cases evalHost t ρ <;> simp
    | time t =>
      simp only [List.filterMap_cons, Cond.tag?, Cond.flag?, Cond.host?, Cond.num?, Cond.time?,
        Cond.data?, List.all_cons, List.any_cons, evalCond]
      cases evalTime t ρ <;> simp
    | num t =>
      simp only [List.filterMap_cons, Cond.tag?, Cond.flag?, Cond.host?, Cond.num?, Cond.time?,
        Cond.data?, List.all_cons, List.any_cons, evalCond]
      cases evalNum t ρ <;> simp
    | data t =>
      simp only [List.filterMap_cons, Cond.tag?, Cond.flag?, Cond.host?, Cond.num?, Cond.time?,
        Cond.data?, List.all_cons, List.any_cons, evalCond]
      cases evalData t ρ <;> simp
    | impossible =>
      simp [List.filterMap_cons, Cond.tag?, Cond.flag?, Cond.host?, Cond.num?, Cond.time?,
        Cond.data?, evalCond]

theorem mem_filterMap_flag {c : Conj} {f : FlagC} (h : f ∈ c.filterMap Cond.flag?) :
    Cond.flag f ∈ c := by
  simp only [List.mem_filterMap] at h
  obtain ⟨x, hx, hxf⟩ := h
  cases x <;> simp [Cond.flag?] at hxf
  subst hxf; exact hx

theorem mem_filterMap_host {c : Conj} {f : HostC} (h : f ∈ c.filterMap Cond.host?) :
    Cond.host f ∈ c := by
  simp only [List.mem_filterMap] at h
  obtain ⟨x, hx, hxf⟩ := h
  cases x <;> simp [Cond.host?] at hxf
  subst hxf; exact hx

theorem mem_filterMap_data {c : Conj} {f : DataC} (h : f ∈ c.filterMap Cond.data?) :
    Cond.data f ∈ c := by
  simp only [List.mem_filterMap] at h
  obtain ⟨x, hx, hxf⟩ := h
  cases x <;> simp [Cond.data?] at hxf
  subst hxf; exact hx

theorem evalConj_map_tag (l : List TagC) (ρ : Env) :
    evalConj (l.map Cond.tag) ρ = l.all (fun x => evalTag x ρ) := by
  simp [evalConj, List.all_map, Function.comp_def, evalCond]
theorem evalConj_map_flag (l : List FlagC) (ρ : Env) :
    evalConj (l.map Cond.flag) ρ = l.all (fun x => evalFlag x ρ) := by
  simp [evalConj, List.all_map, Function.comp_def, evalCond]
theorem evalConj_map_host (l : List HostC) (ρ : Env) :
    evalConj (l.map Cond.host) ρ = l.all (fun x => evalHost x ρ) := by
  simp [evalConj, List.all_map, Function.comp_def, evalCond]
theorem evalConj_map_num (l : List NumC) (ρ : Env) :
    evalConj (l.map Cond.num) ρ = l.all (fun x => evalNum x ρ) := by
  simp [evalConj, List.all_map, Function.comp_def, evalCond]
theorem evalConj_map_time (l : List TimeC) (ρ : Env) :
    evalConj (l.map Cond.time) ρ = l.all (fun x => evalTime x ρ) := by
  simp [evalConj, List.all_map, Function.comp_def, evalCond]
theorem evalConj_map_data (l : List DataC) (ρ : Env) :
    evalConj (l.map Cond.data) ρ = l.all (fun x => evalData x ρ) := by
  simp [evalConj, List.all_map, Function.comp_def, evalCond]

theorem conj_clean_sound (c : Conj) (ρ : Env) (ok : Conj.OK c) (hρ : Env.WF ρ) :
    evalConj (Conj.clean c) ρ = evalConj c ρ := by
  have hflag : ∀ f ∈ c.filterMap Cond.flag?, f.OK := fun f hf => ok _ (mem_filterMap_flag hf)
  have hhost : ∀ f ∈ c.filterMap Cond.host?, f.OK := fun f hf => ok _ (mem_filterMap_host hf)
  rw [evalConj_partition c ρ,
    ← cleanTag_sound, ← cleanFlag_sound_ok _ ρ hflag, ← cleanHost_sound_ok _ ρ hhost,
    ← cleanNumber_sound, ← cleanTime_sound _ ρ hρ, ← cleanData_sound']
  unfold Conj.clean
  split
  · next h => simp [h]
  · next h =>
    simp only [h]
    generalize cleanTag (c.filterMap Cond.tag?) = o1
    generalize cleanFlag (c.filterMap Cond.flag?) = o2
    generalize cleanHost (c.filterMap Cond.host?) = o3
    generalize cleanNumber (c.filterMap Cond.num?) = o4
    generalize cleanTime (c.filterMap Cond.time?) = o5
    generalize cleanData (c.filterMap Cond.data?) = o6
    cases o1 <;> cases o2 <;> cases o3 <;> cases o4 <;> cases o5 <;> cases o6 <;>
      simp [evalConj_map_tag, evalConj_map_flag, evalConj_map_host, evalConj_map_num,
        evalConj_map_time, evalConj_map_data, Bool.and_assoc]

theorem conj_clean_ok (c : Conj) (ok : Conj.OK c) : Conj.OK (Conj.clean c) := by
  have hflag : ∀ f ∈ c.filterMap Cond.flag?, f.OK := fun f hf => ok _ (mem_filterMap_flag hf)
  have hhost : ∀ f ∈ c.filterMap Cond.host?, f.OK := fun f hf => ok _ (mem_filterMap_host hf)
  have hdata : ∀ f ∈ c.filterMap Cond.data?, f.OK := fun f hf => ok _ (mem_filterMap_data hf)
  unfold Conj.clean
  split
  · exact Conj.OK_impossible
  · split
    · next lcs fcs hcs ncs tcs dcs h1 h2 h3 h4 h5 h6 =>
      have e2 := cleanFlag_ok _ hflag fcs h2
      have e3 := cleanHost_ok _ hhost hcs h3
      have e6 := cleanData_ok _ hdata dcs h6
      intro x hx
      simp only [List.mem_append, List.mem_map] at hx
      rcases hx with ((((⟨a, _, rfl⟩ | ⟨a, ha, rfl⟩) | ⟨a, ha, rfl⟩) | ⟨a, _, rfl⟩) | ⟨a, _, rfl⟩) |
        ⟨a, ha, rfl⟩
      · trivial
      · exact e2 a ha
      · exact e3 a ha
      · trivial
      · trivial
      · exact e6 a ha
    · exact Conj.OK_impossible

/-- the per-kind laws the set level is relative to -/
theorem laws : Laws where
  clean_sound := conj_clean_sound
  clean_ok := conj_clean_ok
  invert_sound := invert_cond_sound_ok
  invert_ok := invert_cond_ok
  invert_ne_nil := invert_cond_ne_nil

theorem termLaw (ref : Int) : TermLaw ref Term.Frag :=
  fun t g ρ hf hρ h => trTerm_sound ref t g ρ hf hρ h

/-! ### the closed theorems for the fragment -/

theorem translate_sound_frag (ref : Int) (e : Expr) (hf : Frag e) (hp : TermsOf Term.Frag e)
    (g : GSet) (h : translate ref e = .ok g) (ρ : Env) (hρ : Env.WF ρ) :
    ∃ cs, g = some cs ∧ cs ≠ [] ∧ CSet.OK cs ∧ evalSet cs ρ = evalExpr ref ρ e :=
  translate_sound laws ref Term.Frag (termLaw ref) e hf hp g h ρ hρ

theorem normalise_sound_frag (ref : Int) (e : Expr) (hf : Frag e) (hp : TermsOf Term.Frag e)
    (p : Parsed) (h : parse ref e = .ok p) (ρ : Env) (hρ : Env.WF ρ) (hid : Env.IdOK ρ) :
    evalParsed p ρ = evalExpr ref ρ e :=
  normalise_sound_of_laws laws ref Term.Frag (termLaw ref) e hf hp p h ρ hρ hid

theorem impossible_only_if_unsat_frag (ref : Int) (e : Expr) (hf : Frag e)
    (hp : TermsOf Term.Frag e) (h : parse ref e = .ok .nothing) (ρ : Env) (hρ : Env.WF ρ)
    (hid : Env.IdOK ρ) : evalExpr ref ρ e = false :=
  impossible_only_if_unsat_of_laws laws ref Term.Frag (termLaw ref) e hf hp h ρ hρ hid

theorem dnf_size_bound_frag (ref : Int) (e : Expr) (hp : TermsOf Term.Frag e) (cs : CSet)
    (h : translate ref e = .ok (some cs)) : cs.length ≤ (dnfBound e).1 :=
  dnf_size_bound laws ref Term.Frag (TermOK_of_TermLaw ref Term.Frag (termLaw ref)) e hp cs h

/-! ### non-vacuity: closed expressions in the fragment -/

namespace Example

deriving instance DecidableEq for Parsed
deriving instance DecidableEq for Outcome

/-- `id:1,5:9` -/
def idTerm : Term :=
  { sq := "", key := "id", conv := "", value := .nums [[[.num "" 1]], [[.num "" 5], [.num "" 9]]] }
/-- `cport:80` -/
def portTerm : Term := { sq := "", key := "cport", conv := "", value := .nums [[[.num "" 80]]] }
/-- `protocol:tcp` -/
def protoTerm : Term := { sq := "", key := "protocol", conv := "", value := .protos [.token "tcp"] }
/-- `host:10.0.0.0/8` (address as produced by `net.ParseIP`) -/
def hostTerm : Term :=
  { sq := "", key := "host", conv := "",
    value := .hosts [{ var := none, host := [0,0,0,0,0,0,0,0,0,0,255,255,10,0,0,0], masks := some [8] }] }

theorem idTerm_frag : idTerm.Frag := by simp [Term.Frag, idTerm, NumPart.isNum]
theorem portTerm_frag : portTerm.Frag := by simp [Term.Frag, portTerm, NumPart.isNum]
theorem protoTerm_frag : protoTerm.Frag := by simp [Term.Frag, protoTerm]
theorem hostTerm_frag : hostTerm.Frag := by simp [Term.Frag, hostTerm, normHost]

/-- `-(id:1,5:9) or (cport:80 host:10.0.0.0/8)` -/
def e0 : Expr := .or [.not (.grp (.term idTerm)), .grp (.and [.term portTerm, .term hostTerm])]

/-- `-(id:1,5:9) or (protocol:tcp host:10.0.0.0/8)` (`protoValue` uses `String.toLower`, which the
    kernel does not evaluate, so only `e0` is parsed by `decide`) -/
def e1 : Expr := .or [.not (.grp (.term idTerm)), .grp (.and [.term protoTerm, .term hostTerm])]

theorem e0_frag : Frag e0 := Frag_of_fragB _ (by decide)
theorem e1_frag : Frag e1 := Frag_of_fragB _ (by decide)

theorem e0_terms : TermsOf Term.Frag e0 := by
  refine .or ?_
  intro e he
  simp only [List.mem_cons, List.not_mem_nil, or_false] at he
  rcases he with rfl | rfl
  · exact .not (.grp (.term idTerm_frag))
  · refine .grp (.and ?_)
    intro e he
    simp only [List.mem_cons, List.not_mem_nil, or_false] at he
    rcases he with rfl | rfl
    · exact .term portTerm_frag
    · exact .term hostTerm_frag

theorem e1_terms : TermsOf Term.Frag e1 := by
  refine .or ?_
  intro e he
  simp only [List.mem_cons, List.not_mem_nil, or_false] at he
  rcases he with rfl | rfl
  · exact .not (.grp (.term idTerm_frag))
  · refine .grp (.and ?_)
    intro e he
    simp only [List.mem_cons, List.not_mem_nil, or_false] at he
    rcases he with rfl | rfl
    · exact .term protoTerm_frag
    · exact .term hostTerm_frag

/-- the normal form of `e0`: `id ≤ 0 ∨ 2 ≤ id ≤ 4 ∨ id ≥ 10 ∨ (chost ∈ 10/8 ∧ cport = 80) ∨
    (shost ∈ 10/8 ∧ cport = 80)` -/
def p0 : Parsed := .set
  [[.num { sum := [{ sq := "", factor := -1, ty := 0 }], n := 0 }],
   [.num { sum := [{ sq := "", factor := -1, ty := 0 }], n := 4 },
    .num { sum := [{ sq := "", factor := 1, ty := 0 }], n := -2 }],
   [.num { sum := [{ sq := "", factor := 1, ty := 0 }], n := -10 }],
   [.host { srcs := [{ sq := "", server := false }], host := [10, 0, 0, 0], m4 := [255, 0, 0, 0],
            m6 := [255, 0, 0, 0, 0, 0, 0, 0, 0, 0, 0, 0, 0, 0, 0, 0], inv := false },
    .num { sum := [{ sq := "", factor := -1, ty := 3 }], n := 80 },
    .num { sum := [{ sq := "", factor := 1, ty := 3 }], n := -80 }],
   [.host { srcs := [{ sq := "", server := true }], host := [10, 0, 0, 0], m4 := [255, 0, 0, 0],
            m6 := [255, 0, 0, 0, 0, 0, 0, 0, 0, 0, 0, 0, 0, 0, 0, 0], inv := false },
    .num { sum := [{ sq := "", factor := -1, ty := 3 }], n := 80 },
    .num { sum := [{ sq := "", factor := 1, ty := 3 }], n := -80 }]]

set_option maxRecDepth 100000 in
theorem e0_parse : parse 0 e0 = .ok p0 := by decide

/-- `normalise_sound_frag` applies to a concrete query: the hypotheses are satisfiable -/
theorem e0_sound (ρ : Env) (hρ : Env.WF ρ) (hid : Env.IdOK ρ) :
    evalParsed p0 ρ = evalExpr 0 ρ e0 :=
  normalise_sound_frag 0 e0 e0_frag e0_terms p0 e0_parse ρ hρ hid

theorem e1_size (ref : Int) (cs : CSet) (h : translate ref e1 = .ok (some cs)) : cs.length ≤ 18 :=
  dnf_size_bound_frag ref e1 e1_terms cs h

end Example

end Pk.Query
