/-
  Set-level soundness of the query normaliser, relative to the per-kind laws (`Laws`):
  OR / AND / NOT on condition sets, `ConditionsSet.Clean`, `finish`, and the recursive translation.

  Deviation from the contract statements: everything that goes through the simple-ID fast path of
  `CSet.Clean` (`simpleID_sound`, `Clean_sound`, `Clean_impossible`, `finish_sound`,
  `normalise_sound_of_laws`, `impossible_only_if_unsat_of_laws`) carries the extra hypothesis
  `Env.IdOK ρ` (`(ρ "").id ≤ 2^64-1`): `Stream.id` is an unbounded `Nat` and `Env.WF` does not bound
  it; without the bound the statements are false (`Clean_needs_idOK`).  `Clean_sound_partial`
  (general path only) needs no bound.  `wfEnv_idOK` shows the hypotheses are jointly satisfiable.
-/
import Pk.Proofs.Query.Basic

namespace Pk.Query

/-- the per-kind facts (proved elsewhere) the set level is built on -/
structure Laws : Prop where
  clean_sound : ∀ (c : Conj) (ρ : Env), Conj.OK c → Env.WF ρ → evalConj (Conj.clean c) ρ = evalConj c ρ
  clean_ok : ∀ (c : Conj), Conj.OK c → Conj.OK (Conj.clean c)
  invert_sound : ∀ (c : Cond) (ρ : Env), c.OK → evalSet (Cond.invert c) ρ = !evalCond c ρ
  invert_ok : ∀ (c : Cond), c.OK → CSet.OK (Cond.invert c)
  invert_ne_nil : ∀ (c : Cond), c.OK → Cond.invert c ≠ []

/-! ### basic evaluation lemmas -/

@[simp] theorem evalConj_nil (ρ : Env) : evalConj [] ρ = true := rfl
@[simp] theorem evalConj_cons (x : Cond) (c : Conj) (ρ : Env) :
    evalConj (x :: c) ρ = (evalCond x ρ && evalConj c ρ) := by simp [evalConj]
@[simp] theorem evalConj_append (a b : Conj) (ρ : Env) :
    evalConj (a ++ b) ρ = (evalConj a ρ && evalConj b ρ) := by simp [evalConj, List.all_append]
@[simp] theorem evalSet_nil (ρ : Env) : evalSet [] ρ = false := rfl
@[simp] theorem evalSet_cons (c : Conj) (cs : CSet) (ρ : Env) :
    evalSet (c :: cs) ρ = (evalConj c ρ || evalSet cs ρ) := by simp [evalSet]
@[simp] theorem evalSet_append (a b : CSet) (ρ : Env) :
    evalSet (a ++ b) ρ = (evalSet a ρ || evalSet b ρ) := by simp [evalSet, List.any_append]
@[simp] theorem evalConj_impossible (ρ : Env) : evalConj impossibleConj ρ = false := by
  simp [impossibleConj, evalCond]

@[simp] theorem GSet.items_none : GSet.items none = [] := rfl
@[simp] theorem GSet.items_some (l : CSet) : GSet.items (some l) = l := rfl

theorem Conj.OK_nil : Conj.OK [] := by intro x hx; cases hx
theorem Conj.OK_cons {x : Cond} {c : Conj} : Conj.OK (x :: c) ↔ x.OK ∧ Conj.OK c := by
  simp [Conj.OK]
theorem Conj.OK_append {a b : Conj} : Conj.OK (a ++ b) ↔ Conj.OK a ∧ Conj.OK b := by
  simp only [Conj.OK, List.mem_append]
  constructor
  · intro h; exact ⟨fun x hx => h x (Or.inl hx), fun x hx => h x (Or.inr hx)⟩
  · rintro ⟨h1, h2⟩ x (hx | hx)
    · exact h1 x hx
    · exact h2 x hx
theorem CSet.OK_nil : CSet.OK [] := by intro x hx; cases hx
theorem CSet.OK_cons {c : Conj} {cs : CSet} : CSet.OK (c :: cs) ↔ Conj.OK c ∧ CSet.OK cs := by
  simp [CSet.OK]
theorem CSet.OK_append {a b : CSet} : CSet.OK (a ++ b) ↔ CSet.OK a ∧ CSet.OK b := by
  simp only [CSet.OK, List.mem_append]
  constructor
  · intro h; exact ⟨fun x hx => h x (Or.inl hx), fun x hx => h x (Or.inr hx)⟩
  · rintro ⟨h1, h2⟩ x (hx | hx)
    · exact h1 x hx
    · exact h2 x hx
theorem Conj.OK_impossible : Conj.OK impossibleConj := by
  intro x hx
  simp [impossibleConj] at hx
  subst hx
  trivial

/-! ### 1. OR -/

theorem or_items (a b : GSet) : (GSet.Or a b).items = a.items ++ b.items := by
  unfold GSet.Or
  simp only
  split
  · next h => simp [h]
  · simp

theorem or_sound (a b : GSet) (ρ : Env) :
    evalSet (GSet.Or a b).items ρ = (evalSet a.items ρ || evalSet b.items ρ) := by
  rw [or_items, evalSet_append]

theorem or_ok (a b : GSet) (oka : CSet.OK a.items) (okb : CSet.OK b.items) :
    CSet.OK (GSet.Or a b).items := by
  rw [or_items]; exact CSet.OK_append.mpr ⟨oka, okb⟩

theorem or_ne_nil_right (a b : GSet) (hb : b.items ≠ []) : (GSet.Or a b).items ≠ [] := by
  rw [or_items]; simp [hb]

theorem or_ne_nil_left (a b : GSet) (ha : a.items ≠ []) : (GSet.Or a b).items ≠ [] := by
  rw [or_items]; simp [ha]

/-! ### 2. AND of two conjuncts -/

theorem conj_and_sound (L : Laws) {a b : Conj} {ρ : Env} (oka : Conj.OK a) (okb : Conj.OK b)
    (hρ : Env.WF ρ) : evalConj (Conj.and a b) ρ = (evalConj a ρ && evalConj b ρ) := by
  unfold Conj.and
  rw [L.clean_sound _ ρ (Conj.OK_append.mpr ⟨oka, okb⟩) hρ, evalConj_append]

theorem conj_and_ok (L : Laws) {a b : Conj} (oka : Conj.OK a) (okb : Conj.OK b) :
    Conj.OK (Conj.and a b) :=
  L.clean_ok _ (Conj.OK_append.mpr ⟨oka, okb⟩)

/-! ### 3. AND of two sets -/

theorem andRow_sound (L : Laws) (c1 : Conj) (b : CSet) {ρ : Env} (ok1 : Conj.OK c1)
    (okb : CSet.OK b) (hρ : Env.WF ρ) :
    evalSet (b.map (fun c2 => Conj.and c1 c2)) ρ = (evalConj c1 ρ && evalSet b ρ) := by
  induction b with
  | nil => simp
  | cons c2 rest ih =>
    have ⟨ok2, okr⟩ := CSet.OK_cons.mp okb
    simp only [List.map_cons, evalSet_cons, ih okr, conj_and_sound L ok1 ok2 hρ]
    cases evalConj c1 ρ <;> simp

theorem andPairs_sound (L : Laws) (a b : CSet) {ρ : Env} (oka : CSet.OK a) (okb : CSet.OK b)
    (hρ : Env.WF ρ) : evalSet (CSet.andPairs a b) ρ = (evalSet a ρ && evalSet b ρ) := by
  induction a with
  | nil => simp [CSet.andPairs]
  | cons c1 rest ih =>
    have ⟨ok1, okr⟩ := CSet.OK_cons.mp oka
    have ih' := ih okr
    unfold CSet.andPairs at ih' ⊢
    simp only [List.flatMap_cons, evalSet_append, evalSet_cons, ih', andRow_sound L c1 b ok1 okb hρ]
    cases evalConj c1 ρ <;> simp

theorem andPairs_ok (L : Laws) (a b : CSet) (oka : CSet.OK a) (okb : CSet.OK b) :
    CSet.OK (CSet.andPairs a b) := by
  intro c hc
  simp only [CSet.andPairs, List.mem_flatMap, List.mem_map] at hc
  obtain ⟨c1, h1, c2, h2, rfl⟩ := hc
  exact conj_and_ok L (oka c1 h1) (okb c2 h2)

theorem andPairs_ne_nil (a b : CSet) (ha : a ≠ []) (hb : b ≠ []) : CSet.andPairs a b ≠ [] := by
  cases a with
  | nil => exact absurd rfl ha
  | cons x xs =>
    cases b with
    | nil => exact absurd rfl hb
    | cons y ys => simp [CSet.andPairs]

theorem and_left_empty (a b : GSet) (ha : a.items = []) : GSet.And a b = b := by
  simp [GSet.And, ha]

theorem and_right_empty (a b : GSet) (ha : a.items ≠ []) (hb : b.items = []) : GSet.And a b = a := by
  simp [GSet.And, ha, hb]

theorem and_eq (a b : GSet) (ha : a.items ≠ []) (hb : b.items ≠ []) :
    GSet.And a b = some (CSet.andPairs a.items b.items) := by
  simp [GSet.And, ha, hb]

theorem and_sound (L : Laws) (a b : GSet) (ha : a.items ≠ []) (hb : b.items ≠ [])
    (oka : CSet.OK a.items) (okb : CSet.OK b.items) {ρ : Env} (hρ : Env.WF ρ) :
    evalSet (GSet.And a b).items ρ = (evalSet a.items ρ && evalSet b.items ρ) := by
  rw [and_eq a b ha hb]
  exact andPairs_sound L _ _ oka okb hρ

theorem and_ok (L : Laws) (a b : GSet) (oka : CSet.OK a.items) (okb : CSet.OK b.items) :
    CSet.OK (GSet.And a b).items := by
  unfold GSet.And
  split
  · exact okb
  · split
    · exact oka
    · exact andPairs_ok L _ _ oka okb

theorem and_ne_nil (a b : GSet) (ha : a.items ≠ []) (hb : b.items ≠ []) :
    (GSet.And a b).items ≠ [] := by
  rw [and_eq a b ha hb]
  exact andPairs_ne_nil _ _ ha hb

/-! ### 4. NOT of a conjunct -/

theorem conj_invert_fold_items (c : Conj) (acc : GSet) :
    (c.foldl (fun res x => GSet.Or res (some (Cond.invert x))) acc).items
      = acc.items ++ c.flatMap Cond.invert := by
  induction c generalizing acc with
  | nil => simp
  | cons x rest ih =>
    simp only [List.foldl_cons, ih, or_items, GSet.items_some, List.flatMap_cons, List.append_assoc]

theorem conj_invert_items (c : Conj) (hc : c ≠ []) :
    (Conj.invert c).items = c.flatMap Cond.invert := by
  unfold Conj.invert
  rw [if_neg hc, conj_invert_fold_items]
  simp

theorem flatMap_invert_sound (L : Laws) (c : Conj) (ok : Conj.OK c) (ρ : Env) :
    evalSet (c.flatMap Cond.invert) ρ = !evalConj c ρ := by
  induction c with
  | nil => simp
  | cons x rest ih =>
    have ⟨okx, okr⟩ := Conj.OK_cons.mp ok
    simp only [List.flatMap_cons, evalSet_append, L.invert_sound x ρ okx, ih okr, evalConj_cons]
    cases evalCond x ρ <;> simp

theorem conj_invert_sound (L : Laws) (c : Conj) (ok : Conj.OK c) (ρ : Env) :
    evalSet (Conj.invert c).items ρ = !evalConj c ρ := by
  by_cases hc : c = []
  · subst hc
    simp [Conj.invert]
  · rw [conj_invert_items c hc]
    exact flatMap_invert_sound L c ok ρ

theorem conj_invert_ok (L : Laws) (c : Conj) (ok : Conj.OK c) : CSet.OK (Conj.invert c).items := by
  by_cases hc : c = []
  · subst hc
    simp only [Conj.invert, if_true, GSet.items_some]
    exact CSet.OK_cons.mpr ⟨Conj.OK_impossible, CSet.OK_nil⟩
  · rw [conj_invert_items c hc]
    intro d hd
    simp only [List.mem_flatMap] at hd
    obtain ⟨x, hx, hdx⟩ := hd
    exact L.invert_ok x (ok x hx) d hdx

theorem conj_invert_ne_nil (L : Laws) (c : Conj) (ok : Conj.OK c) : (Conj.invert c).items ≠ [] := by
  cases c with
  | nil => simp [Conj.invert]
  | cons x rest =>
    rw [conj_invert_items _ (by simp)]
    have := L.invert_ne_nil x (ok x (by simp))
    simp [this]

/-! ### 5. NOT of a set -/

theorem invert_fold (L : Laws) (cs : CSet) (ok : CSet.OK cs) {ρ : Env} (hρ : Env.WF ρ)
    (acc : GSet) (hacc : acc.items ≠ []) (okacc : CSet.OK acc.items) :
    let r := cs.foldl (fun conds cc => GSet.And conds (Conj.invert cc)) acc
    r.items ≠ [] ∧ CSet.OK r.items ∧ evalSet r.items ρ = (evalSet acc.items ρ && !evalSet cs ρ) := by
  induction cs generalizing acc with
  | nil => simp [hacc, okacc]
  | cons c rest ih =>
    have ⟨okc, okr⟩ := CSet.OK_cons.mp ok
    have h1 := and_ne_nil acc (Conj.invert c) hacc (conj_invert_ne_nil L c okc)
    have h2 := and_ok L acc (Conj.invert c) okacc (conj_invert_ok L c okc)
    have h3 := and_sound L acc (Conj.invert c) hacc (conj_invert_ne_nil L c okc) okacc
      (conj_invert_ok L c okc) hρ
    have := ih okr (GSet.And acc (Conj.invert c)) h1 h2
    simp only [List.foldl_cons]
    refine ⟨this.1, this.2.1, ?_⟩
    rw [this.2.2, h3, conj_invert_sound L c okc ρ, evalSet_cons]
    cases evalSet acc.items ρ <;> cases evalConj c ρ <;> simp

theorem invert_set_all (L : Laws) (cs : CSet) (hne : cs ≠ []) (ok : CSet.OK cs) {ρ : Env}
    (hρ : Env.WF ρ) :
    (CSet.invert cs).items ≠ [] ∧ CSet.OK (CSet.invert cs).items ∧
      evalSet (CSet.invert cs).items ρ = !evalSet cs ρ := by
  cases cs with
  | nil => exact absurd rfl hne
  | cons c rest =>
    have ⟨okc, okr⟩ := CSet.OK_cons.mp ok
    unfold CSet.invert
    simp only [List.foldl_cons]
    rw [and_left_empty (some []) (Conj.invert c) rfl]
    have := invert_fold L rest okr hρ (Conj.invert c) (conj_invert_ne_nil L c okc)
      (conj_invert_ok L c okc)
    refine ⟨this.1, this.2.1, ?_⟩
    rw [this.2.2, conj_invert_sound L c okc ρ, evalSet_cons]
    cases evalConj c ρ <;> simp

theorem invert_set_sound (L : Laws) (cs : CSet) (hne : cs ≠ []) (ok : CSet.OK cs) {ρ : Env}
    (hρ : Env.WF ρ) : evalSet (CSet.invert cs).items ρ = !evalSet cs ρ :=
  (invert_set_all L cs hne ok hρ).2.2

/-- an environment satisfying `Env.WF` (needed to state the ρ-free facts) -/
def wfEnv : Env := fun _ =>
  { id := 0, cport := 0, sport := 0, cbytes := 0, sbytes := 0,
    chost := [0, 0, 0, 0], shost := [0, 0, 0, 0], flags := 0, ftime := 0, ltime := 0,
    tagMatch := fun _ => false, tagUncertain := fun _ => false, step := fun _ _ => none }

theorem wfEnv_wf : Env.WF wfEnv := by
  intro sq; simp [wfEnv]

theorem invert_set_ok (L : Laws) (cs : CSet) (hne : cs ≠ []) (ok : CSet.OK cs) :
    CSet.OK (CSet.invert cs).items :=
  (invert_set_all L cs hne ok wfEnv_wf).2.1

theorem invert_set_ne_nil (L : Laws) (cs : CSet) (hne : cs ≠ []) (ok : CSet.OK cs) :
    (CSet.invert cs).items ≠ [] :=
  (invert_set_all L cs hne ok wfEnv_wf).1

/-! ### 6a. `ConditionsSet.Clean`, general path -/

theorem isImpossible_eq {c : Conj} (h : Conj.isImpossible c = true) : c = impossibleConj := by
  simpa [Conj.isImpossible] using h

theorem absorb_sound (L : Laws) (cc : Conj) (okcc : Conj.OK cc) {ρ : Env} (hρ : Env.WF ρ)
    (new new' : List Conj) (oknew : CSet.OK new) (h : absorb cc new = some new') :
    CSet.OK new' ∧ evalSet new' ρ = (evalSet new ρ || evalConj cc ρ) := by
  induction new generalizing new' with
  | nil => simp [absorb] at h
  | cons cc2 rest ih =>
    have ⟨ok2, okr⟩ := CSet.OK_cons.mp oknew
    have hand : evalConj (Conj.clean (Conj.and cc cc2)) ρ = (evalConj cc ρ && evalConj cc2 ρ) := by
      rw [L.clean_sound _ ρ (conj_and_ok L okcc ok2) hρ, conj_and_sound L okcc ok2 hρ]
    simp only [absorb] at h
    split at h
    · next heq =>
      cases h
      subst heq
      refine ⟨oknew, ?_⟩
      simp only [evalSet_cons]
      cases evalConj cc2 ρ <;> simp
    · split at h
      · next heq =>
        cases h
        refine ⟨oknew, ?_⟩
        rw [heq] at hand
        simp only [evalSet_cons]
        revert hand
        cases evalConj cc ρ <;> cases evalConj cc2 ρ <;> simp
      · split at h
        · next heq =>
          cases h
          refine ⟨CSet.OK_cons.mpr ⟨okcc, okr⟩, ?_⟩
          rw [heq] at hand
          simp only [evalSet_cons]
          revert hand
          cases evalConj cc ρ <;> cases evalConj cc2 ρ <;> simp
        · cases hr : absorb cc rest with
          | none => simp [hr] at h
          | some r =>
            simp only [hr, Option.map_some, Option.some.injEq] at h
            subst h
            have := ih r okr hr
            refine ⟨CSet.OK_cons.mpr ⟨ok2, this.1⟩, ?_⟩
            simp only [evalSet_cons, this.2, Bool.or_assoc]

theorem cleanLoop_sound (L : Laws) {ρ : Env} (hρ : Env.WF ρ) (rest new : List Conj)
    (okr : CSet.OK rest) (okn : CSet.OK new) :
    evalSet (cleanLoop new rest) ρ = (evalSet new ρ || evalSet rest ρ) := by
  induction rest generalizing new with
  | nil => simp [cleanLoop]
  | cons cc rest ih =>
    have ⟨okc, okr'⟩ := CSet.OK_cons.mp okr
    have okcc := L.clean_ok cc okc
    have hcc := L.clean_sound cc ρ okc hρ
    simp only [cleanLoop]
    split
    · next himp =>
      rw [ih new okr' okn, evalSet_cons, ← hcc, isImpossible_eq himp]
      simp
    · split
      · next new' ha =>
        have := absorb_sound L _ okcc hρ new new' okn ha
        rw [ih new' okr' this.1, this.2, hcc, evalSet_cons, Bool.or_assoc]
      · rw [ih _ okr' (CSet.OK_append.mpr ⟨okn, CSet.OK_cons.mpr ⟨okcc, CSet.OK_nil⟩⟩)]
        simp only [evalSet_append, evalSet_cons, evalSet_nil, hcc, Bool.or_false, Bool.or_assoc]

/-- the general (non simple-ID) result of `CSet.Clean` -/
def CSet.cleanGeneral (c : CSet) : CSet :=
  let new := cleanLoop [] c
  if new = [] ∧ c ≠ [] then [impossibleConj] else new

theorem cleanGeneral_sound (L : Laws) (cs : CSet) (ok : CSet.OK cs) {ρ : Env} (hρ : Env.WF ρ) :
    evalSet (CSet.cleanGeneral cs) ρ = evalSet cs ρ := by
  have h := cleanLoop_sound L hρ cs [] ok CSet.OK_nil
  simp only [evalSet_nil, Bool.false_or] at h
  unfold CSet.cleanGeneral
  simp only
  split
  · next hc =>
    rw [← h, hc.1]
    simp
  · exact h

theorem cleanGeneral_ne_nil (cs : CSet) (hne : cs ≠ []) : CSet.cleanGeneral cs ≠ [] := by
  unfold CSet.cleanGeneral
  simp only
  split
  · simp
  · next hc =>
    intro h
    exact hc ⟨h, hne⟩

theorem Clean_eq (cs : CSet) :
    CSet.Clean cs = match CSet.cleanSimpleID cs with
      | some r => r
      | none => CSet.cleanGeneral cs := rfl

/-- `Clean_sound` on the general path only -/
theorem Clean_sound_partial (L : Laws) (cs : CSet) (ok : CSet.OK cs) {ρ : Env} (hρ : Env.WF ρ)
    (hs : CSet.cleanSimpleID cs = none) : evalSet (CSet.Clean cs) ρ = evalSet cs ρ := by
  rw [Clean_eq, hs]
  exact cleanGeneral_sound L cs ok hρ

/-! ### 6b. simple-ID fast path -/

/-- stream ids are `uint64` in the Go code; `Stream.id` is an unbounded `Nat` and `Env.WF` does not
    bound it, so the bound needed by the simple-ID fast path is an explicit hypothesis -/
def Env.IdOK (ρ : Env) : Prop := (ρ "").id ≤ maxUint

/-- non-vacuity: the two environment hypotheses are jointly satisfiable -/
theorem wfEnv_idOK : Env.WF wfEnv ∧ Env.IdOK wfEnv :=
  ⟨wfEnv_wf, by simp [Env.IdOK, wfEnv]⟩

theorem evalNum_id_pos (ρ : Env) (nc : NumC) (s : NumSummand) (h : nc.sum = [s])
    (hty : s.ty = NumType.id) (hsq : s.sq = "") (hf : s.factor = 1) :
    evalCond (.num nc) ρ = decide (nc.n + ((ρ "").id : Int) ≥ 0) := by
  simp [evalCond, evalNum, numSumVal, numVar, h, hty, hsq, hf]

theorem evalNum_id_neg (ρ : Env) (nc : NumC) (s : NumSummand) (h : nc.sum = [s])
    (hty : s.ty = NumType.id) (hsq : s.sq = "") (hf : s.factor = -1) :
    evalCond (.num nc) ρ = decide (nc.n - ((ρ "").id : Int) ≥ 0) := by
  simp [evalCond, evalNum, numSumVal, numVar, h, hty, hsq, hf]
  omega

theorem extractLoop_spec (ρ : Env) (c : List Cond) (mn0 mx0 mn mx : Nat)
    (h : extractLoop c mn0 mx0 = some (mn, mx)) :
    (evalConj c ρ = true ∧ mn0 ≤ (ρ "").id ∧ (ρ "").id ≤ mx0) ↔
      (mn ≤ (ρ "").id ∧ (ρ "").id ≤ mx) := by
  induction c generalizing mn0 mx0 with
  | nil =>
    simp only [extractLoop, Option.some.injEq, Prod.mk.injEq] at h
    obtain ⟨rfl, rfl⟩ := h
    simp
  | cons x rest ih =>
    cases x with
    | num nc =>
      unfold extractLoop at h
      split at h
      · next s hs =>
        split at h
        · cases h
        · next hcond =>
          have hty : s.ty = NumType.id := by
            by_cases h1 : s.ty = NumType.id
            · exact h1
            · exact absurd (Or.inl h1) hcond
          have hsq : s.sq = "" := by
            by_cases h1 : s.sq = ""
            · exact h1
            · exact absurd (Or.inr h1) hcond
          split at h
          · next hf =>
            by_cases hc : nc.n ≤ 0 ∧ mn0 < (-nc.n).toNat
            · simp only [if_pos hc] at h
              have := ih _ _ h
              rw [evalConj_cons, evalNum_id_pos ρ nc s hs hty hsq hf, ← this]
              cases evalConj rest ρ
              · simp
              · simp only [Bool.and_true, decide_eq_true_eq, true_and]; omega
            · simp only [if_neg hc] at h
              have := ih _ _ h
              rw [evalConj_cons, evalNum_id_pos ρ nc s hs hty hsq hf, ← this]
              cases evalConj rest ρ
              · simp
              · simp only [Bool.and_true, decide_eq_true_eq, true_and]; omega
          · split at h
            · next hf =>
              split at h
              · cases h
              · next hn =>
                by_cases hc : mx0 > nc.n.toNat
                · simp only [if_pos hc] at h
                  have := ih _ _ h
                  rw [evalConj_cons, evalNum_id_neg ρ nc s hs hty hsq hf, ← this]
                  cases evalConj rest ρ
                  · simp
                  · simp only [Bool.and_true, decide_eq_true_eq, true_and]; omega
                · simp only [if_neg hc] at h
                  have := ih _ _ h
                  rw [evalConj_cons, evalNum_id_neg ρ nc s hs hty hsq hf, ← this]
                  cases evalConj rest ρ
                  · simp
                  · simp only [Bool.and_true, decide_eq_true_eq, true_and]; omega
            · cases h
      · cases h
    | tag _ => simp [extractLoop] at h
    | flag _ => simp [extractLoop] at h
    | host _ => simp [extractLoop] at h
    | time _ => simp [extractLoop] at h
    | data _ => simp [extractLoop] at h
    | impossible => simp [extractLoop] at h

theorem extractSimpleID_spec (ρ : Env) (hid : Env.IdOK ρ) (c : Conj) (mn : Nat)
    (h : Conj.extractSimpleID c = some (mn, mn)) : evalConj c ρ = true ↔ (ρ "").id = mn := by
  unfold Conj.extractSimpleID at h
  split at h
  · cases h
  · have := extractLoop_spec ρ c 0 maxUint mn mn h
    unfold Env.IdOK at hid
    constructor
    · intro hc
      have := this.mp ⟨hc, Nat.zero_le _, hid⟩
      omega
    · intro he
      exact (this.mpr (by omega)).1

theorem simpleIDs_nil (cs : CSet) (h : simpleIDs cs = some []) : cs = [] := by
  cases cs with
  | nil => rfl
  | cons cc rest =>
    exfalso
    simp only [simpleIDs] at h
    split at h
    · split at h
      · cases h
      · cases hr : simpleIDs rest with
        | none => simp [hr] at h
        | some ids' => simp [hr] at h
    · cases h

theorem simpleIDs_spec (L : Laws) {ρ : Env} (hρ : Env.WF ρ) (hid : Env.IdOK ρ) (cs : CSet)
    (ok : CSet.OK cs) (ids : List Nat) (h : simpleIDs cs = some ids) :
    (evalSet cs ρ = true ↔ (ρ "").id ∈ ids) ∧ (ids = [] → cs = []) := by
  induction cs generalizing ids with
  | nil =>
    simp only [simpleIDs, Option.some.injEq] at h
    subst h
    simp
  | cons cc rest ih =>
    have ⟨okc, okr⟩ := CSet.OK_cons.mp ok
    simp only [simpleIDs] at h
    split at h
    · next mn mx hex =>
      split at h
      · cases h
      · next hmm =>
        have hmm : mn = mx := by
          by_cases h1 : mn = mx
          · exact h1
          · exact absurd h1 hmm
        subst hmm
        cases hr : simpleIDs rest with
        | none => simp [hr] at h
        | some ids' =>
          simp only [hr, Option.map_some, Option.some.injEq] at h
          subst h
          have hcc := extractSimpleID_spec ρ hid _ mn hex
          rw [L.clean_sound cc ρ okc hρ] at hcc
          have := (ih okr ids' hr).1
          refine ⟨?_, by simp⟩
          simp only [evalSet_cons, Bool.or_eq_true, List.mem_cons, hcc, this]
    · cases h

theorem mem_dedupSorted (x : Nat) (l : List Nat) : x ∈ dedupSorted l ↔ x ∈ l := by
  fun_induction dedupSorted l <;> simp_all

theorem idRuns_spec (id : Nat) (l : List Nat) (lo hi : Nat) (hle : lo ≤ hi) :
    (∃ r ∈ idRuns lo hi l, r.1 ≤ id ∧ id ≤ r.2) ↔ ((lo ≤ id ∧ id ≤ hi) ∨ id ∈ l) := by
  induction l generalizing lo hi with
  | nil => simp [idRuns]
  | cons x rest ih =>
    simp only [idRuns]
    split
    · next hx =>
      rw [ih lo x (by omega)]
      simp only [List.mem_cons]
      by_cases hm : id ∈ rest
      · simp [hm]
      · simp only [hm, or_false]; omega
    · simp only [List.mem_cons, or_and_right, exists_or, exists_eq_left, ih x x (Nat.le_refl _)]
      by_cases hm : id ∈ rest
      · simp [hm]
      · simp only [hm, or_false]; omega

theorem idRuns_ne_nil (l : List Nat) (lo hi : Nat) : idRuns lo hi l ≠ [] := by
  induction l generalizing lo hi with
  | nil => simp [idRuns]
  | cons x rest ih =>
    simp only [idRuns]
    split
    · exact ih _ _
    · simp

theorem evalConj_idRange (ρ : Env) (lo hi : Nat) :
    evalConj (idRangeConj lo hi) ρ = true ↔ (lo ≤ (ρ "").id ∧ (ρ "").id ≤ hi) := by
  simp [idRangeConj, evalCond, evalNum, numSumVal, numVar, NumType.id]
  omega

theorem evalSet_idRanges (ρ : Env) (runs : List (Nat × Nat)) :
    evalSet (runs.map (fun r => idRangeConj r.1 r.2)) ρ = true ↔
      ∃ r ∈ runs, r.1 ≤ (ρ "").id ∧ (ρ "").id ≤ r.2 := by
  simp only [evalSet, List.any_map, List.any_eq_true, Function.comp, evalConj_idRange]

theorem simpleID_sound (L : Laws) (cs : CSet) (ok : CSet.OK cs) {ρ : Env} (hρ : Env.WF ρ)
    (hid : Env.IdOK ρ) (r : CSet) (h : CSet.cleanSimpleID cs = some r) :
    evalSet r ρ = evalSet cs ρ := by
  unfold CSet.cleanSimpleID at h
  split at h
  · cases h
  · next hne =>
    split at h
    · cases h
    · next ids hids =>
      have hspec := simpleIDs_spec L hρ hid cs ok ids hids
      have hmem : ∀ x, x ∈ dedupSorted (isort (fun a b => decide (a < b)) ids) ↔ x ∈ ids := by
        intro x; rw [mem_dedupSorted, mem_isort]
      apply Bool.eq_iff_iff.mpr
      rw [hspec.1, ← hmem]
      split at h
      · next hd =>
        exfalso
        apply hne
        apply hspec.2
        cases ids with
        | nil => rfl
        | cons a t =>
          have := (hmem a).mpr (by simp)
          rw [hd] at this
          cases this
      · next x rest hd =>
        simp only [Option.some.injEq] at h
        subst h
        rw [hd, evalSet_idRanges, idRuns_spec _ _ _ _ (Nat.le_refl _), List.mem_cons]
        by_cases hm : (ρ "").id ∈ rest
        · simp [hm]
        · simp only [hm, or_false]; omega

theorem simpleID_ne_nil (cs : CSet) (r : CSet) (h : CSet.cleanSimpleID cs = some r) : r ≠ [] := by
  unfold CSet.cleanSimpleID at h
  split at h
  · cases h
  · next hne =>
    split at h
    · cases h
    · next ids hids =>
      split at h
      · next hd =>
        exfalso
        apply hne
        apply simpleIDs_nil cs
        cases ids with
        | nil => exact hids
        | cons a t =>
          have : a ∈ dedupSorted (isort (fun a b => decide (a < b)) (a :: t)) := by
            rw [mem_dedupSorted, mem_isort]; simp
          rw [hd] at this
          cases this
      · next x rest hd =>
        simp only [Option.some.injEq] at h
        subst h
        simp [idRuns_ne_nil]

/-! ### 6. `ConditionsSet.Clean` -/

/- Contract statement (FALSE in the model, see `Env.IdOK`: for `cs = [[id - maxUint ≥ 0]]` and a stream
   with id `2^64` the fast path turns a true set into a false one):
     theorem Clean_sound (L : Laws) (cs : CSet) (ok : CSet.OK cs) (hρ : Env.WF ρ) :
       evalSet (CSet.Clean cs) ρ = evalSet cs ρ
   Proved with the extra hypothesis `hid : Env.IdOK ρ`; `Clean_sound_partial` (general path only)
   needs no bound. -/
theorem Clean_sound (L : Laws) (cs : CSet) (ok : CSet.OK cs) {ρ : Env} (hρ : Env.WF ρ)
    (hid : Env.IdOK ρ) : evalSet (CSet.Clean cs) ρ = evalSet cs ρ := by
  rw [Clean_eq]
  split
  · next r h => exact simpleID_sound L cs ok hρ hid r h
  · exact cleanGeneral_sound L cs ok hρ

theorem Clean_ne_nil (cs : CSet) (hne : cs ≠ []) : CSet.Clean cs ≠ [] := by
  rw [Clean_eq]
  split
  · next r h => exact simpleID_ne_nil cs r h
  · exact cleanGeneral_ne_nil cs hne

theorem Clean_impossible (L : Laws) (cs : CSet) (ok : CSet.OK cs) {ρ : Env} (hρ : Env.WF ρ)
    (hid : Env.IdOK ρ) (h : CSet.isImpossible (CSet.Clean cs) = true) : evalSet cs ρ = false := by
  rw [← Clean_sound L cs ok hρ hid]
  revert h
  generalize CSet.Clean cs = c
  intro h
  unfold CSet.isImpossible at h
  split at h
  · next x => rw [isImpossible_eq h]; simp
  · cases h

/-! ### 7. `finish` -/

theorem finish_none (ρ : Env) : evalParsed (finish none) ρ = true := by
  simp [finish, evalParsed]

theorem finish_sound (L : Laws) (cs : CSet) (hne : cs ≠ []) (ok : CSet.OK cs) {ρ : Env}
    (hρ : Env.WF ρ) (hid : Env.IdOK ρ) : evalParsed (finish (some cs)) ρ = evalSet cs ρ := by
  unfold finish
  simp only
  split
  · next h => simp only [evalParsed]; exact (Clean_impossible L cs ok hρ hid h).symm
  · rw [if_neg (Clean_ne_nil cs hne)]
    simp only [evalParsed]
    exact Clean_sound L cs ok hρ hid

theorem finish_nothing (L : Laws) (cs : CSet) (ok : CSet.OK cs) {ρ : Env}
    (hρ : Env.WF ρ) (hid : Env.IdOK ρ) (h : finish (some cs) = .nothing) : evalSet cs ρ = false := by
  unfold finish at h
  simp only at h
  split at h
  · next hi => exact Clean_impossible L cs ok hρ hid hi
  · split at h <;> cases h

/-! ### 8. translation -/

/-- the fragment covered by `translate_sound`: no sort/limit/group terms, non-empty AND/OR lists,
    THEN only with a single operand -/
inductive Frag : Expr → Prop
  | term (t : Term) : Frag (.term t)
  | not {e : Expr} : Frag e → Frag (.not e)
  | grp {e : Expr} : Frag e → Frag (.grp e)
  | and {es : List Expr} : es ≠ [] → (∀ e ∈ es, Frag e) → Frag (.and es)
  | or {es : List Expr} : es ≠ [] → (∀ e ∈ es, Frag e) → Frag (.or es)
  | seq1 {e : Expr} : Frag e → Frag (.seq [e])

/-- every term of the expression satisfies `P` -/
inductive TermsOf (P : Term → Prop) : Expr → Prop
  | term {t : Term} : P t → TermsOf P (.term t)
  | aux : TermsOf P .aux
  | not {e : Expr} : TermsOf P e → TermsOf P (.not e)
  | grp {e : Expr} : TermsOf P e → TermsOf P (.grp e)
  | and {es : List Expr} : (∀ e ∈ es, TermsOf P e) → TermsOf P (.and es)
  | or {es : List Expr} : (∀ e ∈ es, TermsOf P e) → TermsOf P (.or es)
  | seq {es : List Expr} : (∀ e ∈ es, TermsOf P e) → TermsOf P (.seq es)

/-- structural induction over the nested AST -/
theorem exprInd {P : Expr → Prop} (term : ∀ t, P (.term t)) (aux : P .aux)
    (not : ∀ e, P e → P (.not e)) (grp : ∀ e, P e → P (.grp e))
    (and : ∀ es, (∀ e ∈ es, P e) → P (.and es)) (or : ∀ es, (∀ e ∈ es, P e) → P (.or es))
    (seq : ∀ es, (∀ e ∈ es, P e) → P (.seq es)) : ∀ e, P e :=
  go
where
  go : ∀ e, P e
    | .term t => term t
    | .aux => aux
    | .not e => not e (go e)
    | .grp e => grp e (go e)
    | .and es => and es (goL es)
    | .or es => or es (goL es)
    | .seq es => seq es (goL es)
  goL : ∀ es : List Expr, ∀ e ∈ es, P e
    | [] => fun e he => by cases he
    | x :: xs => fun e he => by
      rcases List.mem_cons.mp he with h | h
      · rw [h]; exact go x
      · exact goL xs e h

/-- executable version of `Frag` (for concrete expressions: `Frag_of_fragB _ (by decide)`) -/
def fragB : Expr → Bool
  | .term _ => true
  | .aux => false
  | .not e => fragB e
  | .grp e => fragB e
  | .and es => !es.isEmpty && allB es
  | .or es => !es.isEmpty && allB es
  | .seq es => es.length == 1 && allB es
where
  allB : List Expr → Bool
    | [] => true
    | e :: es => fragB e && allB es

theorem fragB.allB_mem {es : List Expr} (h : fragB.allB es = true) : ∀ e ∈ es, fragB e = true := by
  induction es with
  | nil => intro e he; cases he
  | cons x xs ih =>
    simp only [fragB.allB, Bool.and_eq_true] at h
    intro e he
    rcases List.mem_cons.mp he with rfl | he
    · exact h.1
    · exact ih h.2 e he

theorem Frag_of_fragB (e : Expr) : fragB e = true → Frag e := by
  induction e using exprInd with
  | term t => intro _; exact Frag.term t
  | aux => intro h; simp [fragB] at h
  | not e ih => intro h; simp only [fragB] at h; exact Frag.not (ih h)
  | grp e ih => intro h; simp only [fragB] at h; exact Frag.grp (ih h)
  | and es ih =>
    intro h
    simp only [fragB, Bool.and_eq_true, Bool.not_eq_true', List.isEmpty_eq_false_iff] at h
    exact Frag.and h.1 (fun e he => ih e he (fragB.allB_mem h.2 e he))
  | or es ih =>
    intro h
    simp only [fragB, Bool.and_eq_true, Bool.not_eq_true', List.isEmpty_eq_false_iff] at h
    exact Frag.or h.1 (fun e he => ih e he (fragB.allB_mem h.2 e he))
  | seq es ih =>
    intro h
    simp only [fragB, Bool.and_eq_true, beq_iff_eq] at h
    match es, h, ih with
    | [e], h, ih => exact Frag.seq1 (ih e (by simp) (fragB.allB_mem h.2 e (by simp)))
    | [], h, _ => simp at h
    | _ :: _ :: _, h, _ => simp at h

/-- executable version of `TermsOf` for a decidable term predicate -/
def termsB (p : Term → Bool) : Expr → Bool
  | .term t => p t
  | .aux => true
  | .not e => termsB p e
  | .grp e => termsB p e
  | .and es => allB p es
  | .or es => allB p es
  | .seq es => allB p es
where
  allB (p : Term → Bool) : List Expr → Bool
    | [] => true
    | e :: es => termsB p e && allB p es

theorem termsB.allB_mem {p : Term → Bool} {es : List Expr} (h : termsB.allB p es = true) :
    ∀ e ∈ es, termsB p e = true := by
  induction es with
  | nil => intro e he; cases he
  | cons x xs ih =>
    simp only [termsB.allB, Bool.and_eq_true] at h
    intro e he
    rcases List.mem_cons.mp he with rfl | he
    · exact h.1
    · exact ih h.2 e he

theorem TermsOf_of_termsB {P : Term → Prop} (p : Term → Bool) (hp : ∀ t, p t = true → P t)
    (e : Expr) : termsB p e = true → TermsOf P e := by
  induction e using exprInd with
  | term t => intro h; simp only [termsB] at h; exact TermsOf.term (hp t h)
  | aux => intro _; exact TermsOf.aux
  | not e ih => intro h; simp only [termsB] at h; exact TermsOf.not (ih h)
  | grp e ih => intro h; simp only [termsB] at h; exact TermsOf.grp (ih h)
  | and es ih =>
    intro h; simp only [termsB] at h
    exact TermsOf.and (fun e he => ih e he (termsB.allB_mem h e he))
  | or es ih =>
    intro h; simp only [termsB] at h
    exact TermsOf.or (fun e he => ih e he (termsB.allB_mem h e he))
  | seq es ih =>
    intro h; simp only [termsB] at h
    exact TermsOf.seq (fun e he => ih e he (termsB.allB_mem h e he))

/-- the term-level law the translation is relative to -/
def TermLaw (ref : Int) (P : Term → Prop) : Prop :=
  ∀ t g ρ, P t → Env.WF ρ → trTerm ref t = .ok g →
    ∃ cs, g = some cs ∧ cs ≠ [] ∧ CSet.OK cs ∧ evalSet cs ρ = evalTerm ref t ρ

/-- a translation result that is a non-nil, non-empty, well-shaped set with value `b` -/
def Good (g : GSet) (b : Bool) (ρ : Env) : Prop :=
  ∃ cs, g = some cs ∧ cs ≠ [] ∧ CSet.OK cs ∧ evalSet cs ρ = b

theorem Good.of_items {g : GSet} {b : Bool} {ρ : Env} (h1 : g.items ≠ []) (h2 : CSet.OK g.items)
    (h3 : evalSet g.items ρ = b) : Good g b ρ := by
  cases g with
  | none => exact absurd rfl h1
  | some cs => exact ⟨cs, rfl, h1, h2, h3⟩

theorem Good.items {g : GSet} {b : Bool} {ρ : Env} (h : Good g b ρ) :
    g.items ≠ [] ∧ CSet.OK g.items ∧ evalSet g.items ρ = b := by
  obtain ⟨cs, rfl, h1, h2, h3⟩ := h
  exact ⟨h1, h2, h3⟩

theorem translateList_and (L : Laws) (ref : Int) {ρ : Env} (hρ : Env.WF ρ) (es : List Expr)
    (ih : ∀ e ∈ es, ∀ g, translate ref e = .ok g → Good g (evalExpr ref ρ e) ρ)
    (acc g : GSet) (h : translateList ref GSet.And es acc = .ok g) :
    (acc = none → es ≠ [] → Good g (evalExpr.evalExprAll ref ρ es) ρ) ∧
    (∀ b, Good acc b ρ → Good g (b && evalExpr.evalExprAll ref ρ es) ρ) := by
  induction es generalizing acc with
  | nil =>
    simp only [translateList, Outcome.ok.injEq] at h
    subst h
    simp [evalExpr.evalExprAll]
  | cons e rest ihl =>
    have ihe := ih e (by simp)
    have ihr : ∀ e ∈ rest, ∀ g, translate ref e = .ok g → Good g (evalExpr ref ρ e) ρ :=
      fun e he => ih e (by simp [he])
    simp only [translateList] at h
    cases ht : translate ref e with
    | ok g1 =>
      have hg1 := ihe g1 ht
      obtain ⟨cs, rfl, h1, h2, h3⟩ := hg1
      simp only [ht] at h
      constructor
      · intro hacc _
        subst hacc
        rw [and_left_empty none (some cs) rfl] at h
        have := (ihl ihr (some cs) h).2 (evalExpr ref ρ e) ⟨cs, rfl, h1, h2, h3⟩
        simpa [evalExpr.evalExprAll] using this
      · intro b hb
        have hb' := hb.items
        have hgood : Good (GSet.And acc (some cs)) (b && evalExpr ref ρ e) ρ := by
          apply Good.of_items
          · exact and_ne_nil acc (some cs) hb'.1 h1
          · exact and_ok L acc (some cs) hb'.2.1 h2
          · rw [and_sound L acc (some cs) hb'.1 h1 hb'.2.1 h2 hρ, hb'.2.2]
            simp [h3]
        have := (ihl ihr _ h).2 _ hgood
        simpa [evalExpr.evalExprAll, Bool.and_assoc] using this
    | err m => simp [ht] at h
    | panic m => simp [ht] at h
    | diverged m => simp [ht] at h

theorem translateList_or (ref : Int) {ρ : Env} (es : List Expr)
    (ih : ∀ e ∈ es, ∀ g, translate ref e = .ok g → Good g (evalExpr ref ρ e) ρ)
    (acc g : GSet) (h : translateList ref GSet.Or es acc = .ok g) :
    (acc = none → es ≠ [] → Good g (evalExpr.evalExprAny ref ρ es) ρ) ∧
    (∀ b, Good acc b ρ → Good g (b || evalExpr.evalExprAny ref ρ es) ρ) := by
  induction es generalizing acc with
  | nil =>
    simp only [translateList, Outcome.ok.injEq] at h
    subst h
    simp [evalExpr.evalExprAny]
  | cons e rest ihl =>
    have ihe := ih e (by simp)
    have ihr : ∀ e ∈ rest, ∀ g, translate ref e = .ok g → Good g (evalExpr ref ρ e) ρ :=
      fun e he => ih e (by simp [he])
    simp only [translateList] at h
    cases ht : translate ref e with
    | ok g1 =>
      have hg1 := ihe g1 ht
      obtain ⟨cs, rfl, h1, h2, h3⟩ := hg1
      simp only [ht] at h
      constructor
      · intro hacc _
        subst hacc
        have hgood : Good (GSet.Or none (some cs)) (evalExpr ref ρ e) ρ := by
          apply Good.of_items
          · exact or_ne_nil_right none (some cs) h1
          · exact or_ok none (some cs) CSet.OK_nil h2
          · rw [or_sound]; simp [h3]
        have := (ihl ihr _ h).2 _ hgood
        simpa [evalExpr.evalExprAny] using this
      · intro b hb
        have hb' := hb.items
        have hgood : Good (GSet.Or acc (some cs)) (b || evalExpr ref ρ e) ρ := by
          apply Good.of_items
          · exact or_ne_nil_right acc (some cs) h1
          · exact or_ok acc (some cs) hb'.2.1 h2
          · rw [or_sound, hb'.2.2]; simp [h3]
        have := (ihl ihr _ h).2 _ hgood
        simpa [evalExpr.evalExprAny, Bool.or_assoc] using this
    | err m => simp [ht] at h
    | panic m => simp [ht] at h
    | diverged m => simp [ht] at h

theorem translate_good (L : Laws) (ref : Int) (P : Term → Prop) (T : TermLaw ref P) (e : Expr)
    (hf : Frag e) (hp : TermsOf P e) (ρ : Env) (hρ : Env.WF ρ) (g : GSet)
    (h : translate ref e = .ok g) : Good g (evalExpr ref ρ e) ρ := by
  induction hf generalizing g with
  | term t =>
    cases hp with
    | term hpt =>
      simp only [translate] at h
      simpa [evalExpr, Good] using T t g ρ hpt hρ h
  | @not e hfe ih =>
    cases hp with
    | not hpe =>
      simp only [translate] at h
      cases ht : translate ref e with
      | ok g1 =>
        obtain ⟨cs, rfl, h1, h2, h3⟩ := ih hpe g1 ht
        simp only [ht, Outcome.ok.injEq] at h
        subst h
        have := invert_set_all L cs h1 h2 hρ
        apply Good.of_items this.1 this.2.1
        rw [this.2.2, h3]
        simp [evalExpr]
      | err m => simp [ht] at h
      | panic m => simp [ht] at h
      | diverged m => simp [ht] at h
  | @grp e hfe ih =>
    cases hp with
    | grp hpe =>
      simp only [translate] at h
      simpa [evalExpr] using ih hpe g h
  | @and es hne hall ih =>
    cases hp with
    | and hpe =>
      simp only [translate] at h
      have := (translateList_and L ref hρ es (fun e he g hg => ih e he (hpe e he) g hg) none g h).1
        rfl hne
      simpa [evalExpr] using this
  | @or es hne hall ih =>
    cases hp with
    | or hpe =>
      simp only [translate] at h
      have := (translateList_or ref es (fun e he g hg => ih e he (hpe e he) g hg) none g h).1
        rfl hne
      simpa [evalExpr] using this
  | @seq1 e hfe ih =>
    cases hp with
    | seq hpe =>
      simp only [translate, translateList] at h
      cases ht : translate ref e with
      | ok g1 =>
        obtain ⟨cs, rfl, h1, h2, h3⟩ := ih (hpe e (by simp)) g1 ht
        simp only [ht, Outcome.ok.injEq] at h
        subst h
        refine ⟨cs, ?_, h1, h2, ?_⟩
        · simp [GSet.seq]
        · simp [evalExpr, evalExpr.evalExprAll, h3]
      | err m => simp [ht] at h
      | panic m => simp [ht] at h
      | diverged m => simp [ht] at h

theorem translate_sound (L : Laws) (ref : Int) (P : Term → Prop) (T : TermLaw ref P) (e : Expr)
    (hf : Frag e) (hp : TermsOf P e) (g : GSet) (h : translate ref e = .ok g) (ρ : Env)
    (hρ : Env.WF ρ) :
    ∃ cs, g = some cs ∧ cs ≠ [] ∧ CSet.OK cs ∧ evalSet cs ρ = evalExpr ref ρ e :=
  translate_good L ref P T e hf hp ρ hρ g h

theorem normalise_sound_of_laws (L : Laws) (ref : Int) (P : Term → Prop) (T : TermLaw ref P)
    (e : Expr) (hf : Frag e) (hp : TermsOf P e) (p : Parsed) (h : parse ref e = .ok p) (ρ : Env)
    (hρ : Env.WF ρ) (hid : Env.IdOK ρ) : evalParsed p ρ = evalExpr ref ρ e := by
  unfold parse at h
  cases ht : translate ref e with
  | ok g =>
    obtain ⟨cs, rfl, h1, h2, h3⟩ := translate_sound L ref P T e hf hp g ht ρ hρ
    simp only [ht, Outcome.ok.injEq] at h
    subst h
    rw [finish_sound L cs h1 h2 hρ hid, h3]
  | err m => simp [ht] at h
  | panic m => simp [ht] at h
  | diverged m => simp [ht] at h

theorem impossible_only_if_unsat_of_laws (L : Laws) (ref : Int) (P : Term → Prop)
    (T : TermLaw ref P) (e : Expr) (hf : Frag e) (hp : TermsOf P e)
    (h : parse ref e = .ok .nothing) : ∀ ρ, Env.WF ρ → Env.IdOK ρ → evalExpr ref ρ e = false := by
  intro ρ hρ hid
  rw [← normalise_sound_of_laws L ref P T e hf hp _ h ρ hρ hid]
  rfl

/-! ### why `Env.IdOK` is needed -/

/-- `Clean_sound` without `Env.IdOK` is false in the model: `id ≥ 2^64-1` is rewritten by the
    simple-ID fast path to `id = 2^64-1`, which differs on a (model-only) stream with id `2^64`. -/
theorem Clean_needs_idOK : ∃ (cs : CSet) (ρ : Env), CSet.OK cs ∧ Env.WF ρ ∧
    evalSet (CSet.Clean cs) ρ = false ∧ evalSet cs ρ = true := by
  refine ⟨[[.num { sum := [{ sq := "", factor := 1, ty := 0 }], n := -(2 ^ 64 - 1) }]],
    fun _ => { wfEnv "" with id := 2 ^ 64 }, ?_, ?_, by decide, by decide⟩
  · intro c hc x hx
    simp only [List.mem_cons, List.not_mem_nil, or_false] at hc
    subst hc
    simp only [List.mem_cons, List.not_mem_nil, or_false] at hx
    subst hx
    trivial
  · intro sq; simp [wfEnv]

end Pk.Query
