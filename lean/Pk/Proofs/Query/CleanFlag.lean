/-
  `cleanFlag` (cleanFlagConditions) preserves the meaning of a conjunction of flag conditions that
  satisfy `FlagC.OK` (mask below 4, value a sub-mask of the mask; any list of sub-queries), and
  its output satisfies `FlagC.OK` again.
-/
import Pk.Proofs.Query.Basic

namespace Pk.Query

/-! ### bit helpers -/

theorem CleanFlag.and_small' (x b n : Nat) (hb : b < 2 ^ n) : x &&& b = (x % 2 ^ n) &&& b := by
  have h1 : x &&& b < 2 ^ n := Nat.and_lt_two_pow x hb
  have h2 : (x &&& b) % 2 ^ n = (x % 2 ^ n) &&& (b % 2 ^ n) := Nat.and_mod_two_pow
  rw [Nat.mod_eq_of_lt h1, Nat.mod_eq_of_lt hb] at h2
  exact h2

open CleanFlag

theorem CleanFlag.and_lt4 (x m : Nat) (hm : m < 4) : x &&& m = (x % 4) &&& m :=
  and_small' x m 2 hm

theorem CleanFlag.xor_and_lt4 (x v m : Nat) (hm : m < 4) : (x ^^^ v) &&& m = ((x % 4) ^^^ (v % 4)) &&& m := by
  rw [and_small' (x ^^^ v) m 2 hm, Nat.xor_mod_two_pow]

theorem CleanFlag.value_lt4 (f : FlagC) (h : f.OK) : f.value < 4 := by
  have : f.value &&& f.mask ≤ f.mask := Nat.and_le_right
  rw [h.2] at this
  exact Nat.lt_of_le_of_lt this h.1

/-! ### the finite core: one group of conditions over the two protocol bits -/

/-- forbidden bitmap of a group as a table over `v % 4` -/
def CleanFlag.tbl (g0 g1 g2 g3 : Bool) (v : Nat) : Bool :=
  match v % 4 with
  | 0 => g0
  | 1 => g1
  | 2 => g2
  | _ => g3

def CleanFlag.relGU (U : Nat) (G : Nat → Bool) (b : Nat) : Bool :=
  (subMasksDesc U).any (fun v => G v != G (v ^^^ 2 ^ b))

def CleanFlag.maskGU (U : Nat) (G : Nat → Bool) : Nat :=
  ([0, 1].filter (fun b => U.testBit b && relGU U G b)).foldl (fun m b => m ||| 2 ^ b) 0

def CleanFlag.emitVal (G : Nat → Bool) (m x : Nat) : Bool :=
  if m = 0 then !G 0
  else ((subMasksDesc m).filter G).all (fun v => ((x ^^^ (v % 4)) &&& m) != 0)

/-- when the forbidden bitmap only depends on the bits of the union `U`, the emitted conditions say
    exactly that the stream's bits are not forbidden -/
theorem CleanFlag.fin_key : ∀ U : Fin 4, ∀ g0 g1 g2 g3 : Bool,
    (∀ v : Fin 4, tbl g0 g1 g2 g3 v.val = tbl g0 g1 g2 g3 (v.val &&& U.val)) → ∀ x : Fin 4,
    emitVal (tbl g0 g1 g2 g3) (maskGU U.val (tbl g0 g1 g2 g3)) x.val = !tbl g0 g1 g2 g3 x.val := by
  decide

theorem CleanFlag.maskGU_lt (U : Nat) (G : Nat → Bool) : maskGU U G < 4 := by
  unfold maskGU
  simp only [List.filter_cons, List.filter_nil]
  split <;> split <;> decide

theorem CleanFlag.subMasks_fin : ∀ m : Fin 4, (subMasksDesc m.val).all (fun v => decide (v &&& m.val = v)) = true := by
  decide

theorem CleanFlag.or_and_fin : ∀ R u m : Fin 4, R.val &&& (u.val ||| m.val) = (u.val ||| m.val) →
    R.val &&& u.val = u.val ∧ R.val &&& m.val = m.val := by decide

theorem CleanFlag.neq_fin : ∀ a m v : Fin 4, v.val &&& m.val = v.val →
    ((((a.val ^^^ v.val) &&& m.val) != 0) = !decide (a.val &&& m.val = v.val)) := by decide

/-! ### one `FlagInfo` -/

/-- `sort.Strings` + removal of equal pairs: the grouping key of a condition -/
def CleanFlag.skey (sqs : List String) : List String := cancelPairs (isort (fun a b => decide (a < b)) sqs)

theorem CleanFlag.foldl_xor_cancelPairs (ρ : Env) (l : List String) (init : Nat) :
    (cancelPairs l).foldl (fun x s => x ^^^ (ρ s).flags) init = l.foldl (fun x s => x ^^^ (ρ s).flags) init := by
  fun_induction cancelPairs l generalizing init with
  | case1 a rest ih =>
    simp only [List.foldl_cons, Nat.xor_assoc, Nat.xor_self, Nat.xor_zero]
    exact ih init
  | case2 a b rest hne ih =>
    simp only [List.foldl_cons] at ih ⊢
    exact ih _
  | case3 l h => rfl

/-- sorting and cancelling equal pairs does not change the xor of the flags -/
theorem CleanFlag.xorFlags_skey (ρ : Env) (sqs : List String) : xorFlags ρ (skey sqs) = xorFlags ρ sqs := by
  unfold xorFlags skey
  rw [foldl_xor_cancelPairs]
  apply List.Perm.foldl_eq' (isort_perm _ sqs)
  intro x _ y _ z
  rw [Nat.xor_assoc, Nat.xor_assoc, Nat.xor_comm (ρ x).flags]

def CleanFlag.WFI (i : FlagInfo) : Prop :=
  i.conds ≠ [] ∧ ∀ fc ∈ i.conds, skey fc.sqs = i.sqs ∧ fc.OK

theorem CleanFlag.forbidden_mod (i : FlagInfo) (hw : WFI i) (v : Nat) : i.forbidden v = i.forbidden (v % 4) := by
  unfold FlagInfo.forbidden
  have : ∀ l : List FlagC, (∀ fc ∈ l, fc.mask < 4) →
      l.any (fun fc => decide (v &&& fc.mask = fc.value)) = l.any (fun fc => decide (v % 4 &&& fc.mask = fc.value)) := by
    intro l hl
    induction l with
    | nil => rfl
    | cons fc l ih =>
      have h3 := hl fc (by simp)
      simp only [List.any_cons, ih (fun x hx => hl x (by simp [hx]))]
      rw [and_lt4 v fc.mask h3]
  exact this i.conds (fun fc hfc => (hw.2 fc hfc).2.1)

theorem CleanFlag.forbidden_tbl (i : FlagInfo) (hw : WFI i) :
    i.forbidden = tbl (i.forbidden 0) (i.forbidden 1) (i.forbidden 2) (i.forbidden 3) := by
  funext v
  rw [forbidden_mod i hw v]
  unfold tbl
  have hlt : v % 4 < 4 := Nat.mod_lt _ (by decide)
  generalize v % 4 = r at hlt ⊢
  match r, hlt with
  | 0, _ => rfl
  | 1, _ => rfl
  | 2, _ => rfl
  | 3, _ => rfl

/-- the union of the masks is below 4 and contains every mask of the group -/
theorem CleanFlag.union_facts (i : FlagInfo) (hw : WFI i) :
    i.union < 4 ∧ ∀ fc ∈ i.conds, i.union &&& fc.mask = fc.mask := by
  unfold FlagInfo.union
  have : ∀ (l : List FlagC) (u : Nat), (∀ fc ∈ l, fc.mask < 4) → u < 4 →
      l.foldl (fun u fc => u ||| (fc.mask % 65536)) u < 4 ∧
      l.foldl (fun u fc => u ||| (fc.mask % 65536)) u &&& u = u ∧
      ∀ fc ∈ l, l.foldl (fun u fc => u ||| (fc.mask % 65536)) u &&& fc.mask = fc.mask := by
    intro l
    induction l with
    | nil => intro u _ hu; exact ⟨hu, Nat.and_self u, by simp⟩
    | cons fc l ih =>
      intro u hl hu
      have hm : fc.mask < 4 := hl fc (by simp)
      have hmod : fc.mask % 65536 = fc.mask := Nat.mod_eq_of_lt (by omega)
      have hu' : u ||| fc.mask < 4 := Nat.or_lt_two_pow (n := 2) hu hm
      simp only [List.foldl_cons, hmod]
      obtain ⟨h1, h2, h3⟩ := ih (u ||| fc.mask) (fun x hx => hl x (by simp [hx])) hu'
      have := or_and_fin ⟨_, h1⟩ ⟨u, hu⟩ ⟨fc.mask, hm⟩ h2
      refine ⟨h1, this.1, ?_⟩
      intro x hx
      rcases List.mem_cons.mp hx with e | e
      · subst e; exact this.2
      · exact h3 x e
  have h := this i.conds 0 (fun fc hfc => (hw.2 fc hfc).2.1) (by decide)
  exact ⟨h.1, h.2.2⟩

/-- the forbidden bitmap only depends on the bits of the union -/
theorem CleanFlag.forbidden_union (i : FlagInfo) (hw : WFI i) (v : Nat) :
    i.forbidden v = i.forbidden (v &&& i.union) := by
  have hU := (union_facts i hw).2
  unfold FlagInfo.forbidden
  generalize i.union = U at hU
  have : ∀ l : List FlagC, (∀ fc ∈ l, U &&& fc.mask = fc.mask) →
      l.any (fun fc => decide (v &&& fc.mask = fc.value)) = l.any (fun fc => decide (v &&& U &&& fc.mask = fc.value)) := by
    intro l hl
    induction l with
    | nil => rfl
    | cons fc l ih =>
      simp only [List.any_cons, ih (fun x hx => hl x (by simp [hx]))]
      rw [Nat.and_assoc, hl fc (by simp)]
  exact this i.conds hU

theorem CleanFlag.range16 : List.range 16 = [0, 1, 2, 3, 4, 5, 6, 7, 8, 9, 10, 11, 12, 13, 14, 15] := by decide

theorem CleanFlag.mask_eq (i : FlagInfo) (hw : WFI i) : i.mask = maskGU i.union i.forbidden := by
  have hU := (union_facts i hw).1
  have hrel : ∀ b, i.relevant b = relGU i.union i.forbidden b := fun _ => rfl
  unfold FlagInfo.mask maskGU
  rw [range16]
  simp only [hrel]
  have tf : ∀ k, 2 ≤ k → Nat.testBit i.union k = false := by
    intro k h1
    exact Nat.testBit_lt_two_pow (Nat.lt_of_lt_of_le (by simpa using hU : i.union < 2 ^ 2) (Nat.pow_le_pow_right (by decide) h1))
  simp only [List.filter_cons, Bool.false_and, Bool.false_eq_true, if_false,
    tf 2 (by decide), tf 3 (by decide), tf 4 (by decide),
    tf 5 (by decide), tf 6 (by decide), tf 7 (by decide),
    tf 8 (by decide), tf 9 (by decide), tf 10 (by decide),
    tf 11 (by decide), tf 12 (by decide), tf 13 (by decide),
    tf 14 (by decide), tf 15 (by decide), List.filter_nil]

/-- the conditions of a group say: the protocol bits of the stream are not forbidden -/
theorem CleanFlag.group_sem (i : FlagInfo) (ρ : Env) (hw : WFI i) :
    i.conds.all (fun fc => evalFlag fc ρ) = !i.forbidden (xorFlags ρ i.sqs) := by
  unfold FlagInfo.forbidden
  have : ∀ l : List FlagC, (∀ fc ∈ l, skey fc.sqs = i.sqs ∧ fc.OK) →
      l.all (fun fc => evalFlag fc ρ) =
        !l.any (fun fc => decide (xorFlags ρ i.sqs &&& fc.mask = fc.value)) := by
    intro l hl
    induction l with
    | nil => rfl
    | cons fc l ih =>
      obtain ⟨h1, h2⟩ := hl fc (by simp)
      have h3 := value_lt4 fc h2
      simp only [List.all_cons, List.any_cons, ih (fun x hx => hl x (by simp [hx])), Bool.not_or]
      congr 1
      unfold evalFlag
      have hx : xorFlags ρ fc.sqs = xorFlags ρ i.sqs := by rw [← xorFlags_skey, h1]
      rw [hx, xor_and_lt4 _ _ _ h2.1, Nat.mod_eq_of_lt h3, and_lt4 (xorFlags ρ i.sqs) _ h2.1]
      have ha : xorFlags ρ i.sqs % 4 < 4 := Nat.mod_lt _ (by decide)
      exact neq_fin ⟨_, ha⟩ ⟨_, h2.1⟩ ⟨_, h3⟩ h2.2
  exact this i.conds hw.2

theorem CleanFlag.optAll_map_append {α : Type} (ev : α → Bool) (l : List α) (o : Option (List α)) :
    optAll ev (o.map (fun tl => l ++ tl)) = (l.all ev && optAll ev o) := by
  cases o <;> simp

theorem CleanFlag.flagEmit_sound (ρ : Env) (infos : List FlagInfo) (hw : ∀ i ∈ infos, WFI i) :
    optAll (fun c => evalFlag c ρ) (flagEmit infos) =
      infos.all (fun i => i.conds.all (fun fc => evalFlag fc ρ)) := by
  induction infos with
  | nil => rfl
  | cons i is ih =>
    have hwi := hw i (by simp)
    have ih' := ih (fun x hx => hw x (by simp [hx]))
    have hm := mask_eq i hwi
    have ht := forbidden_tbl i hwi
    have hU := (union_facts i hwi).1
    have hmlt : i.mask < 4 := by rw [hm]; exact maskGU_lt _ _
    have hr : xorFlags ρ i.sqs % 4 < 4 := Nat.mod_lt _ (by decide)
    have hyp : ∀ v : Fin 4, i.forbidden v.val = i.forbidden (v.val &&& i.union) :=
      fun v => forbidden_union i hwi v.val
    rw [ht] at hyp
    have key : emitVal (tbl (i.forbidden 0) (i.forbidden 1) (i.forbidden 2) (i.forbidden 3))
        (maskGU i.union (tbl (i.forbidden 0) (i.forbidden 1) (i.forbidden 2) (i.forbidden 3)))
        (xorFlags ρ i.sqs % 4) =
        !tbl (i.forbidden 0) (i.forbidden 1) (i.forbidden 2) (i.forbidden 3) (xorFlags ρ i.sqs % 4) :=
      fin_key ⟨i.union, hU⟩ (i.forbidden 0) (i.forbidden 1) (i.forbidden 2) (i.forbidden 3) hyp ⟨_, hr⟩
    rw [← ht, ← hm] at key
    have hgs := group_sem i ρ hwi
    rw [forbidden_mod i hwi] at hgs
    simp only [List.all_cons, hgs, ← key]
    unfold emitVal
    simp only [flagEmit]
    split
    · rename_i h0
      split
      · rename_i hf; simp [hf]
      · rename_i hf; simp [hf, ih']
    · rename_i h0
      rw [optAll_map_append, ih', List.all_map]
      congr 1
      apply List.all_congr rfl
      intro v
      simp only [Function.comp_def, evalFlag]
      rw [xor_and_lt4 _ _ _ hmlt]

theorem CleanFlag.flagEmit_ok (infos : List FlagInfo) (hw : ∀ i ∈ infos, WFI i) :
    ∀ r, flagEmit infos = some r → ∀ f ∈ r, f.OK := by
  induction infos with
  | nil => intro r hr f hf; simp only [flagEmit, Option.some.injEq] at hr; subst hr; cases hf
  | cons i is ih =>
    intro r hr f hf
    have hwi := hw i (by simp)
    have ih' := ih (fun x hx => hw x (by simp [hx]))
    have hmlt : i.mask < 4 := by rw [mask_eq i hwi]; exact maskGU_lt _ _
    simp only [flagEmit] at hr
    split at hr
    · split at hr
      · cases hr
      · exact ih' r hr f hf
    · cases hrest : flagEmit is with
      | none => rw [hrest] at hr; cases hr
      | some tl =>
        rw [hrest] at hr
        simp only [Option.map_some, Option.some.injEq] at hr
        subst hr
        rcases List.mem_append.mp hf with h | h
        · obtain ⟨v, hv, rfl⟩ := List.mem_map.mp h
          have hv' := (List.mem_filter.mp hv).1
          have := List.all_eq_true.mp (subMasks_fin ⟨i.mask, hmlt⟩) v hv'
          exact ⟨hmlt, by simpa using this⟩
        · exact ih' tl hrest f h

/-! ### grouping -/

theorem CleanFlag.flagInfoAdd_wf (infos : List FlagInfo) (fc : FlagC) (hf : fc.OK)
    (hw : ∀ i ∈ infos, WFI i) : ∀ i ∈ flagInfoAdd infos (skey fc.sqs) fc, WFI i := by
  induction infos with
  | nil =>
    intro i hi
    simp only [flagInfoAdd, List.mem_singleton] at hi
    subst hi
    exact ⟨by simp, by intro x hx; simp at hx; subst hx; exact ⟨rfl, hf⟩⟩
  | cons j js ih =>
    intro i hi
    simp only [flagInfoAdd] at hi
    split at hi
    · rename_i hj
      rcases List.mem_cons.mp hi with h | h
      · subst h
        obtain ⟨w2, w3⟩ := hw j (by simp)
        refine ⟨by simp, ?_⟩
        intro x hx
        rcases List.mem_append.mp hx with hx | hx
        · exact w3 x hx
        · simp at hx; subst hx; exact ⟨hj.symm, hf⟩
      · exact hw i (by simp [h])
    · rcases List.mem_cons.mp hi with h | h
      · subst h; exact hw _ (by simp)
      · exact ih (fun x hx => hw x (by simp [hx])) i h

theorem CleanFlag.flagInfoAdd_sem (ev : FlagC → Bool) (infos : List FlagInfo) (sqs : List String) (fc : FlagC) :
    (flagInfoAdd infos sqs fc).all (fun i => i.conds.all ev) =
      (infos.all (fun i => i.conds.all ev) && ev fc) := by
  induction infos with
  | nil => simp [flagInfoAdd]
  | cons j js ih =>
    simp only [flagInfoAdd]
    split
    · simp only [List.all_cons, List.all_append, List.all_nil, Bool.and_true]
      cases j.conds.all ev <;> cases ev fc <;> simp
    · simp only [List.all_cons, ih, Bool.and_assoc]

/-- a condition whose sub-queries cancel completely is a constant -/
theorem CleanFlag.evalFlag_nil_key (fc : FlagC) (ρ : Env) (hk : skey fc.sqs = []) :
    evalFlag fc ρ = ((fc.value &&& fc.mask) != 0) := by
  unfold evalFlag
  rw [← xorFlags_skey, hk]
  simp [xorFlags]

theorem CleanFlag.flagCollect_wf (fcs : List FlagC) (hf : ∀ f ∈ fcs, f.OK) :
    ∀ infos : List FlagInfo, (∀ i ∈ infos, WFI i) →
      ∀ infos', flagCollect infos fcs = some infos' → ∀ i ∈ infos', WFI i := by
  induction fcs with
  | nil =>
    intro infos hw infos' h
    simp only [flagCollect, Option.some.injEq] at h; subst h; exact hw
  | cons fc rest ih =>
    intro infos hw infos' h
    have ihr := ih (fun f h => hf f (by simp [h]))
    simp only [flagCollect] at h
    by_cases hk : cancelPairs (isort (fun a b => decide (a < b)) fc.sqs) = []
    · rw [if_pos hk] at h
      by_cases hz : fc.value &&& fc.mask = 0
      · rw [if_pos hz] at h; cases h
      · rw [if_neg hz] at h; exact ihr infos hw infos' h
    · rw [if_neg hk] at h
      exact ihr _ (flagInfoAdd_wf infos fc (hf fc (by simp)) hw) infos' h

theorem CleanFlag.flagCollect_sound (ρ : Env) (fcs : List FlagC) (hf : ∀ f ∈ fcs, f.OK) :
    ∀ infos : List FlagInfo, (∀ i ∈ infos, WFI i) →
      match flagCollect infos fcs with
      | none => fcs.all (fun c => evalFlag c ρ) = false
      | some infos' =>
          infos'.all (fun i => i.conds.all (fun c => evalFlag c ρ)) =
            (infos.all (fun i => i.conds.all (fun c => evalFlag c ρ)) && fcs.all (fun c => evalFlag c ρ)) := by
  induction fcs with
  | nil => intro infos hw; simp [flagCollect]
  | cons fc rest ih =>
    intro infos hw
    have hfc := hf fc (by simp)
    have ihr := ih (fun f h => hf f (by simp [h]))
    simp only [flagCollect]
    by_cases hk : cancelPairs (isort (fun a b => decide (a < b)) fc.sqs) = []
    · rw [if_pos hk]
      have hev := evalFlag_nil_key fc ρ hk
      by_cases hz : fc.value &&& fc.mask = 0
      · rw [if_pos hz]
        simp [hev, hz]
      · rw [if_neg hz]
        have h1 := ihr infos hw
        have hz' : ((fc.value &&& fc.mask) != 0) = true := by simp [hz]
        simp only [List.all_cons, hev, hz', Bool.true_and]
        exact h1
    · rw [if_neg hk]
      have h1 := ihr (flagInfoAdd infos (cancelPairs (isort (fun a b => decide (a < b)) fc.sqs)) fc)
        (flagInfoAdd_wf infos fc hfc hw)
      revert h1
      cases flagCollect (flagInfoAdd infos (cancelPairs (isort (fun a b => decide (a < b)) fc.sqs)) fc) rest with
      | none =>
        intro h1
        dsimp only at h1 ⊢
        simp only [List.all_cons]
        rw [h1]; simp
      | some infos' =>
        intro h1
        dsimp only at h1 ⊢
        rw [h1, flagInfoAdd_sem, List.all_cons, Bool.and_assoc]

theorem CleanFlag.optAll_map_isort {α : Type} (ev : α → Bool) (lt : α → α → Bool) (o : Option (List α)) :
    optAll ev (o.map (isort lt)) = optAll ev o := by
  cases o with
  | none => rfl
  | some l => simp [all_isort]

/-! ### main theorems -/

theorem cleanFlag_sound_ok (fcs : List FlagC) (ρ : Env) (h : ∀ f ∈ fcs, f.OK) :
    optAll (fun c => evalFlag c ρ) (cleanFlag fcs) = fcs.all (fun c => evalFlag c ρ) := by
  have hc := flagCollect_sound ρ fcs h [] (by simp)
  have hwf := flagCollect_wf fcs h [] (by simp)
  unfold cleanFlag
  revert hc hwf
  cases flagCollect [] fcs with
  | none => intro hc _; simp only [optAll_none]; exact hc.symm
  | some infos =>
    intro hc hwf
    simp only
    rw [optAll_map_isort, flagEmit_sound ρ infos (hwf infos rfl), hc]
    simp

/-- the output of `cleanFlag` satisfies the invariant again -/
theorem cleanFlag_ok (fcs : List FlagC) (h : ∀ f ∈ fcs, f.OK) (r : List FlagC)
    (hr : cleanFlag fcs = some r) : ∀ f ∈ r, f.OK := by
  have hwf := flagCollect_wf fcs h [] (by simp)
  unfold cleanFlag at hr
  revert hr hwf
  cases flagCollect [] fcs with
  | none => intro hr; cases hr
  | some infos =>
    intro hr hwf f hf
    simp only at hr
    cases he : flagEmit infos with
    | none => rw [he] at hr; cases hr
    | some r' =>
      rw [he] at hr
      simp only [Option.map_some, Option.some.injEq] at hr
      subst hr
      exact flagEmit_ok infos (hwf infos rfl) r' he f ((mem_isort _ _ _).mp hf)

/-- protocol conditions over any sub-query lists (`protocol:x`, `protocol:@sub:protocol`, and their
    negations) -/
theorem cleanFlag_sound_proto (fcs : List FlagC) (ρ : Env)
    (h : ∀ f ∈ fcs, f.mask = 3 ∧ f.value < 4) :
    optAll (fun c => evalFlag c ρ) (cleanFlag fcs) = fcs.all (fun c => evalFlag c ρ) := by
  apply cleanFlag_sound_ok
  intro f hf
  obtain ⟨h1, h2⟩ := h f hf
  refine ⟨by omega, ?_⟩
  rw [h1]
  have : f.value &&& 3 = f.value % 4 := Nat.and_two_pow_sub_one_eq_mod f.value 2
  rw [this]; omega

theorem cleanFlag_sound_partial (fcs : List FlagC) (ρ : Env)
    (h : ∀ f ∈ fcs, f.mask = 3 ∧ f.value < 4 ∧ f.sqs.length = 1) :
    optAll (fun c => evalFlag c ρ) (cleanFlag fcs) = fcs.all (fun c => evalFlag c ρ) :=
  cleanFlag_sound_proto fcs ρ (fun f hf => ⟨(h f hf).1, (h f hf).2.1⟩)

end Pk.Query
