/-
  C14 (reference-time shift), part 5: the recursive translation and the tail of `query.Parse`
  commute with the shift; invariants of the parse result; meaning of a shifted anchored result.
-/
import Pk.Proofs.Query.ShiftTerm

namespace Pk.Query

/-! ### term predicates (syntactic, on the lexed value) -/

/-- ADDED hypothesis of `reftime_shift_equiv`: a bound that mentions absolute times (net count
    `partsAbs ≠ 0`) does not have net packet-time variable count exactly 1.  (With count 1 the
    filter's own variable can cancel against it and the normaliser decides the sign of a constant
    that contains the reference time — see `reftime_shift_counterexample`.) -/
def RangeSafe (r : List TimePart) : Prop := partsAbs r = 0 ∨ partsVar r ≠ 1

def Term.TimeSafe (t : Term) : Prop :=
  match t.value with
  | .times l => ∀ e ∈ l, ∀ r ∈ e, RangeSafe r
  | _ => True

/-- every non-empty bound of every time filter denotes a point in time: the net count of absolute
    times and packet-time variables is 1 (`2020-01-01 1200`, `@a:ltime@+1h`,
    `2020-01-02 0000-2020-01-01 0000+@a:ftime@`); every list entry has a range -/
def Term.TimeAnchored (t : Term) : Prop :=
  match t.value with
  | .times l => ∀ e ∈ l, e ≠ [] ∧ ∀ r ∈ e, r ≠ [] → partsAbs r + partsVar r = 1
  | _ => True

/-- no bound of a time filter depends on absolute times (net count 0; in particular: bounds built
    from durations and variables only, the relative filters `-1h:`) -/
def Term.TimeFloating (t : Term) : Prop :=
  match t.value with
  | .times l => ∀ e ∈ l, ∀ r ∈ e, partsAbs r = 0
  | _ => True

/-- all time conditions of a parse result satisfy `P` -/
def Parsed.TP (P : TimeC → Prop) : Parsed → Prop
  | .nothing => True
  | .set cs => CSet.TP P cs

/-- the environment in which every packet time is `d` later -/
def Env.shift (d : Int) (ρ : Env) : Env :=
  fun sq => { ρ sq with ftime := (ρ sq).ftime + d, ltime := (ρ sq).ltime + d }

namespace Shift

/-! ### from the term predicates to the invariants -/

theorem boundOf_safe {r : List TimePart} (h : RangeSafe r) {tc : TimeC} (hb : BoundOf r tc) : tc.Safe := by
  unfold TimeC.Safe
  unfold RangeSafe at h
  rcases hb with ⟨h1, h2⟩ | ⟨h1, h2⟩ <;> omega

theorem boundOf_anchored {r : List TimePart} (h : partsAbs r + partsVar r = 1) {tc : TimeC} (hb : BoundOf r tc) :
    tc.Anchored := by
  unfold TimeC.Anchored
  rcases hb with ⟨h1, h2⟩ | ⟨h1, h2⟩ <;> omega

theorem boundOf_floating {r : List TimePart} (h : partsAbs r = 0) {tc : TimeC} (hb : BoundOf r tc) :
    tc.Floating := by
  unfold TimeC.Floating
  rcases hb with ⟨h1, h2⟩ | ⟨h1, h2⟩ <;> omega

theorem trTerm_safe (ref : Int) (t : Term) (cs : CSet) (ht : t.TimeSafe) (h : trTerm ref t = .ok (some cs)) :
    CSet.TP TimeC.Safe cs := by
  apply trTerm_tp TimeC.Safe ref t cs _ h
  intro l hl e he r hr tc hb
  unfold Term.TimeSafe at ht
  rw [hl] at ht
  rcases hr with ⟨hre, _⟩ | ⟨_, rfl⟩
  · exact boundOf_safe (ht e he r hre) hb
  · exact boundOf_safe (Or.inl rfl) hb

theorem trTerm_anchored (ref : Int) (t : Term) (cs : CSet) (ht : t.TimeAnchored)
    (h : trTerm ref t = .ok (some cs)) : CSet.TP TimeC.Anchored cs := by
  apply trTerm_tp TimeC.Anchored ref t cs _ h
  intro l hl e he r hr tc hb
  unfold Term.TimeAnchored at ht
  rw [hl] at ht
  rcases hr with ⟨hre, hne⟩ | ⟨he0, _⟩
  · exact boundOf_anchored ((ht e he).2 r hre hne) hb
  · exact absurd he0 (ht e he).1

theorem trTerm_floating (ref : Int) (t : Term) (cs : CSet) (ht : t.TimeFloating)
    (h : trTerm ref t = .ok (some cs)) : CSet.TP TimeC.Floating cs := by
  apply trTerm_tp TimeC.Floating ref t cs _ h
  intro l hl e he r hr tc hb
  unfold Term.TimeFloating at ht
  rw [hl] at ht
  rcases hr with ⟨hre, _⟩ | ⟨_, rfl⟩
  · exact boundOf_floating (ht e he r hre) hb
  · exact boundOf_floating rfl hb

theorem TimeAnchored.safe {t : Term} (h : t.TimeAnchored) : t.TimeSafe := by
  unfold Term.TimeAnchored at h
  unfold Term.TimeSafe
  split
  · rename_i l hl
    rw [hl] at h
    intro e he r hr
    cases r with
    | nil => exact Or.inl rfl
    | cons p ps =>
      have := (h e he).2 (p :: ps) hr (by simp)
      unfold RangeSafe; omega
  · trivial

theorem TimeFloating.safe {t : Term} (h : t.TimeFloating) : t.TimeSafe := by
  unfold Term.TimeFloating at h
  unfold Term.TimeSafe
  split
  · rename_i l hl
    rw [hl] at h
    exact fun e he r hr => Or.inl (h e he r hr)
  · trivial

theorem termsOf_mono {P Q : Term → Prop} (h : ∀ t, P t → Q t) {e : Expr} (he : TermsOf P e) : TermsOf Q e := by
  induction e using exprInd with
  | term t => cases he with | term ht => exact .term (h t ht)
  | aux => exact .aux
  | not e ih => cases he with | not he => exact .not (ih he)
  | grp e ih => cases he with | grp he => exact .grp (ih he)
  | and es ih => cases he with | and hes => exact .and (fun e he => ih e he (hes e he))
  | or es ih => cases he with | or hes => exact .or (fun e he => ih e he (hes e he))
  | seq es ih => cases he with | seq hes => exact .seq (fun e he => ih e he (hes e he))

/-! ### invariants of the recursive translation -/

theorem translateList_tp {P : TimeC → Prop} (ref : Int) (op : GSet → GSet → GSet)
    (hop : ∀ a b, CSet.TP P a.items → CSet.TP P b.items → CSet.TP P (op a b).items) :
    ∀ (es : List Expr), (∀ e ∈ es, ∀ g, translate ref e = .ok g → CSet.TP P g.items) →
    ∀ acc g, CSet.TP P acc.items → translateList ref op es acc = .ok g → CSet.TP P g.items
  | [], _, acc, g, ha, h => by
    simp only [translateList, Outcome.ok.injEq] at h
    subst h; exact ha
  | e :: rest, hes, acc, g, ha, h => by
    simp only [translateList] at h
    have ih := translateList_tp ref op hop rest (fun x hx => hes x (List.mem_cons_of_mem _ hx))
    split at h
    · rename_i cs hcs
      exact ih _ g (hop _ _ ha (hes e List.mem_cons_self _ hcs)) h
    · exact ih _ g ha h
    all_goals cases h

theorem translate_tp {P : TimeC → Prop} (hP : TInv P) (Q : Term → Prop)
    (hQ : ∀ ref t cs, Q t → trTerm ref t = .ok (some cs) → CSet.TP P cs)
    (ref : Int) (e : Expr) (he : TermsOf Q e) (g : GSet) (h : translate ref e = .ok g) :
    CSet.TP P g.items := by
  induction e using exprInd generalizing g with
  | term t =>
    cases he with
    | term ht =>
      simp only [translate] at h
      cases g with
      | none => exact cset_tp_nil P
      | some cs => exact hQ ref t cs ht h
  | aux =>
    simp only [translate, Outcome.ok.injEq] at h
    subst h; exact cset_tp_nil P
  | not e ih =>
    cases he with
    | not he =>
      simp only [translate] at h
      split at h
      · rename_i cs hcs
        simp only [Outcome.ok.injEq] at h
        subst h
        exact cset_invert_tp hP cs (ih he _ hcs)
      · exact ih he g h
  | grp e ih =>
    cases he with
    | grp he =>
      simp only [translate] at h
      exact ih he g h
  | and es ih =>
    cases he with
    | and hes =>
      simp only [translate] at h
      exact translateList_tp ref _ (fun _ _ => And_tp hP) es (fun e he' => ih e he' (hes e he')) none g
        (cset_tp_nil P) h
  | or es ih =>
    cases he with
    | or hes =>
      simp only [translate] at h
      exact translateList_tp ref _ (fun _ _ => Or_tp) es (fun e he' => ih e he' (hes e he')) none g
        (cset_tp_nil P) h
  | seq es ih =>
    cases he with
    | seq hes =>
      simp only [translate] at h
      exact translateList_tp ref _ (fun _ _ => gseq_tp) es (fun e he' => ih e he' (hes e he')) none g
        (cset_tp_nil P) h

/-! ### the recursive translation commutes with the shift -/

theorem translateList_shift (ref d : Int) (op : GSet → GSet → GSet)
    (hop : ∀ a b, CSet.TP TimeC.Safe a.items → CSet.TP TimeC.Safe b.items →
      op (shiftG d a) (shiftG d b) = shiftG d (op a b))
    (hopP : ∀ a b, CSet.TP TimeC.Safe a.items → CSet.TP TimeC.Safe b.items → CSet.TP TimeC.Safe (op a b).items) :
    ∀ (es : List Expr), (∀ e ∈ es, translate (ref + d) e = (translate ref e).map (shiftG d)) →
    (∀ e ∈ es, ∀ g, translate ref e = .ok g → CSet.TP TimeC.Safe g.items) →
    ∀ acc, CSet.TP TimeC.Safe acc.items →
      translateList (ref + d) op es (shiftG d acc) = (translateList ref op es acc).map (shiftG d)
  | [], _, _, acc, _ => rfl
  | e :: rest, hes, hsafe, acc, ha => by
    have ih := translateList_shift ref d op hop hopP rest (fun x hx => hes x (List.mem_cons_of_mem _ hx))
      (fun x hx => hsafe x (List.mem_cons_of_mem _ hx))
    simp only [translateList]
    rw [hes e List.mem_cons_self]
    cases he : translate ref e with
    | ok g =>
      cases g with
      | none => exact ih acc ha
      | some cs =>
        have hcs : CSet.TP TimeC.Safe (GSet.items (some cs)) := hsafe e List.mem_cons_self _ he
        simp only [Outcome.map_ok, shiftG_some]
        rw [← shiftG_some, hop acc (some cs) ha hcs]
        exact ih _ (hopP _ _ ha hcs)
    | err m => rfl
    | panic s => rfl
    | diverged s => rfl

theorem translate_safe (ref : Int) (e : Expr) (he : TermsOf Term.TimeSafe e) (g : GSet)
    (h : translate ref e = .ok g) : CSet.TP TimeC.Safe g.items :=
  translate_tp tinv_safe Term.TimeSafe (fun ref t cs ht h => trTerm_safe ref t cs ht h) ref e he g h

theorem translate_shift (ref d : Int) (e : Expr) (he : TermsOf Term.TimeSafe e) :
    translate (ref + d) e = (translate ref e).map (shiftG d) := by
  induction e using exprInd with
  | term t => simp only [translate]; exact trTerm_shift ref d t
  | aux => rfl
  | not e ih =>
    cases he with
    | not he =>
      simp only [translate]
      rw [ih he]
      cases ht : translate ref e with
      | ok g =>
        cases g with
        | none => rfl
        | some cs =>
          simp only [Outcome.map_ok, shiftG_some]
          rw [cset_invert_shift d cs (translate_safe ref e he _ ht)]
      | err m => rfl
      | panic s => rfl
      | diverged s => rfl
  | grp e ih =>
    cases he with
    | grp he => simp only [translate]; exact ih he
  | and es ih =>
    cases he with
    | and hes =>
      simp only [translate]
      exact translateList_shift ref d _ (And_shift d) (fun _ _ => And_tp tinv_safe) es
        (fun e he' => ih e he' (hes e he')) (fun e he' => translate_safe ref e (hes e he')) none (cset_tp_nil _)
  | or es ih =>
    cases he with
    | or hes =>
      simp only [translate]
      exact translateList_shift ref d _ (fun a b _ _ => Or_shift d a b) (fun _ _ => Or_tp) es
        (fun e he' => ih e he' (hes e he')) (fun e he' => translate_safe ref e (hes e he')) none (cset_tp_nil _)
  | seq es ih =>
    cases he with
    | seq hes =>
      simp only [translate]
      exact translateList_shift ref d _ (fun a b _ _ => gseq_shift d a b) (fun _ _ => gseq_tp) es
        (fun e he' => ih e he' (hes e he')) (fun e he' => translate_safe ref e (hes e he')) none (cset_tp_nil _)

/-! ### the tail of `query.Parse` -/

theorem cset_isImpossible_shift (d : Int) (c : CSet) : CSet.isImpossible (shiftS d c) = CSet.isImpossible c := by
  match c with
  | [] => rfl
  | [x] => simp only [shiftS_cons, shiftS_nil, CSet.isImpossible, isImpossible_shift]
  | _ :: _ :: _ => rfl

theorem finish_shift (d : Int) (g : GSet) (h : CSet.TP TimeC.Safe g.items) :
    finish (shiftG d g) = shiftParsed d (finish g) := by
  cases g with
  | none => rfl
  | some cs =>
    simp only [shiftG_some, finish]
    rw [Clean_shift d cs h, cset_isImpossible_shift]
    by_cases h1 : CSet.isImpossible (CSet.Clean cs) = true
    · simp [h1, shiftParsed]
    · by_cases h2 : CSet.Clean cs = []
      · simp [h2, shiftParsed, CSet.isImpossible]
      · have h3 : shiftS d (CSet.Clean cs) ≠ [] := fun h' => h2 ((shiftS_eq_nil d _).mp h')
        simp [h1, h2, h3, shiftParsed]

theorem finish_tp {P : TimeC → Prop} (hP : TInv P) (g : GSet) (h : CSet.TP P g.items) : Parsed.TP P (finish g) := by
  cases g with
  | none => exact cset_tp_cons (tp_nil P) (cset_tp_nil P)
  | some cs =>
    simp only [finish]
    split
    · trivial
    · split
      · exact cset_tp_cons (tp_nil P) (cset_tp_nil P)
      · exact Clean_tp hP cs h

theorem parse_shift (ref d : Int) (e : Expr) (he : TermsOf Term.TimeSafe e) :
    parse (ref + d) e = (parse ref e).map (shiftParsed d) := by
  unfold parse
  rw [translate_shift ref d e he]
  cases ht : translate ref e with
  | ok g => simp only [Outcome.map_ok, finish_shift d g (translate_safe ref e he g ht)]
  | err m => rfl
  | panic s => rfl
  | diverged s => rfl

theorem parse_tp {P : TimeC → Prop} (hP : TInv P) (Q : Term → Prop)
    (hQ : ∀ ref t cs, Q t → trTerm ref t = .ok (some cs) → CSet.TP P cs)
    (ref : Int) (e : Expr) (he : TermsOf Q e) (p : Parsed) (h : parse ref e = .ok p) : Parsed.TP P p := by
  unfold parse at h
  split at h
  · rename_i g hg
    simp only [Outcome.ok.injEq] at h
    subst h
    exact finish_tp hP g (translate_tp hP Q hQ ref e he g hg)
  all_goals cases h

/-! ### the outcome kind never depends on the reference time -/

/-- the outcome without the value: `ok`, or the error message / panic site / divergence site -/
def kind {α : Type} (o : Outcome α) : Outcome Unit := o.map (fun _ => ())

theorem kind_map {α β : Type} (f : α → β) (o : Outcome α) : kind (o.map f) = kind o := by
  cases o <;> rfl

theorem mapOutcome_kind {α β : Type} (f1 f2 : α → Outcome β) :
    ∀ (l : List α), (∀ x ∈ l, kind (f2 x) = kind (f1 x)) → kind (mapOutcome f2 l) = kind (mapOutcome f1 l)
  | [], _ => rfl
  | x :: xs, h => by
    have hx := h x List.mem_cons_self
    have ih := mapOutcome_kind f1 f2 xs (fun y hy => h y (List.mem_cons_of_mem _ hy))
    simp only [mapOutcome]
    cases h1 : f1 x <;> cases h2 : f2 x <;> rw [h1, h2] at hx <;> simp [kind, Outcome.map] at hx <;>
      (try subst hx) <;> (try rfl)
    cases h3 : mapOutcome f1 xs <;> cases h4 : mapOutcome f2 xs <;> rw [h3, h4] at ih <;>
      simp [kind, Outcome.map] at ih <;> (try subst ih) <;> rfl

theorem trTerm_kind (r1 r2 : Int) (t : Term) : kind (trTerm r2 t) = kind (trTerm r1 t) := by
  have : r2 = r1 + (r2 - r1) := by omega
  rw [this, trTerm_shift, kind_map]

theorem translateList_kind (r1 r2 : Int) (op : GSet → GSet → GSet) :
    ∀ (es : List Expr), (∀ e ∈ es, kind (translate r2 e) = kind (translate r1 e)) →
    ∀ acc1 acc2, kind (translateList r2 op es acc2) = kind (translateList r1 op es acc1)
  | [], _, _, _ => rfl
  | e :: rest, hes, acc1, acc2 => by
    have ih := translateList_kind r1 r2 op rest (fun x hx => hes x (List.mem_cons_of_mem _ hx))
    have he := hes e List.mem_cons_self
    simp only [translateList]
    cases h1 : translate r1 e <;> cases h2 : translate r2 e <;> rw [h1, h2] at he <;>
      simp [kind, Outcome.map] at he <;> (try subst he) <;> (try rfl)
    rename_i g1 g2
    cases g1 <;> cases g2 <;> exact ih _ _

/-- errors (and the panic / divergence sites) of the translation do not depend on the reference
    time — for every expression, grammar-shaped or not -/
theorem translate_kind (r1 r2 : Int) (e : Expr) : kind (translate r2 e) = kind (translate r1 e) := by
  induction e using exprInd with
  | term t => simp only [translate]; exact trTerm_kind r1 r2 t
  | aux => rfl
  | not e ih =>
    simp only [translate]
    cases h1 : translate r1 e <;> cases h2 : translate r2 e <;> rw [h1, h2] at ih <;>
      simp [kind, Outcome.map] at ih <;> (try subst ih) <;> (try rfl)
    rename_i g1 g2
    cases g1 <;> cases g2 <;> rfl
  | grp e ih => simp only [translate]; exact ih
  | and es ih => simp only [translate]; exact translateList_kind r1 r2 _ es ih none none
  | or es ih => simp only [translate]; exact translateList_kind r1 r2 _ es ih none none
  | seq es ih => simp only [translate]; exact translateList_kind r1 r2 _ es ih none none

theorem parse_kind (r1 r2 : Int) (e : Expr) : kind (parse r2 e) = kind (parse r1 e) := by
  have h := translate_kind r1 r2 e
  unfold parse
  cases h1 : translate r1 e <;> cases h2 : translate r2 e <;> rw [h1, h2] at h <;>
    simp [kind, Outcome.map] at h <;> (try subst h) <;> rfl

/-! ### floating results are not moved; meaning of a moved anchored result -/

theorem floating_shiftJ (d : Int) (c : Conj) (h : Conj.TP TimeC.Floating c) : shiftJ d c = c := by
  induction c with
  | nil => rfl
  | cons x c ih =>
    rw [shiftJ_cons, ih (fun tc htc => h tc (List.mem_cons_of_mem _ htc))]
    cases x with
    | time tc =>
      have : tc.rtf = 0 := h tc List.mem_cons_self
      obtain ⟨s, du, r⟩ := tc
      simp only at this
      subst this
      simp [shiftC, shiftT]
    | _ => rfl

theorem floating_shiftS (d : Int) (cs : CSet) (h : CSet.TP TimeC.Floating cs) : shiftS d cs = cs := by
  induction cs with
  | nil => rfl
  | cons c cs ih => rw [shiftS_cons, floating_shiftJ d c (h c List.mem_cons_self), ih (cset_tp_tail h)]

theorem floating_shiftParsed (d : Int) (p : Parsed) (h : Parsed.TP TimeC.Floating p) : shiftParsed d p = p := by
  cases p with
  | nothing => rfl
  | set cs => simp only [shiftParsed, floating_shiftS d cs h]

theorem timeSumVal_envShift (d : Int) (ρ : Env) (l : List TimeSummand) :
    timeSumVal (Env.shift d ρ) l = timeSumVal ρ l + tot l * d := by
  induction l with
  | nil => simp
  | cons s l ih =>
    simp only [timeSumVal_cons, tot_cons, ih, Env.shift]
    grind

theorem chain_envShift (d : Int) (ρ : Env) (inv : Bool) : ∀ (els : List DataEl) (p : Nat),
    chain (Env.shift d ρ) inv els p = chain ρ inv els p
  | [], _ => rfl
  | [e], p => rfl
  | e :: e' :: es, p => by
    simp only [chain]
    show (match (ρ e.sq).step e p with
      | none => false
      | some p' => chain (Env.shift d ρ) inv (e' :: es) p') = _
    cases (ρ e.sq).step e p with
    | none => rfl
    | some p' => exact chain_envShift d ρ inv (e' :: es) p'

/-- an anchored condition, moved by `d`, holds exactly when the original holds for packet times
    that are `d` later; the other condition kinds do not look at packet times -/
theorem evalCond_shift (d : Int) (ρ : Env) (x : Cond) (h : ∀ tc, x = Cond.time tc → tc.Anchored) :
    evalCond (shiftC d x) ρ = evalCond x (Env.shift d ρ) := by
  cases x with
  | time tc =>
    have ha : tc.rtf = tot tc.sum := h tc rfl
    simp only [shiftC, evalCond, evalTime, shiftT_dur, shiftT_sum, timeSumVal_envShift, ha]
    apply decide_eq_decide.mpr
    omega
  | tag c => rfl
  | flag c => rfl
  | host c => rfl
  | num c => rfl
  | data c => simp only [shiftC, evalCond, evalData, chain_envShift]
  | impossible => rfl

theorem evalConj_shift (d : Int) (ρ : Env) (c : Conj) (h : Conj.TP TimeC.Anchored c) :
    evalConj (shiftJ d c) ρ = evalConj c (Env.shift d ρ) := by
  induction c with
  | nil => rfl
  | cons x c ih =>
    simp only [shiftJ_cons, evalConj, List.all_cons] at ih ⊢
    rw [evalCond_shift d ρ x (fun tc hx => h tc (hx ▸ List.mem_cons_self)),
      ih (fun tc htc => h tc (List.mem_cons_of_mem _ htc))]

theorem evalSet_shift (d : Int) (ρ : Env) (cs : CSet) (h : CSet.TP TimeC.Anchored cs) :
    evalSet (shiftS d cs) ρ = evalSet cs (Env.shift d ρ) := by
  induction cs with
  | nil => rfl
  | cons c cs ih =>
    simp only [shiftS_cons, evalSet, List.any_cons] at ih ⊢
    rw [evalConj_shift d ρ c (h c List.mem_cons_self), ih (cset_tp_tail h)]

theorem evalParsed_shift (d : Int) (ρ : Env) (p : Parsed) (h : Parsed.TP TimeC.Anchored p) :
    evalParsed (shiftParsed d p) ρ = evalParsed p (Env.shift d ρ) := by
  cases p with
  | nothing => rfl
  | set cs => exact evalSet_shift d ρ cs h

end Shift
end Pk.Query
