/-
  THEN with several operands: the surface meaning `evalExprT` of a THEN node with ≥ 2 operands is
  *defined* as the value of the sequencing combination (`GSet.seq`) of its operands' translations;
  everything above and around THEN nodes is Boolean.  `translate_soundT` / `normalise_sound_then`
  extend the compiler theorem to the fragment `FragT`; `then_sound` is the definitional unfolding of
  sequencing on conjuncts.
-/
import Pk.Proofs.Query.TermSoundV

namespace Pk.Query

/-! ### surface meaning with sequencing -/

/-- like `evalExpr`, except that a THEN node with other than one operand denotes the value of its
    translation (`translate ref (.seq es) = translateList ref GSet.seq es none`) -/
def evalExprT (ref : Int) (ρ : Env) : Expr → Bool
  | .term t => evalTerm ref t ρ
  | .aux => true
  | .not e => !evalExprT ref ρ e
  | .grp e => evalExprT ref ρ e
  | .and es => allT ref ρ es
  | .or es => anyT ref ρ es
  | .seq es => seqT ref ρ es
where
  allT (ref : Int) (ρ : Env) : List Expr → Bool
    | [] => true
    | e :: es => evalExprT ref ρ e && allT ref ρ es
  anyT (ref : Int) (ρ : Env) : List Expr → Bool
    | [] => false
    | e :: es => evalExprT ref ρ e || anyT ref ρ es
  seqT (ref : Int) (ρ : Env) : List Expr → Bool
    | [e] => evalExprT ref ρ e
    | es =>
      match translateList ref GSet.seq es none with
      | .ok g => evalGSet g ρ
      | _ => false

theorem evalExprT_seq_one (ref : Int) (ρ : Env) (e : Expr) :
    evalExprT ref ρ (.seq [e]) = evalExprT ref ρ e := by
  simp [evalExprT, evalExprT.seqT]

theorem evalExprT_seq_many (ref : Int) (ρ : Env) (e1 e2 : Expr) (es : List Expr) :
    evalExprT ref ρ (.seq (e1 :: e2 :: es)) =
      (match translate ref (.seq (e1 :: e2 :: es)) with
       | .ok g => evalGSet g ρ
       | _ => false) := by
  simp only [evalExprT, evalExprT.seqT, translate]

/-! ### the fragment -/

/-- like `Frag`, plus THEN nodes with ≥ 2 operands (whose operands are again in the fragment) -/
inductive FragT : Expr → Prop
  | term (t : Term) : FragT (.term t)
  | not {e : Expr} : FragT e → FragT (.not e)
  | grp {e : Expr} : FragT e → FragT (.grp e)
  | and {es : List Expr} : es ≠ [] → (∀ e ∈ es, FragT e) → FragT (.and es)
  | or {es : List Expr} : es ≠ [] → (∀ e ∈ es, FragT e) → FragT (.or es)
  | seq1 {e : Expr} : FragT e → FragT (.seq [e])
  | seqN {es : List Expr} : 2 ≤ es.length → (∀ e ∈ es, FragT e) → FragT (.seq es)

theorem Frag.toFragT {e : Expr} (h : Frag e) : FragT e := by
  induction h with
  | term t => exact .term t
  | not _ ih => exact .not ih
  | grp _ ih => exact .grp ih
  | and hne _ ih => exact .and hne ih
  | or hne _ ih => exact .or hne ih
  | seq1 _ ih => exact .seq1 ih

theorem allT_eq_all (ref : Int) (ρ : Env) (es : List Expr)
    (ih : ∀ e ∈ es, evalExprT ref ρ e = evalExpr ref ρ e) :
    evalExprT.allT ref ρ es = evalExpr.evalExprAll ref ρ es := by
  induction es with
  | nil => simp [evalExprT.allT, evalExpr.evalExprAll]
  | cons e rest ihl =>
    simp only [evalExprT.allT, evalExpr.evalExprAll, ih e (by simp),
      ihl (fun e he => ih e (by simp [he]))]

theorem anyT_eq_any (ref : Int) (ρ : Env) (es : List Expr)
    (ih : ∀ e ∈ es, evalExprT ref ρ e = evalExpr ref ρ e) :
    evalExprT.anyT ref ρ es = evalExpr.evalExprAny ref ρ es := by
  induction es with
  | nil => simp [evalExprT.anyT, evalExpr.evalExprAny]
  | cons e rest ihl =>
    simp only [evalExprT.anyT, evalExpr.evalExprAny, ih e (by simp),
      ihl (fun e he => ih e (by simp [he]))]

/-- on the THEN-trivial fragment both meanings coincide -/
theorem evalExprT_eq_evalExpr (ref : Int) (ρ : Env) (e : Expr) (hf : Frag e) :
    evalExprT ref ρ e = evalExpr ref ρ e := by
  induction hf with
  | term t => simp [evalExprT, evalExpr]
  | not _ ih => simp [evalExprT, evalExpr, ih]
  | grp _ ih => simp [evalExprT, evalExpr, ih]
  | @and es _ _ ih =>
    simp only [evalExprT, evalExpr]
    exact allT_eq_all ref ρ es ih
  | @or es _ _ ih =>
    simp only [evalExprT, evalExpr]
    exact anyT_eq_any ref ρ es ih
  | seq1 _ ih =>
    rw [evalExprT_seq_one, ih]
    simp [evalExpr, evalExpr.evalExprAll]

/-! ### sequencing on conjuncts and sets -/

/-- the definitional unfolding of `Conditions.then`: the non-payload conditions of both sides, and
    every payload chain of the left side (cut before its negated last element) continued by every
    payload chain of the right side; a negated left chain is kept as well -/
theorem then_sound (a b : Conj) (ρ : Env) : evalConj (Conj.seq a b) ρ =
    (evalConj (a.filter (fun c => (Cond.data? c).isNone)) ρ &&
     evalConj (b.filter (fun c => (Cond.data? c).isNone)) ρ &&
     (if a.filterMap Cond.data? = [] ∨ b.filterMap Cond.data? = [] then
        (a.filterMap Cond.data?).all (evalData · ρ) && (b.filterMap Cond.data?).all (evalData · ρ)
      else (a.filterMap Cond.data?).all (fun adc =>
        (!adc.inv || evalData adc ρ) &&
        (b.filterMap Cond.data?).all (fun bdc =>
          evalData { els := adc.els.take (if adc.inv then adc.els.length - 1 else adc.els.length)
                              ++ bdc.els, inv := bdc.inv } ρ)))) := by
  unfold Conj.seq
  simp only
  split
  · next h =>
    simp only [evalConj_append, evalConj_map_data, Bool.and_assoc]
  · next h =>
    simp only [evalConj_append, Bool.and_assoc]
    congr 2
    simp only [evalConj, List.all_flatMap, List.all_append, List.all_map]
    congr 1
    funext adc
    cases hinv : adc.inv <;> simp [Function.comp_def, evalCond]

/-- `Conditions.then` preserves the shape invariant -/
theorem then_conj_ok (a b : Conj) (oka : Conj.OK a) (okb : Conj.OK b) : Conj.OK (Conj.seq a b) :=
  Seq.seq_ok a b oka okb

/-- `ConditionsSet.then` of two non-empty well-shaped sets is a non-nil, non-empty, well-shaped set -/
theorem then_set_ok (a b : GSet) (ha : a.items ≠ []) (hb : b.items ≠ [])
    (oka : CSet.OK a.items) (okb : CSet.OK b.items) :
    ∃ cs, GSet.seq a b = some cs ∧ cs ≠ [] ∧ CSet.OK cs := by
  have hne : a.items.flatMap (fun c1 => b.items.map (fun c2 => Conj.seq c1 c2)) ≠ [] := by
    cases hA : a.items with
    | nil => exact absurd hA ha
    | cons x xs =>
      cases hB : b.items with
      | nil => exact absurd hB hb
      | cons y ys => simp
  refine ⟨_, by simp only [GSet.seq, ha, hb, hne, if_false], hne, ?_⟩
  intro c hc
  simp only [List.mem_flatMap, List.mem_map] at hc
  obtain ⟨c1, h1, c2, h2, rfl⟩ := hc
  exact then_conj_ok c1 c2 (oka c1 h1) (okb c2 h2)

/-- with an empty (nil) left operand THEN returns the right operand -/
theorem then_left_empty (a b : GSet) (ha : a.items = []) : GSet.seq a b = b := by
  simp [GSet.seq, ha]

/-! ### the list folds of `translateList`, for an arbitrary operand meaning `v` -/

theorem translateList_and_gen (L : Laws) (ref : Int) {ρ : Env} (hρ : Env.WF ρ) (v : Expr → Bool)
    (es : List Expr) (ih : ∀ e ∈ es, ∀ g, translate ref e = .ok g → Good g (v e) ρ)
    (acc g : GSet) (h : translateList ref GSet.And es acc = .ok g) :
    (acc = none → es ≠ [] → Good g (es.all v) ρ) ∧
    (∀ b, Good acc b ρ → Good g (b && es.all v) ρ) := by
  induction es generalizing acc with
  | nil =>
    simp only [translateList, Outcome.ok.injEq] at h
    subst h
    simp
  | cons e rest ihl =>
    have ihe := ih e (by simp)
    have ihr : ∀ e ∈ rest, ∀ g, translate ref e = .ok g → Good g (v e) ρ :=
      fun e he => ih e (by simp [he])
    simp only [translateList] at h
    cases ht : translate ref e with
    | ok g1 =>
      obtain ⟨cs, rfl, h1, h2, h3⟩ := ihe g1 ht
      simp only [ht] at h
      constructor
      · intro hacc _
        subst hacc
        rw [and_left_empty none (some cs) rfl] at h
        have := (ihl ihr (some cs) h).2 (v e) ⟨cs, rfl, h1, h2, h3⟩
        simpa using this
      · intro b hb
        have hb' := hb.items
        have hgood : Good (GSet.And acc (some cs)) (b && v e) ρ := by
          apply Good.of_items
          · exact and_ne_nil acc (some cs) hb'.1 h1
          · exact and_ok L acc (some cs) hb'.2.1 h2
          · rw [and_sound L acc (some cs) hb'.1 h1 hb'.2.1 h2 hρ, hb'.2.2]
            simp [h3]
        have := (ihl ihr _ h).2 _ hgood
        simpa [Bool.and_assoc] using this
    | err m => simp [ht] at h
    | panic m => simp [ht] at h
    | diverged m => simp [ht] at h

theorem translateList_or_gen (ref : Int) {ρ : Env} (v : Expr → Bool) (es : List Expr)
    (ih : ∀ e ∈ es, ∀ g, translate ref e = .ok g → Good g (v e) ρ)
    (acc g : GSet) (h : translateList ref GSet.Or es acc = .ok g) :
    (acc = none → es ≠ [] → Good g (es.any v) ρ) ∧
    (∀ b, Good acc b ρ → Good g (b || es.any v) ρ) := by
  induction es generalizing acc with
  | nil =>
    simp only [translateList, Outcome.ok.injEq] at h
    subst h
    simp
  | cons e rest ihl =>
    have ihe := ih e (by simp)
    have ihr : ∀ e ∈ rest, ∀ g, translate ref e = .ok g → Good g (v e) ρ :=
      fun e he => ih e (by simp [he])
    simp only [translateList] at h
    cases ht : translate ref e with
    | ok g1 =>
      obtain ⟨cs, rfl, h1, h2, h3⟩ := ihe g1 ht
      simp only [ht] at h
      constructor
      · intro hacc _
        subst hacc
        have hgood : Good (GSet.Or none (some cs)) (v e) ρ := by
          apply Good.of_items
          · exact or_ne_nil_right none (some cs) h1
          · exact or_ok none (some cs) CSet.OK_nil h2
          · rw [or_sound]; simp [h3]
        have := (ihl ihr _ h).2 _ hgood
        simpa using this
      · intro b hb
        have hb' := hb.items
        have hgood : Good (GSet.Or acc (some cs)) (b || v e) ρ := by
          apply Good.of_items
          · exact or_ne_nil_right acc (some cs) h1
          · exact or_ok acc (some cs) hb'.2.1 h2
          · rw [or_sound, hb'.2.2]; simp [h3]
        have := (ihl ihr _ h).2 _ hgood
        simpa [Bool.or_assoc] using this
    | err m => simp [ht] at h
    | panic m => simp [ht] at h
    | diverged m => simp [ht] at h

/-- a non-nil, non-empty, well-shaped set (value irrelevant) -/
def GoodS (g : GSet) : Prop := ∃ cs, g = some cs ∧ cs ≠ [] ∧ CSet.OK cs

theorem Good.toGoodS {g : GSet} {b : Bool} {ρ : Env} (h : Good g b ρ) : GoodS g := by
  obtain ⟨cs, h1, h2, h3, _⟩ := h
  exact ⟨cs, h1, h2, h3⟩

theorem translateList_seq_good (ref : Int) (es : List Expr)
    (ih : ∀ e ∈ es, ∀ g, translate ref e = .ok g → GoodS g)
    (acc g : GSet) (h : translateList ref GSet.seq es acc = .ok g) :
    (acc = none → es ≠ [] → GoodS g) ∧ (GoodS acc → GoodS g) := by
  induction es generalizing acc with
  | nil =>
    simp only [translateList, Outcome.ok.injEq] at h
    subst h
    simp
  | cons e rest ihl =>
    have ihr : ∀ e ∈ rest, ∀ g, translate ref e = .ok g → GoodS g :=
      fun e he => ih e (by simp [he])
    simp only [translateList] at h
    cases ht : translate ref e with
    | ok g1 =>
      obtain ⟨cs, rfl, h1, h2⟩ := ih e (by simp) g1 ht
      simp only [ht] at h
      constructor
      · intro hacc _
        subst hacc
        rw [then_left_empty none (some cs) rfl] at h
        exact (ihl ihr (some cs) h).2 ⟨cs, rfl, h1, h2⟩
      · rintro ⟨a, rfl, ha1, ha2⟩
        obtain ⟨r, hr, hr1, hr2⟩ := then_set_ok (some a) (some cs) ha1 h1 ha2 h2
        rw [hr] at h
        exact (ihl ihr (some r) h).2 ⟨r, rfl, hr1, hr2⟩
    | err m => simp [ht] at h
    | panic m => simp [ht] at h
    | diverged m => simp [ht] at h

theorem allT_eq (ref : Int) (ρ : Env) (es : List Expr) :
    evalExprT.allT ref ρ es = es.all (evalExprT ref ρ) := by
  induction es with
  | nil => rfl
  | cons e rest ih => simp only [evalExprT.allT, List.all_cons, ih]

theorem anyT_eq (ref : Int) (ρ : Env) (es : List Expr) :
    evalExprT.anyT ref ρ es = es.any (evalExprT ref ρ) := by
  induction es with
  | nil => rfl
  | cons e rest ih => simp only [evalExprT.anyT, List.any_cons, ih]

/-! ### the compiler theorem with THEN -/

theorem translate_goodT (L : Laws) (ref : Int) (P : Term → Prop) (T : TermLaw ref P) (e : Expr)
    (hf : FragT e) (hp : TermsOf P e) (ρ : Env) (hρ : Env.WF ρ) (g : GSet)
    (h : translate ref e = .ok g) : Good g (evalExprT ref ρ e) ρ := by
  induction hf generalizing g with
  | term t =>
    cases hp with
    | term hpt =>
      simp only [translate] at h
      simpa [evalExprT, Good] using T t g ρ hpt hρ h
  | @not e hfe ih =>
    cases hp with
    | not hpe =>
      simp only [translate] at h
      cases ht : translate ref e with
      | ok g1 =>
        obtain ⟨cs, rfl, h1, h2, h3⟩ := ih hpe g1 ht
        simp only [ht, Outcome.ok.injEq] at h
        subst h
        have := invert_set_all L cs h1 h2 hρ
        apply Good.of_items this.1 this.2.1
        rw [this.2.2, h3]
        simp [evalExprT]
      | err m => simp [ht] at h
      | panic m => simp [ht] at h
      | diverged m => simp [ht] at h
  | @grp e hfe ih =>
    cases hp with
    | grp hpe =>
      simp only [translate] at h
      simpa [evalExprT] using ih hpe g h
  | @and es hne hall ih =>
    cases hp with
    | and hpe =>
      simp only [translate] at h
      have := (translateList_and_gen L ref hρ (evalExprT ref ρ) es
        (fun e he g hg => ih e he (hpe e he) g hg) none g h).1 rfl hne
      simpa [evalExprT, allT_eq] using this
  | @or es hne hall ih =>
    cases hp with
    | or hpe =>
      simp only [translate] at h
      have := (translateList_or_gen ref (evalExprT ref ρ) es
        (fun e he g hg => ih e he (hpe e he) g hg) none g h).1 rfl hne
      simpa [evalExprT, anyT_eq] using this
  | @seq1 e hfe ih =>
    cases hp with
    | seq hpe =>
      simp only [translate, translateList] at h
      cases ht : translate ref e with
      | ok g1 =>
        obtain ⟨cs, rfl, h1, h2, h3⟩ := ih (hpe e (by simp)) g1 ht
        simp only [ht, Outcome.ok.injEq] at h
        subst h
        refine ⟨cs, ?_, h1, h2, ?_⟩
        · simp [GSet.seq]
        · rw [evalExprT_seq_one, h3]
      | err m => simp [ht] at h
      | panic m => simp [ht] at h
      | diverged m => simp [ht] at h
  | @seqN es hlen hall ih =>
    cases hp with
    | seq hpe =>
      have h' := h
      simp only [translate] at h'
      have hne : es ≠ [] := by intro h0; subst h0; simp at hlen
      obtain ⟨cs, rfl, h1, h2⟩ := (translateList_seq_good ref es
        (fun e he g hg => (ih e he (hpe e he) g hg).toGoodS) none g h').1 rfl hne
      refine ⟨cs, rfl, h1, h2, ?_⟩
      match es, hlen, h with
      | e1 :: e2 :: rest, _, h => rw [evalExprT_seq_many, h]; rfl

theorem translate_soundT (ref : Int) (e : Expr) (hf : FragT e) (hp : TermsOf Term.FragV e)
    (g : GSet) (h : translate ref e = .ok g) (ρ : Env) (hρ : Env.WF ρ) :
    ∃ cs, g = some cs ∧ cs ≠ [] ∧ CSet.OK cs ∧ evalSet cs ρ = evalExprT ref ρ e :=
  translate_goodT laws ref Term.FragV (termLawV ref) e hf hp ρ hρ g h

theorem normalise_sound_then (ref : Int) (e : Expr) (hf : FragT e) (hp : TermsOf Term.FragV e)
    (p : Parsed) (h : parse ref e = .ok p) (ρ : Env) (hρ : Env.WF ρ) (hid : Env.IdOK ρ) :
    evalParsed p ρ = evalExprT ref ρ e := by
  unfold parse at h
  cases ht : translate ref e with
  | ok g =>
    obtain ⟨cs, rfl, h1, h2, h3⟩ := translate_soundT ref e hf hp g ht ρ hρ
    simp only [ht, Outcome.ok.injEq] at h
    subst h
    rw [finish_sound laws cs h1 h2 hρ hid, h3]
  | err m => simp [ht] at h
  | panic m => simp [ht] at h
  | diverged m => simp [ht] at h

theorem impossible_only_if_unsat_then (ref : Int) (e : Expr) (hf : FragT e)
    (hp : TermsOf Term.FragV e) (h : parse ref e = .ok .nothing) (ρ : Env) (hρ : Env.WF ρ)
    (hid : Env.IdOK ρ) : evalExprT ref ρ e = false := by
  rw [← normalise_sound_then ref e hf hp _ h ρ hρ hid]
  rfl

/-! ### non-vacuity -/

namespace ExampleT

/-- `cdata:x`, `cdata:y`, `sdata:z` -/
def cx : Term := { sq := "", key := "cdata", conv := "", value := .data "x" [] }
def cy : Term := { sq := "", key := "cdata", conv := "", value := .data "y" [] }
def sz : Term := { sq := "", key := "sdata", conv := "", value := .data "z" [] }

theorem cx_fragV : cx.FragV := by simp [Term.FragV, cx]
theorem cy_fragV : cy.FragV := by simp [Term.FragV, cy]
theorem sz_fragV : sz.FragV := by simp [Term.FragV, sz]

/-- `-(cdata:x then cdata:y) (cdata:x then cdata:y then sdata:z)` -/
def e2 : Expr :=
  .and [.not (.grp (.seq [.term cx, .term cy])), .grp (.seq [.term cx, .term cy, .term sz])]

/-- `-(cdata:x then cdata:y) (cdata:x then sdata:z)` -/
def e3 : Expr :=
  .and [.not (.grp (.seq [.term cx, .term cy])), .grp (.seq [.term cx, .term sz])]

theorem seq_fragT (ts : List Term) (h : 2 ≤ ts.length) : FragT (.seq (ts.map Expr.term)) := by
  refine .seqN (by simpa using h) ?_
  intro e he
  simp only [List.mem_map] at he
  obtain ⟨t, _, rfl⟩ := he
  exact .term t

theorem seq_terms (ts : List Term) (h : ∀ t ∈ ts, t.FragV) :
    TermsOf Term.FragV (.seq (ts.map Expr.term)) := by
  refine .seq ?_
  intro e he
  simp only [List.mem_map] at he
  obtain ⟨t, ht, rfl⟩ := he
  exact .term (h t ht)

theorem all3 : ∀ t ∈ [cx, cy, sz], t.FragV := by
  intro t ht
  simp only [List.mem_cons, List.not_mem_nil, or_false] at ht
  rcases ht with rfl | rfl | rfl
  · exact cx_fragV
  · exact cy_fragV
  · exact sz_fragV

theorem and2_fragT {a b : Expr} (ha : FragT a) (hb : FragT b) : FragT (.and [a, b]) := by
  refine .and (by simp) ?_
  intro e he
  simp only [List.mem_cons, List.not_mem_nil, or_false] at he
  rcases he with rfl | rfl
  · exact ha
  · exact hb

theorem and2_terms {P : Term → Prop} {a b : Expr} (ha : TermsOf P a) (hb : TermsOf P b) :
    TermsOf P (.and [a, b]) := by
  refine .and ?_
  intro e he
  simp only [List.mem_cons, List.not_mem_nil, or_false] at he
  rcases he with rfl | rfl
  · exact ha
  · exact hb

theorem e2_fragT : FragT e2 :=
  and2_fragT (.not (.grp (seq_fragT [cx, cy] (by decide)))) (.grp (seq_fragT [cx, cy, sz] (by decide)))

theorem e2_terms : TermsOf Term.FragV e2 :=
  and2_terms (.not (.grp (seq_terms [cx, cy] (fun t ht => all3 t (by
      simp only [List.mem_cons, List.not_mem_nil, or_false] at ht ⊢
      rcases ht with rfl | rfl <;> simp)))))
    (.grp (seq_terms [cx, cy, sz] all3))

theorem e3_fragT : FragT e3 :=
  and2_fragT (.not (.grp (seq_fragT [cx, cy] (by decide)))) (.grp (seq_fragT [cx, sz] (by decide)))

theorem e3_terms : TermsOf Term.FragV e3 :=
  and2_terms (.not (.grp (seq_terms [cx, cy] (fun t ht => all3 t (by
      simp only [List.mem_cons, List.not_mem_nil, or_false] at ht ⊢
      rcases ht with rfl | rfl <;> simp)))))
    (.grp (seq_terms [cx, sz] (fun t ht => all3 t (by
      simp only [List.mem_cons, List.not_mem_nil, or_false] at ht ⊢
      rcases ht with rfl | rfl <;> simp))))

set_option maxRecDepth 100000 in
/-- "x then y then z, but not x then y" is recognised as unsatisfiable … -/
theorem e2_parse : parse 0 e2 = .ok .nothing := by decide

/-- … and it is: `impossible_only_if_unsat_then` applies to a concrete query -/
theorem e2_unsat (ρ : Env) (hρ : Env.WF ρ) (hid : Env.IdOK ρ) : evalExprT 0 ρ e2 = false :=
  impossible_only_if_unsat_then 0 e2 e2_fragT e2_terms e2_parse ρ hρ hid

/-- normal form of `e3`: the chain `x > y` fails at its last element and the chain `x > z` matches
    (the alternative "x does not match at all" contradicts `x > z` and is dropped) -/
def p3 : Parsed := .set
  [[.data { els := [{ sq := "", regex := "x", vars := [], flags := 0, conv := "" },
                    { sq := "", regex := "y", vars := [], flags := 0, conv := "" }], inv := true },
    .data { els := [{ sq := "", regex := "x", vars := [], flags := 0, conv := "" },
                    { sq := "", regex := "z", vars := [], flags := 1, conv := "" }], inv := false }]]

set_option maxRecDepth 100000 in
theorem e3_parse : parse 0 e3 = .ok p3 := by decide

theorem e3_sound (ρ : Env) (hρ : Env.WF ρ) (hid : Env.IdOK ρ) :
    evalParsed p3 ρ = evalExprT 0 ρ e3 :=
  normalise_sound_then 0 e3 e3_fragT e3_terms p3 e3_parse ρ hρ hid

end ExampleT

end Pk.Query
