/-
  Soundness of `cleanTime` (cleanTimeConditions).
-/
import Pk.Proofs.Query.Basic

namespace Pk.Query

/-! ### value of a summand list -/

@[simp] theorem timeSumVal_nil (ρ : Env) : timeSumVal ρ [] = 0 := rfl

@[simp] theorem timeSumVal_cons (ρ : Env) (s : TimeSummand) (l : List TimeSummand) :
    timeSumVal ρ (s :: l) = s.f * (ρ s.sq).ftime + s.l * (ρ s.sq).ltime + timeSumVal ρ l := by
  simp [timeSumVal]

theorem timeSumVal_perm (ρ : Env) {l₁ l₂ : List TimeSummand} (h : l₁.Perm l₂) :
    timeSumVal ρ l₁ = timeSumVal ρ l₂ := by
  induction h with
  | nil => rfl
  | cons x _ ih => simp [ih]
  | swap x y l => simp only [timeSumVal_cons]; omega
  | trans _ _ ih1 ih2 => exact ih1.trans ih2

theorem evalTime_eq (c : TimeC) (ρ : Env) : evalTime c ρ = decide (0 ≤ c.dur + timeSumVal ρ c.sum) := rfl

theorem evalTime_congr (a b : TimeC) (ρ : Env) (hn : a.dur = b.dur)
    (hs : timeSumVal ρ a.sum = timeSumVal ρ b.sum) : evalTime a ρ = evalTime b ρ := by
  simp [evalTime_eq, hn, hs]

/-! ### per-condition normalisation -/

theorem timeMerge_val (ρ : Env) (a : TimeSummand) (rest : List TimeSummand) :
    timeSumVal ρ (timeMerge a rest) = timeSumVal ρ (a :: rest) := by
  induction rest generalizing a with
  | nil => simp [timeMerge]
  | cons b rest ih =>
    simp only [timeMerge]
    split
    · rename_i h
      rw [ih]
      simp only [timeSumVal_cons]
      rw [h, Int.add_mul, Int.add_mul]; omega
    · split
      · rename_i h0
        rw [ih]; simp [h0.1, h0.2]
      · simp only [timeSumVal_cons, ih]

theorem timeSumVal_getLast (ρ : Env) (l : List TimeSummand) (s : TimeSummand)
    (h : l.getLast? = some s) :
    timeSumVal ρ l = timeSumVal ρ l.dropLast + (s.f * (ρ s.sq).ftime + s.l * (ρ s.sq).ltime) := by
  induction l with
  | nil => simp at h
  | cons a l ih =>
    cases l with
    | nil =>
      simp at h; subst h; simp
    | cons b l =>
      rw [List.getLast?_cons_cons] at h
      have := ih h
      simp only [List.dropLast_cons_cons, timeSumVal_cons] at this ⊢
      omega

theorem dropLastZero_val (ρ : Env) (l : List TimeSummand) :
    timeSumVal ρ (dropLastZero l) = timeSumVal ρ l := by
  unfold dropLastZero
  split
  · rename_i s hs
    split
    · rename_i hz
      rw [timeSumVal_getLast ρ l s hs, hz.1, hz.2]; simp
    · rfl
  · rfl

theorem timeNorm_dur (tc : TimeC) : (timeNorm tc).dur = tc.dur := by
  unfold timeNorm; split <;> rfl

theorem timeNorm_val (tc : TimeC) (ρ : Env) :
    timeSumVal ρ (timeNorm tc).sum = timeSumVal ρ tc.sum := by
  have hperm := timeSumVal_perm ρ (isort_perm timeSumLt tc.sum)
  unfold timeNorm
  generalize isort timeSumLt tc.sum = srt at hperm
  cases srt with
  | nil => simpa using hperm
  | cons a rest =>
    simp only []
    rw [dropLastZero_val, timeMerge_val, hperm]

theorem timeNorm_sound (tc : TimeC) (ρ : Env) : evalTime (timeNorm tc) ρ = evalTime tc ρ :=
  evalTime_congr _ _ ρ (timeNorm_dur tc) (timeNorm_val tc ρ)

/-! ### first loop -/

namespace CleanTime

theorem optAll_map_cons {α : Type} (ev : α → Bool) (x : α) (o : Option (List α)) :
    optAll ev (o.map (x :: ·)) = (ev x && optAll ev o) := by
  cases o <;> simp

end CleanTime

open CleanTime in
theorem timeFirst_sound (tcs : List TimeC) (ρ : Env) (hρ : Env.WF ρ) :
    optAll (fun c => evalTime c ρ) (timeFirst tcs) = tcs.all (fun c => evalTime c ρ) := by
  induction tcs with
  | nil => simp [timeFirst]
  | cons tc rest ih =>
    have hn := timeNorm_sound tc ρ
    simp only [timeFirst, List.all_cons]
    rw [← hn]
    generalize timeNorm tc = tc' 
    split
    · rename_i hnil
      have hev : evalTime tc' ρ = decide (0 ≤ tc'.dur) := by simp [evalTime_eq, hnil]
      split
      · rename_i hneg
        have : evalTime tc' ρ = false := by rw [hev]; simp; omega
        simp [this]
      · rename_i hneg
        have : evalTime tc' ρ = true := by rw [hev]; simp; omega
        simp [this, ih]
    · rename_i s hs
      split
      · rw [optAll_map_cons, ih]
      · rename_i hfl
        have hl : s.l = - s.f := by omega
        have hwf := (hρ s.sq).1
        have hval : timeSumVal ρ tc'.sum = s.f * ((ρ s.sq).ftime - (ρ s.sq).ltime) := by
          rw [hs, timeSumVal_cons, hl, Int.mul_sub, Int.neg_mul]; simp; omega
        split
        · rename_i hpos
          have hle : s.f * ((ρ s.sq).ftime - (ρ s.sq).ltime) ≤ 0 :=
            Int.mul_nonpos_of_nonneg_of_nonpos (by omega) (by omega)
          split
          · rename_i hneg
            have : evalTime tc' ρ = false := by rw [evalTime_eq, hval]; simp; omega
            simp [this]
          · rw [optAll_map_cons, ih]
        · rename_i hpos
          have hge : 0 ≤ s.f * ((ρ s.sq).ftime - (ρ s.sq).ltime) := by
            have := Int.mul_nonneg (a := -s.f) (b := (ρ s.sq).ltime - (ρ s.sq).ftime) (by omega) (by omega)
            have e : -s.f * ((ρ s.sq).ltime - (ρ s.sq).ftime) = s.f * ((ρ s.sq).ftime - (ρ s.sq).ltime) := by
              rw [Int.neg_mul, ← Int.mul_neg]; congr 1; omega
            omega
          split
          · rename_i hdur
            have : evalTime tc' ρ = true := by rw [evalTime_eq, hval]; simp; omega
            simp [this, ih]
          · rw [optAll_map_cons, ih]
    · rw [optAll_map_cons, ih]

/-! ### sortedness: only the *adjacent* relation is needed -/

namespace CleanTime

/-- `R` holds between neighbours -/
def Adj {α : Type} (R : α → α → Prop) : List α → Prop
  | [] => True
  | [_] => True
  | a :: b :: l => R a b ∧ Adj R (b :: l)

theorem adj_insertBy_aux {α : Type} (lt : α → α → Bool) (R : α → α → Prop)
    (h1 : ∀ a b, lt a b = true → R a b) (h2 : ∀ a b, lt a b = false → R b a) (x : α) (ys : List α) :
    ∀ y, R y x → Adj R (y :: ys) → Adj R (y :: insertBy lt x ys) := by
  induction ys with
  | nil => intro y hyx _; exact ⟨hyx, trivial⟩
  | cons z zs ih =>
    intro y hyx hadj
    simp only [insertBy]
    split
    · rename_i hlt
      exact ⟨hadj.1, ih z (h1 z x hlt) hadj.2⟩
    · rename_i hlt
      exact ⟨hyx, h2 z x (by simpa using hlt), hadj.2⟩

theorem adj_insertBy {α : Type} (lt : α → α → Bool) (R : α → α → Prop)
    (h1 : ∀ a b, lt a b = true → R a b) (h2 : ∀ a b, lt a b = false → R b a) (x : α) (l : List α)
    (h : Adj R l) : Adj R (insertBy lt x l) := by
  cases l with
  | nil => trivial
  | cons y ys =>
    simp only [insertBy]
    split
    · rename_i hlt
      exact adj_insertBy_aux lt R h1 h2 x ys y (h1 y x hlt) h
    · rename_i hlt
      exact ⟨h2 y x (by simpa using hlt), h⟩

theorem adj_isort {α : Type} (lt : α → α → Bool) (R : α → α → Prop)
    (h1 : ∀ a b, lt a b = true → R a b) (h2 : ∀ a b, lt a b = false → R b a) (l : List α) :
    Adj R (isort lt l) := by
  induction l with
  | nil => trivial
  | cons x xs ih =>
    have : isort lt (x :: xs) = insertBy lt x (isort lt xs) := rfl
    rw [this]
    exact adj_insertBy lt R h1 h2 x _ ih

theorem lexCmp_refl {α : Type} (cmp : α → α → Ordering) (h : ∀ a, cmp a a = .eq) (l : List α) :
    lexCmp cmp l l = .eq := by
  induction l with
  | nil => rfl
  | cons a as ih => simp [lexCmp, h a, ih]

end CleanTime

open CleanTime

theorem cmpTimeSummand_refl (a : TimeSummand) : cmpTimeSummand a a = .eq := by
  simp [cmpTimeSummand]

/-- neighbours relation established by sorting with `timeLt` -/
def timeAdjR (a b : TimeC) : Prop := a.sum = b.sum ∧ a.rtf = b.rtf → a.dur ≤ b.dur

theorem timeLt_adj_true (a b : TimeC) (h : timeLt a b = true) : timeAdjR a b := by
  intro hs
  unfold timeLt at h
  rw [hs.1, hs.2, lexCmp_refl _ cmpTimeSummand_refl] at h
  simp at h
  omega

theorem timeLt_adj_false (a b : TimeC) (h : timeLt a b = false) : timeAdjR b a := by
  intro hs
  unfold timeLt at h
  rw [hs.1, hs.2, lexCmp_refl _ cmpTimeSummand_refl] at h
  simp at h
  omega

theorem timeDedup_sound (ρ : Env) (a : TimeC) (rest : List TimeC) (h : Adj timeAdjR (a :: rest)) :
    (timeDedup a rest).all (fun c => evalTime c ρ) = (a :: rest).all (fun c => evalTime c ρ) := by
  induction rest generalizing a with
  | nil => simp [timeDedup]
  | cons b rest ih =>
    simp only [timeDedup]
    split
    · rename_i hs
      have hab : a.dur ≤ b.dur := h.1 hs
      have hadj : Adj timeAdjR (a :: rest) := by
        cases rest with
        | nil => trivial
        | cons c rest' =>
          refine ⟨?_, h.2.2⟩
          intro hac
          have := h.2.1 ⟨hs.1.symm.trans hac.1, hs.2.symm.trans hac.2⟩
          omega
      rw [ih a hadj]
      simp only [List.all_cons]
      have : (evalTime a ρ && evalTime b ρ) = evalTime a ρ := by
        simp only [evalTime_eq, ← hs.1]
        apply Bool.eq_iff_iff.mpr
        simp only [Bool.and_eq_true, decide_eq_true_eq]
        omega
      rw [← Bool.and_assoc, this]
    · simp only [List.all_cons, ih b h.2]

/-! ### main theorem -/

theorem cleanTime_sound (tcs : List TimeC) (ρ : Env) (hρ : Env.WF ρ) :
    optAll (fun c => evalTime c ρ) (cleanTime tcs) = tcs.all (fun c => evalTime c ρ) := by
  have hf := timeFirst_sound tcs ρ hρ
  unfold cleanTime
  cases hfirst : timeFirst tcs with
  | none => rw [hfirst] at hf; simpa using hf
  | some l =>
    rw [hfirst] at hf
    simp only [optAll_some] at hf
    have hadj := adj_isort timeLt timeAdjR timeLt_adj_true timeLt_adj_false l
    have hall := all_isort timeLt l (fun c => evalTime c ρ)
    simp only []
    generalize isort timeLt l = srt at hadj hall
    cases srt with
    | nil => simp only [optAll_some]; rw [← hf, ← hall]
    | cons a rest =>
      simp only [optAll_some]
      rw [timeDedup_sound ρ a rest hadj, hall, hf]

end Pk.Query
