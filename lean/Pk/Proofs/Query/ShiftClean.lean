/-
  C14 (reference-time shift), part 2: `Conj.clean` and `CSet.Clean` commute with the shift on
  conjuncts whose time conditions are `Safe`, and keep every `TInv` invariant.
-/
import Pk.Proofs.Query.ShiftDefs

namespace Pk.Query
namespace Shift

/-! ### insertion sort under a comparison-preserving map -/

theorem insertBy_map {α : Type} (lt : α → α → Bool) (f : α → α) (h : ∀ a b, lt (f a) (f b) = lt a b)
    (x : α) (l : List α) : insertBy lt (f x) (l.map f) = (insertBy lt x l).map f := by
  induction l with
  | nil => rfl
  | cons y ys ih =>
    simp only [List.map_cons, insertBy, h]
    split
    · rw [ih]; rfl
    · rfl

theorem isort_map {α : Type} (lt : α → α → Bool) (f : α → α) (h : ∀ a b, lt (f a) (f b) = lt a b)
    (l : List α) : isort lt (l.map f) = (isort lt l).map f := by
  induction l with
  | nil => rfl
  | cons x xs ih =>
    have e1 : isort lt (x :: xs) = insertBy lt x (isort lt xs) := rfl
    have e2 : isort lt ((x :: xs).map f) = insertBy lt (f x) (isort lt (xs.map f)) := rfl
    rw [e1, e2, ih, insertBy_map lt f h]

/-! ### cleanTime -/

theorem timeNorm_shift (d : Int) (c : TimeC) : timeNorm (shiftT d c) = shiftT d (timeNorm c) := by
  unfold timeNorm
  show (match isort timeSumLt c.sum with
        | [] => { shiftT d c with sum := [] }
        | a :: rest => { shiftT d c with sum := dropLastZero (timeMerge a rest) }) = _
  generalize isort timeSumLt c.sum = srt
  cases srt <;> rfl

theorem timeFirst_shift (d : Int) : ∀ (l : List TimeC), (∀ c ∈ l, c.Safe) →
    timeFirst (l.map (shiftT d)) = (timeFirst l).map (List.map (shiftT d))
  | [], _ => rfl
  | c :: rest, h => by
    have ih := timeFirst_shift d rest (fun x hx => h x (List.mem_cons_of_mem _ hx))
    have hs : (timeNorm c).Safe := tinv_safe.norm c (h c List.mem_cons_self)
    simp only [List.map_cons, timeFirst]
    rw [timeNorm_shift, ih]
    generalize timeNorm c = tc' at hs
    obtain ⟨sum, dur, rtf⟩ := tc'
    unfold TimeC.Safe at hs
    simp only at hs
    match sum, hs with
    | [], hs =>
      have hr : rtf = 0 := by simpa using hs
      subst hr
      simp only [shiftT, Int.zero_mul, Int.add_zero]
      split
      · rfl
      · rfl
    | [s], hs =>
      simp only [shiftT]
      by_cases hz : s.f + s.l = 0
      · have hr : rtf = 0 := by
          rcases hs with hs | hs
          · exact hs
          · simp only [tot_cons, tot_nil] at hs; omega
        subst hr
        simp only [Int.zero_mul, Int.add_zero]
        cases timeFirst rest <;> simp
        all_goals (split <;> (try split) <;> (try split) <;> simp_all [shiftT])
      · simp only [hz, ne_eq, not_false_eq_true, if_true]
        cases timeFirst rest <;> simp [shiftT]
    | _ :: _ :: _, _ =>
      simp only [shiftT]
      cases timeFirst rest <;> simp [shiftT]

theorem timeLt_shift (d : Int) (a b : TimeC) : timeLt (shiftT d a) (shiftT d b) = timeLt a b := by
  obtain ⟨as, ad, ar⟩ := a
  obtain ⟨bs, bd, br⟩ := b
  show timeLt ⟨as, ad + ar * d, ar⟩ ⟨bs, bd + br * d, br⟩ = timeLt ⟨as, ad, ar⟩ ⟨bs, bd, br⟩
  simp only [timeLt]
  by_cases h1 : as.length ≠ bs.length
  · rw [if_pos h1, if_pos h1]
  · rw [if_neg h1, if_neg h1]
    cases lexCmp cmpTimeSummand as bs with
    | lt => rfl
    | gt => rfl
    | eq =>
      simp only
      by_cases hr : ar ≠ br
      · rw [if_pos hr, if_pos hr]
      · rw [if_neg hr, if_neg hr]
        have hr' : ar = br := by simpa using hr
        subst hr'
        apply Bool.eq_iff_iff.mpr
        simp only [decide_eq_true_eq]
        omega

theorem timeDedup_shift (d : Int) : ∀ (l : List TimeC) (a : TimeC),
    timeDedup (shiftT d a) (l.map (shiftT d)) = (timeDedup a l).map (shiftT d)
  | [], a => rfl
  | b :: rest, a => by
    have ih1 := timeDedup_shift d rest a
    have ih2 := timeDedup_shift d rest b
    obtain ⟨as, ad, ar⟩ := a
    obtain ⟨bs, bd, br⟩ := b
    show timeDedup ⟨as, ad + ar * d, ar⟩ (⟨bs, bd + br * d, br⟩ :: rest.map (shiftT d)) =
      (timeDedup ⟨as, ad, ar⟩ (⟨bs, bd, br⟩ :: rest)).map (shiftT d)
    simp only [timeDedup]
    by_cases h : as = bs ∧ ar = br
    · rw [if_pos h, if_pos h]
      exact ih1
    · rw [if_neg h, if_neg h]
      exact congrArg (List.cons (shiftT d ⟨as, ad, ar⟩)) ih2

theorem cleanTime_shift (d : Int) (l : List TimeC) (h : ∀ c ∈ l, c.Safe) :
    cleanTime (l.map (shiftT d)) = (cleanTime l).map (List.map (shiftT d)) := by
  unfold cleanTime
  rw [timeFirst_shift d l h]
  cases timeFirst l with
  | none => rfl
  | some r =>
    simp only [Option.map_some]
    rw [isort_map timeLt (shiftT d) (timeLt_shift d)]
    cases isort timeLt r with
    | nil => rfl
    | cons a rest =>
      simp only [List.map_cons, Option.map_some]
      rw [timeDedup_shift]

/-! #### members of the result are normalised members of the input -/

theorem timeFirst_mem : ∀ (l r : List TimeC), timeFirst l = some r → ∀ x ∈ r, ∃ c ∈ l, x = timeNorm c
  | [], r, h, x, hx => by
    simp only [timeFirst, Option.some.injEq] at h
    subst h; cases hx
  | c :: rest, r, h, x, hx => by
    simp only [timeFirst] at h
    have keep : ∀ r', (timeFirst rest).map (timeNorm c :: ·) = some r' → ∀ x ∈ r', ∃ c' ∈ c :: rest, x = timeNorm c' := by
      intro r' h' x hx
      cases hr : timeFirst rest with
      | none => rw [hr] at h'; cases h'
      | some r0 =>
        rw [hr] at h'
        simp only [Option.map_some, Option.some.injEq] at h'
        subst h'
        rcases List.mem_cons.mp hx with rfl | hx
        · exact ⟨c, List.mem_cons_self, rfl⟩
        · obtain ⟨c', hc', he⟩ := timeFirst_mem rest r0 hr x hx
          exact ⟨c', List.mem_cons_of_mem _ hc', he⟩
    have drop : ∀ r', timeFirst rest = some r' → ∀ x ∈ r', ∃ c' ∈ c :: rest, x = timeNorm c' := by
      intro r' h' x hx
      obtain ⟨c', hc', he⟩ := timeFirst_mem rest r' h' x hx
      exact ⟨c', List.mem_cons_of_mem _ hc', he⟩
    split at h
    · split at h
      · cases h
      · exact drop r h x hx
    · split at h
      · exact keep r h x hx
      · split at h
        · split at h
          · cases h
          · exact keep r h x hx
        · split at h
          · exact drop r h x hx
          · exact keep r h x hx
    · exact keep r h x hx

theorem timeDedup_mem : ∀ (l : List TimeC) (a x : TimeC), x ∈ timeDedup a l → x ∈ a :: l
  | [], a, x, h => by simpa [timeDedup] using h
  | b :: rest, a, x, h => by
    simp only [timeDedup] at h
    split at h
    · rcases List.mem_cons.mp (timeDedup_mem rest a x h) with rfl | h'
      · exact List.mem_cons_self
      · exact List.mem_cons_of_mem _ (List.mem_cons_of_mem _ h')
    · rcases List.mem_cons.mp h with rfl | h
      · exact List.mem_cons_self
      · exact List.mem_cons_of_mem _ (timeDedup_mem rest b x h)

theorem cleanTime_mem (l r : List TimeC) (h : cleanTime l = some r) : ∀ x ∈ r, ∃ c ∈ l, x = timeNorm c := by
  unfold cleanTime at h
  split at h
  · cases h
  · rename_i l' hl'
    have hsorted : ∀ x ∈ isort timeLt l', ∃ c ∈ l, x = timeNorm c :=
      fun x hx => timeFirst_mem l l' hl' x ((mem_isort timeLt l' x).mp hx)
    split at h
    · cases h; intro x hx; cases hx
    · rename_i a rest hsrt
      cases h
      intro x hx
      exact hsorted x (hsrt ▸ timeDedup_mem rest a x hx)

/-! ### Conj.clean -/

theorem any_impossible_shift (d : Int) (c : Conj) :
    (shiftJ d c).any (· = Cond.impossible) = c.any (· = Cond.impossible) := by
  induction c with
  | nil => rfl
  | cons x c ih =>
    simp only [shiftJ_cons, List.any_cons, ih]
    cases x <;> simp [shiftC]

theorem fm_tag (d : Int) (c : Conj) : (shiftJ d c).filterMap Cond.tag? = c.filterMap Cond.tag? := by
  induction c with
  | nil => rfl
  | cons x c ih => cases x <;> simp [shiftC, Cond.tag?, List.filterMap_cons, ih]

theorem fm_flag (d : Int) (c : Conj) : (shiftJ d c).filterMap Cond.flag? = c.filterMap Cond.flag? := by
  induction c with
  | nil => rfl
  | cons x c ih => cases x <;> simp [shiftC, Cond.flag?, List.filterMap_cons, ih]

theorem fm_host (d : Int) (c : Conj) : (shiftJ d c).filterMap Cond.host? = c.filterMap Cond.host? := by
  induction c with
  | nil => rfl
  | cons x c ih => cases x <;> simp [shiftC, Cond.host?, List.filterMap_cons, ih]

theorem fm_num (d : Int) (c : Conj) : (shiftJ d c).filterMap Cond.num? = c.filterMap Cond.num? := by
  induction c with
  | nil => rfl
  | cons x c ih => cases x <;> simp [shiftC, Cond.num?, List.filterMap_cons, ih]

theorem fm_data (d : Int) (c : Conj) : (shiftJ d c).filterMap Cond.data? = c.filterMap Cond.data? := by
  induction c with
  | nil => rfl
  | cons x c ih => cases x <;> simp [shiftC, Cond.data?, List.filterMap_cons, ih]

theorem fm_time (d : Int) (c : Conj) :
    (shiftJ d c).filterMap Cond.time? = (c.filterMap Cond.time?).map (shiftT d) := by
  induction c with
  | nil => rfl
  | cons x c ih => cases x <;> simp [shiftC, Cond.time?, List.filterMap_cons, ih]

theorem mem_fm_time {c : Conj} {tc : TimeC} (h : tc ∈ c.filterMap Cond.time?) : Cond.time tc ∈ c := by
  obtain ⟨x, hx, hxe⟩ := List.mem_filterMap.mp h
  cases x <;> simp [Cond.time?] at hxe
  subst hxe; exact hx

theorem conj_clean_shift (d : Int) (c : Conj) (h : Conj.TP TimeC.Safe c) :
    Conj.clean (shiftJ d c) = shiftJ d (Conj.clean c) := by
  unfold Conj.clean
  rw [any_impossible_shift, fm_tag, fm_flag, fm_host, fm_num, fm_data, fm_time,
    cleanTime_shift d _ (fun tc htc => h tc (mem_fm_time htc))]
  split
  · rfl
  · generalize cleanTag _ = o1
    generalize cleanFlag _ = o2
    generalize cleanHost _ = o3
    generalize cleanNumber _ = o4
    generalize cleanTime _ = o5
    generalize cleanData _ = o6
    cases o1 <;> cases o2 <;> cases o3 <;> cases o4 <;> cases o5 <;> cases o6 <;>
      simp [shiftJ, List.map_map, Function.comp_def, shiftC, impossibleConj]

/-- every time condition of a cleaned conjunct is a normalised time condition of the input -/
theorem conj_clean_time_mem (c : Conj) (tc : TimeC) (h : Cond.time tc ∈ Conj.clean c) :
    ∃ c0, Cond.time c0 ∈ c ∧ tc = timeNorm c0 := by
  unfold Conj.clean at h
  split at h
  · simp [impossibleConj] at h
  · split at h
    · rename_i lcs fcs hcs ncs tcs dcs _ _ _ _ ht _
      simp only [List.mem_append, List.mem_map] at h
      have htc : tc ∈ tcs := by
        rcases h with ((((⟨_, _, h⟩ | ⟨_, _, h⟩) | ⟨_, _, h⟩) | ⟨_, _, h⟩) | ⟨x, hx, h⟩) | ⟨_, _, h⟩
        all_goals first | cases h | skip
        exact hx
      obtain ⟨c0, hc0, he⟩ := cleanTime_mem _ _ ht tc htc
      exact ⟨c0, mem_fm_time hc0, he⟩
    · simp [impossibleConj] at h

theorem conj_clean_tp {P : TimeC → Prop} (hP : TInv P) (c : Conj) (h : Conj.TP P c) :
    Conj.TP P (Conj.clean c) := by
  intro tc htc
  obtain ⟨c0, hc0, rfl⟩ := conj_clean_time_mem c tc htc
  exact hP.norm c0 (h c0 hc0)

theorem conj_and_shift (d : Int) (a b : Conj) (ha : Conj.TP TimeC.Safe a) (hb : Conj.TP TimeC.Safe b) :
    Conj.and (shiftJ d a) (shiftJ d b) = shiftJ d (Conj.and a b) := by
  unfold Conj.and
  rw [← shiftJ_append, conj_clean_shift d _ (tp_append ha hb)]

theorem conj_and_tp {P : TimeC → Prop} (hP : TInv P) {a b : Conj} (ha : Conj.TP P a) (hb : Conj.TP P b) :
    Conj.TP P (Conj.and a b) := conj_clean_tp hP _ (tp_append ha hb)

theorem isImpossible_shift (d : Int) (c : Conj) : Conj.isImpossible (shiftJ d c) = Conj.isImpossible c := by
  unfold Conj.isImpossible
  have : (shiftJ d c = impossibleConj) ↔ c = impossibleConj :=
    ⟨fun h => shiftJ_inj d (h.trans (shiftJ_impossible d).symm), fun h => by subst h; rfl⟩
  simp only [this]

/-! ### the simple-ID fast path -/

theorem extractLoop_shift (d : Int) : ∀ (l : List Cond) (mn mx : Nat),
    extractLoop (shiftJ d l) mn mx = extractLoop l mn mx
  | [], _, _ => rfl
  | x :: rest, mn, mx => by
    cases x with
    | num nc =>
      simp only [shiftJ_cons, shiftC, extractLoop]
      split
      · split
        · rfl
        · split
          · exact extractLoop_shift d rest _ _
          · split
            · split
              · rfl
              · exact extractLoop_shift d rest _ _
            · rfl
      · rfl
    | _ => simp [shiftC, extractLoop]

theorem extractSimpleID_shift (d : Int) (c : Conj) :
    Conj.extractSimpleID (shiftJ d c) = Conj.extractSimpleID c := by
  unfold Conj.extractSimpleID
  rw [extractLoop_shift]
  by_cases hc : c = []
  · subst hc; rfl
  · have : shiftJ d c ≠ [] := fun h => hc ((shiftJ_eq_nil d c).mp h)
    simp [hc, this]

theorem simpleIDs_shift (d : Int) : ∀ (cs : CSet), CSet.TP TimeC.Safe cs →
    simpleIDs (shiftS d cs) = simpleIDs cs
  | [], _ => rfl
  | cc :: rest, h => by
    simp only [shiftS_cons, simpleIDs]
    rw [conj_clean_shift d cc (h cc List.mem_cons_self), extractSimpleID_shift,
      simpleIDs_shift d rest (cset_tp_tail h)]

theorem idRangeConj_noTime (lo hi : Nat) : NoTimeJ (idRangeConj lo hi) := by
  intro tc h
  simp [idRangeConj] at h

theorem cleanSimpleID_noTime (cs r : CSet) (h : CSet.cleanSimpleID cs = some r) : NoTime r := by
  unfold CSet.cleanSimpleID at h
  split at h
  · cases h
  · split at h
    · cases h
    · split at h
      · cases h; intro c hc; cases hc
      · cases h
        intro c hc
        obtain ⟨r, _, rfl⟩ := List.mem_map.mp hc
        exact idRangeConj_noTime _ _

theorem cleanSimpleID_shift (d : Int) (cs : CSet) (h : CSet.TP TimeC.Safe cs) :
    CSet.cleanSimpleID (shiftS d cs) = CSet.cleanSimpleID cs := by
  unfold CSet.cleanSimpleID
  rw [simpleIDs_shift d cs h]
  by_cases hc : cs = []
  · subst hc; rfl
  · have : shiftS d cs ≠ [] := fun h => hc ((shiftS_eq_nil d cs).mp h)
    simp [hc, this]

/-! ### the absorption loop -/

theorem absorb_shift (d : Int) (cc : Conj) (hcc : Conj.TP TimeC.Safe cc) : ∀ (new : List Conj),
    CSet.TP TimeC.Safe new → absorb (shiftJ d cc) (shiftS d new) = (absorb cc new).map (shiftS d)
  | [], _ => rfl
  | cc2 :: rest, hn => by
    have h2 : Conj.TP TimeC.Safe cc2 := hn cc2 List.mem_cons_self
    have ih := absorb_shift d cc hcc rest (cset_tp_tail hn)
    simp only [shiftS_cons, absorb]
    rw [conj_and_shift d cc cc2 hcc h2, conj_clean_shift d _ (conj_and_tp tinv_safe hcc h2), ih]
    simp only [shiftJ_eq_iff]
    split
    · rfl
    · split
      · rfl
      · split
        · rfl
        · cases absorb cc rest <;> rfl

theorem absorb_tp {P : TimeC → Prop} (cc : Conj) (hcc : Conj.TP P cc) : ∀ (new new' : List Conj),
    CSet.TP P new → absorb cc new = some new' → CSet.TP P new'
  | [], _, _, h => by cases h
  | cc2 :: rest, new', hn, h => by
    simp only [absorb] at h
    have hrest : CSet.TP P rest := cset_tp_tail hn
    split at h
    · cases h; exact hn
    · split at h
      · cases h; exact hn
      · split at h
        · cases h
          exact cset_tp_cons hcc hrest
        · cases hr : absorb cc rest with
          | none => rw [hr] at h; cases h
          | some r =>
            rw [hr] at h
            simp only [Option.map_some, Option.some.injEq] at h
            subst h
            exact cset_tp_cons (hn _ List.mem_cons_self) (absorb_tp cc hcc rest r hrest hr)

theorem cleanLoop_tp {P : TimeC → Prop} (hP : TInv P) : ∀ (rest new : List Conj), CSet.TP P new →
    CSet.TP P rest → CSet.TP P (cleanLoop new rest)
  | [], new, hn, _ => by simpa [cleanLoop] using hn
  | cc :: rest, new, hn, hr => by
    have hcl : Conj.TP P (Conj.clean cc) := conj_clean_tp hP cc (hr cc List.mem_cons_self)
    have hrest : CSet.TP P rest := cset_tp_tail hr
    simp only [cleanLoop]
    split
    · exact cleanLoop_tp hP rest new hn hrest
    · cases ha : absorb (Conj.clean cc) new with
      | some new' => exact cleanLoop_tp hP rest new' (absorb_tp _ hcl new new' hn ha) hrest
      | none =>
        exact cleanLoop_tp hP rest _ (cset_tp_append hn (cset_tp_cons hcl (cset_tp_nil P))) hrest

theorem cleanLoop_shift (d : Int) : ∀ (rest new : List Conj), CSet.TP TimeC.Safe new →
    CSet.TP TimeC.Safe rest → cleanLoop (shiftS d new) (shiftS d rest) = shiftS d (cleanLoop new rest)
  | [], new, _, _ => by simp [cleanLoop]
  | cc :: rest, new, hn, hr => by
    have hcc : Conj.TP TimeC.Safe cc := hr cc List.mem_cons_self
    have hcl : Conj.TP TimeC.Safe (Conj.clean cc) := conj_clean_tp tinv_safe cc hcc
    have hrest : CSet.TP TimeC.Safe rest := cset_tp_tail hr
    simp only [shiftS_cons, cleanLoop]
    rw [conj_clean_shift d cc hcc, isImpossible_shift, absorb_shift d _ hcl new hn]
    split
    · exact cleanLoop_shift d rest new hn hrest
    · cases ha : absorb (Conj.clean cc) new with
      | some new' =>
        simp only [Option.map_some]
        exact cleanLoop_shift d rest new' (absorb_tp _ hcl new new' hn ha) hrest
      | none =>
        simp only [Option.map_none]
        have := cleanLoop_shift d rest (new ++ [Conj.clean cc])
          (cset_tp_append hn (cset_tp_cons hcl (cset_tp_nil _))) hrest
        simpa using this

/-! ### CSet.Clean -/

theorem Clean_shift (d : Int) (cs : CSet) (h : CSet.TP TimeC.Safe cs) :
    CSet.Clean (shiftS d cs) = shiftS d (CSet.Clean cs) := by
  unfold CSet.Clean
  rw [cleanSimpleID_shift d cs h]
  cases hs : CSet.cleanSimpleID cs with
  | some r => exact ((cleanSimpleID_noTime cs r hs).shift d).symm
  | none =>
    simp only
    have hl := cleanLoop_shift d cs [] (cset_tp_nil _) h
    simp only [shiftS_nil] at hl
    rw [hl]
    by_cases h1 : cleanLoop [] cs = [] <;> by_cases h2 : cs = [] <;>
      simp [h1, h2, shiftS_eq_nil]

theorem Clean_tp {P : TimeC → Prop} (hP : TInv P) (cs : CSet) (h : CSet.TP P cs) : CSet.TP P (CSet.Clean cs) := by
  unfold CSet.Clean
  split
  · rename_i r hr
    exact (cleanSimpleID_noTime cs r hr).tp P
  · simp only
    split
    · exact cset_tp_cons (tp_impossible P) (cset_tp_nil P)
    · exact cleanLoop_tp hP cs [] (cset_tp_nil P) h

end Shift
end Pk.Query
