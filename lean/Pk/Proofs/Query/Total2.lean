/-
  C14, part 2: every number condition that occurs anywhere during `translate` is parser-shaped
  (`NumC.OK`), hence no call of `Conditions.clean` during a whole parse (`translate` followed by
  `finish`) reaches the integer-divide-by-zero site of `cleanNumberConditions`.
-/
import Pk.Proofs.Query.Total

namespace Pk.Query

/-- every number condition of every conjunct is parser-shaped -/
def CSet.NumOK (cs : CSet) : Prop := ∀ c ∈ cs, Conj.NumOK c

namespace Total

/-! ### conjunct level -/

theorem numOK_nil : Conj.NumOK [] := fun _ h => absurd h List.not_mem_nil

theorem numOK_append {a b : Conj} (ha : Conj.NumOK a) (hb : Conj.NumOK b) : Conj.NumOK (a ++ b) := by
  intro nc h
  rcases List.mem_append.mp h with h | h
  · exact ha nc h
  · exact hb nc h

theorem numOK_impossible : Conj.NumOK impossibleConj := by
  intro nc h
  simp [impossibleConj] at h

/-- a conjunct with parser-shaped number conditions does not reach the divide-by-zero site -/
theorem numOK_site_free {c : Conj} (h : Conj.NumOK c) :
    ∀ nc ∈ c.filterMap Cond.num?, numNormSite nc = false := (conj_clean_numOK c h).2

theorem and_numOK {a b : Conj} (ha : Conj.NumOK a) (hb : Conj.NumOK b) : Conj.NumOK (Conj.and a b) :=
  (conj_clean_numOK (a ++ b) (numOK_append ha hb)).1

theorem seq_mem_num {a b : Conj} {nc : NumC} (h : Cond.num nc ∈ Conj.seq a b) :
    Cond.num nc ∈ a ∨ Cond.num nc ∈ b := by
  unfold Conj.seq at h
  simp only at h
  split at h
  · simp only [List.mem_append, List.mem_filter, List.mem_map] at h
    rcases h with ((⟨h, _⟩ | ⟨h, _⟩) | ⟨x, _, hx⟩) | ⟨x, _, hx⟩
    · exact Or.inl h
    · exact Or.inr h
    · cases hx
    · cases hx
  · simp only [List.mem_append, List.mem_filter, List.mem_flatMap, List.mem_map] at h
    rcases h with (⟨h, _⟩ | ⟨h, _⟩) | ⟨adc, _, h⟩
    · exact Or.inl h
    · exact Or.inr h
    · rcases h with h | ⟨x, _, hx⟩
      · split at h
        · simp at h
        · cases h
      · cases hx

theorem seq_numOK {a b : Conj} (ha : Conj.NumOK a) (hb : Conj.NumOK b) : Conj.NumOK (Conj.seq a b) := by
  intro nc h
  rcases seq_mem_num h with h | h
  · exact ha nc h
  · exact hb nc h

/-! ### set level -/

theorem cset_numOK_nil : CSet.NumOK [] := fun _ h => absurd h List.not_mem_nil

theorem cset_numOK_append {a b : CSet} (ha : CSet.NumOK a) (hb : CSet.NumOK b) : CSet.NumOK (a ++ b) := by
  intro c h
  rcases List.mem_append.mp h with h | h
  · exact ha c h
  · exact hb c h

theorem or_numOK {a b : GSet} (ha : CSet.NumOK a.items) (hb : CSet.NumOK b.items) :
    CSet.NumOK (GSet.Or a b).items := by
  unfold GSet.Or
  simp only
  split
  · exact cset_numOK_nil
  · exact cset_numOK_append ha hb

theorem andPairs_numOK {a b : CSet} (ha : CSet.NumOK a) (hb : CSet.NumOK b) : CSet.NumOK (CSet.andPairs a b) := by
  intro c hc
  simp only [CSet.andPairs, List.mem_flatMap, List.mem_map] at hc
  obtain ⟨c1, h1, c2, h2, rfl⟩ := hc
  exact and_numOK (ha c1 h1) (hb c2 h2)

theorem And_numOK {a b : GSet} (ha : CSet.NumOK a.items) (hb : CSet.NumOK b.items) :
    CSet.NumOK (GSet.And a b).items := by
  unfold GSet.And
  split
  · exact hb
  · split
    · exact ha
    · exact andPairs_numOK ha hb

theorem gseq_numOK {a b : GSet} (ha : CSet.NumOK a.items) (hb : CSet.NumOK b.items) :
    CSet.NumOK (GSet.seq a b).items := by
  unfold GSet.seq
  split
  · exact hb
  · split
    · exact ha
    · simp only
      split
      · exact cset_numOK_nil
      · intro c hc
        simp only [GSet.items, List.mem_flatMap, List.mem_map] at hc
        obtain ⟨c1, h1, c2, h2, rfl⟩ := hc
        exact seq_numOK (ha c1 h1) (hb c2 h2)

/-! ### negation -/

theorem cond_invert_numOK (x : Cond) (hx : ∀ nc, x = Cond.num nc → nc.OK) : CSet.NumOK (Cond.invert x) := by
  cases x with
  | num nc => exact invert_num_ok nc (hx nc rfl)
  | flag f => exact (noNum_invert_flag f).numOK
  | tag c => intro c' hc' nc hnc; simp [Cond.invert] at hc'; subst hc'; simp at hnc
  | host c => intro c' hc' nc hnc; simp [Cond.invert] at hc'; subst hc'; simp at hnc
  | time c => intro c' hc' nc hnc; simp [Cond.invert] at hc'; subst hc'; simp at hnc
  | impossible => intro c' hc' nc hnc; simp [Cond.invert] at hc'; subst hc'; simp at hnc
  | data c =>
    intro c' hc' nc hnc
    simp only [Cond.invert, List.mem_map] at hc'
    obtain ⟨i, _, rfl⟩ := hc'
    simp at hnc

theorem conj_invert_numOK (c : Conj) (h : Conj.NumOK c) : CSet.NumOK (Conj.invert c).items := by
  unfold Conj.invert
  split
  · intro c' hc'
    simp only [GSet.items, List.mem_singleton] at hc'
    subst hc'; exact numOK_impossible
  · have : ∀ (l : Conj) (acc : GSet), (∀ nc, Cond.num nc ∈ l → nc.OK) → CSet.NumOK acc.items →
        CSet.NumOK (l.foldl (fun res x => GSet.Or res (some (Cond.invert x))) acc).items := by
      intro l
      induction l with
      | nil => intro acc _ ha; exact ha
      | cons x rest ih =>
        intro acc hl ha
        simp only [List.foldl_cons]
        apply ih _ (fun nc hnc => hl nc (List.mem_cons_of_mem _ hnc))
        apply or_numOK ha
        exact cond_invert_numOK x (fun nc hx => hl nc (hx ▸ List.mem_cons_self))
    exact this c none h cset_numOK_nil

theorem cset_invert_numOK (cs : CSet) (h : CSet.NumOK cs) : CSet.NumOK (CSet.invert cs).items := by
  unfold CSet.invert
  have : ∀ (l : CSet) (acc : GSet), CSet.NumOK l → CSet.NumOK acc.items →
      CSet.NumOK (l.foldl (fun conds cc => GSet.And conds (Conj.invert cc)) acc).items := by
    intro l
    induction l with
    | nil => intro acc _ ha; exact ha
    | cons c rest ih =>
      intro acc hl ha
      simp only [List.foldl_cons]
      apply ih _ (fun c' hc' => hl c' (List.mem_cons_of_mem _ hc'))
      exact And_numOK ha (conj_invert_numOK c (hl c List.mem_cons_self))
  exact this cs (some []) h cset_numOK_nil

/-! ### the recursive translation -/

theorem translateList_numOK (ref : Int) (op : GSet → GSet → GSet)
    (hop : ∀ a b, CSet.NumOK a.items → CSet.NumOK b.items → CSet.NumOK (op a b).items) :
    ∀ (es : List Expr), (∀ e ∈ es, ∀ g, translate ref e = .ok g → CSet.NumOK g.items) →
    ∀ acc g, CSet.NumOK acc.items → translateList ref op es acc = .ok g → CSet.NumOK g.items
  | [], _, acc, g, ha, h => by
    simp only [translateList, Outcome.ok.injEq] at h
    subst h; exact ha
  | e :: rest, hes, acc, g, ha, h => by
    simp only [translateList] at h
    have ih := translateList_numOK ref op hop rest (fun x hx => hes x (List.mem_cons_of_mem _ hx))
    split at h
    · rename_i cs hcs
      exact ih _ g (hop _ _ ha (hes e List.mem_cons_self _ hcs)) h
    · exact ih _ g ha h
    all_goals cases h

end Total

open Total in
/-- every number condition of the translation of ANY expression (aux terms, multi-operand THEN,
    variables, sub-queries) has pairwise distinct summand keys and no zero factor -/
theorem translate_numOK (ref : Int) (e : Expr) (g : GSet) (h : translate ref e = .ok g) :
    CSet.NumOK g.items := by
  induction e using exprInd generalizing g with
  | term t =>
    simp only [translate] at h
    cases g with
    | none => exact cset_numOK_nil
    | some cs => exact trNums_numOK ref t cs h
  | aux =>
    simp only [translate, Outcome.ok.injEq] at h
    subst h; exact cset_numOK_nil
  | not e ih =>
    simp only [translate] at h
    split at h
    · rename_i cs hcs
      simp only [Outcome.ok.injEq] at h
      subst h
      exact cset_invert_numOK cs (ih _ hcs)
    · exact ih g h
  | grp e ih =>
    simp only [translate] at h
    exact ih g h
  | and es ih =>
    simp only [translate] at h
    exact translateList_numOK ref _ (fun _ _ => And_numOK) es ih none g cset_numOK_nil h
  | or es ih =>
    simp only [translate] at h
    exact translateList_numOK ref _ (fun _ _ => or_numOK) es ih none g cset_numOK_nil h
  | seq es ih =>
    simp only [translate] at h
    exact translateList_numOK ref _ (fun _ _ => gseq_numOK) es ih none g cset_numOK_nil h

/-! ### the arguments of `Conditions.clean` during a whole parse -/

/-- the arguments of `Conj.clean` inside `GSet.And` / `CSet.andPairs` -/
def andCalls (a b : CSet) : List Conj := a.flatMap (fun c1 => b.map (fun c2 => c1 ++ c2))

theorem andPairs_eq_calls (a b : CSet) : CSet.andPairs a b = (andCalls a b).map Conj.clean := by
  simp only [CSet.andPairs, andCalls, List.map_flatMap, List.map_map]
  rfl

open Total in
theorem and_calls_site_free (a b : CSet) (ha : CSet.NumOK a) (hb : CSet.NumOK b) :
    ∀ c ∈ andCalls a b, ∀ nc ∈ c.filterMap Cond.num?, numNormSite nc = false := by
  intro c hc
  simp only [andCalls, List.mem_flatMap, List.mem_map] at hc
  obtain ⟨c1, h1, c2, h2, rfl⟩ := hc
  exact numOK_site_free (numOK_append (ha c1 h1) (hb c2 h2))

/-- the arguments of `Conj.clean` during `absorb cc new`: for every kept conjunct `cc2` visited,
    `cc ++ cc2` (inside `Conj.and`) and the re-clean of `Conj.and cc cc2` -/
def absorbCalls (cc : Conj) : List Conj → List Conj
  | [] => []
  | cc2 :: rest =>
    if cc2 = cc then []
    else
      let anded := Conj.clean (Conj.and cc cc2)
      [cc ++ cc2, Conj.and cc cc2] ++
        (if anded = cc then [] else if anded = cc2 then [] else absorbCalls cc rest)

/-- the arguments of `Conj.clean` during `cleanLoop new rest` -/
def cleanLoopCalls : List Conj → List Conj → List Conj
  | _, [] => []
  | new, cc :: rest =>
    cc ::
      (if Conj.isImpossible (Conj.clean cc) then cleanLoopCalls new rest
       else absorbCalls (Conj.clean cc) new ++
         (match absorb (Conj.clean cc) new with
          | some new' => cleanLoopCalls new' rest
          | none => cleanLoopCalls (new ++ [Conj.clean cc]) rest))

/-- the arguments of `Conj.clean` during `simpleIDs` (the fast path stops at the first conjunct
    that is not a single id) -/
def simpleIDCalls : CSet → List Conj
  | [] => []
  | cc :: rest =>
    cc :: (match Conj.extractSimpleID (Conj.clean cc) with
      | some (mn, mx) => if mn ≠ mx then [] else simpleIDCalls rest
      | none => [])

/-- the arguments of `Conj.clean` during `CSet.Clean cs` -/
def cleanCalls (cs : CSet) : List Conj :=
  (if cs = [] then [] else simpleIDCalls cs) ++
    (match CSet.cleanSimpleID cs with
     | some _ => []
     | none => cleanLoopCalls [] cs)

namespace Total

theorem simpleIDCalls_mem : ∀ (cs : CSet), ∀ c ∈ simpleIDCalls cs, c ∈ cs
  | [], c, h => by cases h
  | cc :: rest, c, h => by
    simp only [simpleIDCalls] at h
    rcases List.mem_cons.mp h with rfl | h
    · exact List.mem_cons_self
    · split at h
      · split at h
        · cases h
        · exact List.mem_cons_of_mem _ (simpleIDCalls_mem rest c h)
      · cases h

theorem absorb_numOK (cc : Conj) (hcc : Conj.NumOK cc) : ∀ (new new' : List Conj), CSet.NumOK new →
    absorb cc new = some new' → CSet.NumOK new'
  | [], _, _, h => by cases h
  | cc2 :: rest, new', hn, h => by
    simp only [absorb] at h
    have hrest : CSet.NumOK rest := fun c hc => hn c (List.mem_cons_of_mem _ hc)
    split at h
    · cases h; exact hn
    · split at h
      · cases h; exact hn
      · split at h
        · cases h
          intro c hc
          rcases List.mem_cons.mp hc with rfl | hc
          · exact hcc
          · exact hrest c hc
        · cases hr : absorb cc rest with
          | none => rw [hr] at h; cases h
          | some r =>
            rw [hr] at h
            simp only [Option.map_some, Option.some.injEq] at h
            subst h
            intro c hc
            rcases List.mem_cons.mp hc with rfl | hc
            · exact hn _ List.mem_cons_self
            · exact absorb_numOK cc hcc rest r hrest hr c hc

theorem absorbCalls_numOK (cc : Conj) (hcc : Conj.NumOK cc) : ∀ (new : List Conj), CSet.NumOK new →
    CSet.NumOK (absorbCalls cc new)
  | [], _ => cset_numOK_nil
  | cc2 :: rest, hn => by
    simp only [absorbCalls]
    have h2 : Conj.NumOK cc2 := hn _ List.mem_cons_self
    have hrest : CSet.NumOK rest := fun c hc => hn c (List.mem_cons_of_mem _ hc)
    split
    · exact cset_numOK_nil
    · apply cset_numOK_append
      · intro c hc
        simp only [List.mem_cons, List.not_mem_nil, or_false] at hc
        rcases hc with rfl | rfl
        · exact numOK_append hcc h2
        · exact and_numOK hcc h2
      · split
        · exact cset_numOK_nil
        · split
          · exact cset_numOK_nil
          · exact absorbCalls_numOK cc hcc rest hrest

/-- `cleanLoop` keeps the kept list parser-shaped, and so are all arguments of `Conj.clean` on the way -/
theorem cleanLoop_numOK : ∀ (rest new : List Conj), CSet.NumOK new → CSet.NumOK rest →
    CSet.NumOK (cleanLoop new rest) ∧ CSet.NumOK (cleanLoopCalls new rest)
  | [], new, hn, _ => by
    simp only [cleanLoop, cleanLoopCalls]
    exact ⟨hn, cset_numOK_nil⟩
  | cc :: rest, new, hn, hr => by
    have hcc : Conj.NumOK cc := hr _ List.mem_cons_self
    have hrest : CSet.NumOK rest := fun c hc => hr c (List.mem_cons_of_mem _ hc)
    have hcl : Conj.NumOK (Conj.clean cc) := (conj_clean_numOK cc hcc).1
    have hcons : ∀ {l : List Conj}, CSet.NumOK l → CSet.NumOK (cc :: l) := by
      intro l hl c hc
      rcases List.mem_cons.mp hc with rfl | hc
      · exact hcc
      · exact hl c hc
    simp only [cleanLoop, cleanLoopCalls]
    split
    · have ih := cleanLoop_numOK rest new hn hrest
      exact ⟨ih.1, hcons ih.2⟩
    · cases ha : absorb (Conj.clean cc) new with
      | some new' =>
        have ih := cleanLoop_numOK rest new' (absorb_numOK _ hcl new new' hn ha) hrest
        exact ⟨ih.1, hcons (cset_numOK_append (absorbCalls_numOK _ hcl new hn) ih.2)⟩
      | none =>
        have hn' : CSet.NumOK (new ++ [Conj.clean cc]) := by
          apply cset_numOK_append hn
          intro c hc
          simp only [List.mem_singleton] at hc
          subst hc; exact hcl
        have ih := cleanLoop_numOK rest _ hn' hrest
        exact ⟨ih.1, hcons (cset_numOK_append (absorbCalls_numOK _ hcl new hn) ih.2)⟩

theorem idRangeConj_numOK (lo hi : Nat) : Conj.NumOK (idRangeConj lo hi) := by
  intro nc h
  simp only [idRangeConj, List.mem_cons, Cond.num.injEq, List.not_mem_nil, or_false] at h
  rcases h with rfl | rfl <;> (constructor <;> simp)

theorem cleanSimpleID_numOK (cs r : CSet) (h : CSet.cleanSimpleID cs = some r) : CSet.NumOK r := by
  unfold CSet.cleanSimpleID at h
  split at h
  · cases h
  · split at h
    · cases h
    · split at h
      · cases h; exact cset_numOK_nil
      · cases h
        intro c hc
        obtain ⟨r, _, rfl⟩ := List.mem_map.mp hc
        exact idRangeConj_numOK _ _

end Total

open Total in
/-- every argument of `Conj.clean` during `CSet.Clean cs` is parser-shaped and therefore does not
    reach the divide-by-zero site -/
theorem Clean_calls_site_free (cs : CSet) (h : CSet.NumOK cs) :
    ∀ c ∈ cleanCalls cs, Conj.NumOK c ∧ ∀ nc ∈ c.filterMap Cond.num?, numNormSite nc = false := by
  have key : CSet.NumOK (cleanCalls cs) := by
    unfold cleanCalls
    apply cset_numOK_append
    · split
      · exact cset_numOK_nil
      · exact fun c hc => h c (simpleIDCalls_mem cs c hc)
    · split
      · exact cset_numOK_nil
      · exact (cleanLoop_numOK cs [] cset_numOK_nil h).2
  intro c hc
  exact ⟨key c hc, numOK_site_free (key c hc)⟩

open Total in
/-- `ConditionsSet.clean` keeps number conditions parser-shaped -/
theorem Clean_numOK (cs : CSet) (h : CSet.NumOK cs) : CSet.NumOK (CSet.Clean cs) := by
  unfold CSet.Clean
  split
  · rename_i r hr
    exact cleanSimpleID_numOK cs r hr
  · simp only
    split
    · intro c hc
      simp only [List.mem_singleton] at hc
      subst hc; exact numOK_impossible
    · exact (cleanLoop_numOK cs [] cset_numOK_nil h).1

/-- the arguments of `Conj.clean` in the tail of `query.Parse` -/
def finishCalls : GSet → List Conj
  | none => []
  | some cs => cleanCalls cs

/-- no call of `Conditions.clean` in the tail of `query.Parse` reaches the divide-by-zero site -/
theorem parse_finish_site_free (ref : Int) (e : Expr) (g : GSet) (h : translate ref e = .ok g) :
    ∀ c ∈ finishCalls g, ∀ nc ∈ c.filterMap Cond.num?, numNormSite nc = false := by
  have hg := translate_numOK ref e g h
  cases g with
  | none => intro c hc; cases hc
  | some cs => exact fun c hc => (Clean_calls_site_free cs hg c hc).2

end Pk.Query
