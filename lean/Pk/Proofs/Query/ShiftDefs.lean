/-
  C14 (reference-time shift), part 1: definitions and elementary facts.

  A time condition `{sum, dur, rtf}` means `dur + Σ f·ftime + l·ltime ≥ 0` with packet times taken
  relative to the reference time `ref` of the parse.  `timeParts` adds `±(civil - ref)` to `dur` for
  every absolute time literal and records the sign in `rtf`, so `dur - rtf·ref` does not depend on
  `ref`: parsing at `ref + d` instead of `ref` adds `rtf·d` to `dur`.  `shiftT d` is that move.

  * `shiftT / shiftC / shiftJ / shiftS / shiftG / shiftParsed`: the move on every level;
  * `tot`: the sum of all packet-time coefficients of a summand list;
  * `TimeC.Safe`, `TimeC.Anchored`, `TimeC.Floating`: the three invariants used by the theorems;
  * `TInv P`: `P` is kept by the two operations the normaliser applies to a single time condition
    (`timeNorm`, negation), `Conj.TP / CSet.TP`: all time conditions of a conjunct / set satisfy `P`.
-/
import Pk.Proofs.Query.CleanTime

namespace Pk.Query

/-! ### the shift -/

/-- re-anchor a time condition to a reference time that is `d` ns later -/
def shiftT (d : Int) (c : TimeC) : TimeC := { c with dur := c.dur + c.rtf * d }

def shiftC (d : Int) : Cond → Cond
  | .time c => .time (shiftT d c)
  | x => x

def shiftJ (d : Int) (c : Conj) : Conj := c.map (shiftC d)
def shiftS (d : Int) (cs : CSet) : CSet := cs.map (shiftJ d)
def shiftG (d : Int) (g : GSet) : GSet := g.map (shiftS d)

/-- move the reference time the time conditions of a parse result are anchored to by `d` -/
def shiftParsed (d : Int) : Parsed → Parsed
  | .nothing => .nothing
  | .set cs => .set (shiftS d cs)

/-- functorial action on the value of an outcome; errors / panic sites are kept verbatim -/
def Outcome.map {α β : Type} (f : α → β) : Outcome α → Outcome β
  | .ok a => .ok (f a)
  | .err m => .err m
  | .panic s => .panic s
  | .diverged s => .diverged s

@[simp] theorem Outcome.map_ok {α β : Type} (f : α → β) (a : α) : (Outcome.ok a).map f = .ok (f a) := rfl
@[simp] theorem Outcome.map_err {α β : Type} (f : α → β) (m : String) : (Outcome.err m : Outcome α).map f = .err m := rfl
@[simp] theorem Outcome.map_panic {α β : Type} (f : α → β) (m : String) : (Outcome.panic m : Outcome α).map f = .panic m := rfl
@[simp] theorem Outcome.map_diverged {α β : Type} (f : α → β) (m : String) :
    (Outcome.diverged m : Outcome α).map f = .diverged m := rfl

/-! ### coefficient total -/

/-- a stream whose two packet times are 1 (its other fields are irrelevant) -/
def unitStream : Stream :=
  { id := 0, cport := 0, sport := 0, cbytes := 0, sbytes := 0, chost := [], shost := [], flags := 0,
    ftime := 1, ltime := 1, tagMatch := fun _ => false, tagUncertain := fun _ => false,
    step := fun _ _ => none }

/-- `Σ (f + l)` over the summands: by how much the sum moves when every packet time moves by 1.
    (Defined as the value of the sum where all packet times are 1, so that the value lemmas of
    `cleanTime` apply.) -/
def tot (l : List TimeSummand) : Int := timeSumVal (fun _ => unitStream) l

@[simp] theorem tot_nil : tot [] = 0 := rfl
@[simp] theorem tot_cons (s : TimeSummand) (l : List TimeSummand) : tot (s :: l) = s.f + s.l + tot l := by
  simp [tot, unitStream]

/-! ### invariants of single time conditions -/

/-- the normaliser never decides the sign of a bound that depends on the reference time: either the
    bound does not mention the reference time, or the condition constrains a packet time for real
    (the coefficients do not cancel) -/
def TimeC.Safe (c : TimeC) : Prop := c.rtf = 0 ∨ tot c.sum ≠ 0

/-- the condition compares packet times with points in time: it is invariant under a move of the
    reference time (`rtf` compensates the move of the packet times) -/
def TimeC.Anchored (c : TimeC) : Prop := c.rtf = tot c.sum

/-- the bound does not mention the reference time (only durations and packet times) -/
def TimeC.Floating (c : TimeC) : Prop := c.rtf = 0

theorem TimeC.Anchored.safe {c : TimeC} (h : c.Anchored) : c.Safe := by
  unfold TimeC.Anchored at h; unfold TimeC.Safe; omega

theorem TimeC.Floating.safe {c : TimeC} (h : c.Floating) : c.Safe := Or.inl h

/-- negation of a time condition (`Cond.invert`) -/
def invT (c : TimeC) : TimeC :=
  { sum := c.sum.map (fun s => { s with f := -s.f, l := -s.l }), dur := -c.dur - 1, rtf := -c.rtf }

/-- `P` is kept by the operations the normaliser applies to a single time condition -/
structure TInv (P : TimeC → Prop) : Prop where
  norm : ∀ c, P c → P (timeNorm c)
  inv : ∀ c, P c → P (invT c)

def Conj.TP (P : TimeC → Prop) (c : Conj) : Prop := ∀ tc, Cond.time tc ∈ c → P tc
def CSet.TP (P : TimeC → Prop) (cs : CSet) : Prop := ∀ c ∈ cs, Conj.TP P c

theorem tot_neg (l : List TimeSummand) :
    tot (l.map (fun s => { s with f := -s.f, l := -s.l })) = - tot l := by
  induction l with
  | nil => rfl
  | cons s l ih => simp only [List.map_cons, tot_cons, ih]; omega

theorem timeNorm_rtf (tc : TimeC) : (timeNorm tc).rtf = tc.rtf := by
  unfold timeNorm; split <;> rfl

theorem timeNorm_tot (tc : TimeC) : tot (timeNorm tc).sum = tot tc.sum := timeNorm_val tc _

theorem tinv_safe : TInv TimeC.Safe where
  norm c h := by
    unfold TimeC.Safe at *
    rw [timeNorm_rtf, timeNorm_tot]; exact h
  inv c h := by
    unfold TimeC.Safe at *
    simp only [invT, tot_neg]; omega

theorem tinv_anchored : TInv TimeC.Anchored where
  norm c h := by
    unfold TimeC.Anchored at *
    rw [timeNorm_rtf, timeNorm_tot]; exact h
  inv c h := by
    unfold TimeC.Anchored at *
    simp only [invT, tot_neg]; omega

theorem tinv_floating : TInv TimeC.Floating where
  norm c h := by
    unfold TimeC.Floating at *
    rw [timeNorm_rtf]; exact h
  inv c h := by
    unfold TimeC.Floating at *
    simp only [invT]; omega

/-! ### elementary facts about the shift -/

@[simp] theorem shiftT_sum (d : Int) (c : TimeC) : (shiftT d c).sum = c.sum := rfl
@[simp] theorem shiftT_rtf (d : Int) (c : TimeC) : (shiftT d c).rtf = c.rtf := rfl
@[simp] theorem shiftT_dur (d : Int) (c : TimeC) : (shiftT d c).dur = c.dur + c.rtf * d := rfl

theorem shiftT_shiftT (d e : Int) (c : TimeC) : shiftT d (shiftT e c) = shiftT (e + d) c := by
  cases c
  simp only [shiftT, TimeC.mk.injEq, true_and, and_true]
  rw [Int.mul_add]; omega

theorem shiftT_zero (c : TimeC) : shiftT 0 c = c := by
  cases c; simp [shiftT]

theorem shiftC_shiftC (d e : Int) (x : Cond) : shiftC d (shiftC e x) = shiftC (e + d) x := by
  cases x <;> simp [shiftC, shiftT_shiftT]

theorem shiftC_zero (x : Cond) : shiftC 0 x = x := by
  cases x <;> simp [shiftC, shiftT_zero]

theorem shiftJ_shiftJ (d e : Int) (c : Conj) : shiftJ d (shiftJ e c) = shiftJ (e + d) c := by
  simp [shiftJ, List.map_map, Function.comp_def, shiftC_shiftC]

theorem shiftJ_zero (c : Conj) : shiftJ 0 c = c := by
  have : shiftC 0 = id := funext shiftC_zero
  simp [shiftJ, this]

theorem shiftS_shiftS (d e : Int) (cs : CSet) : shiftS d (shiftS e cs) = shiftS (e + d) cs := by
  simp [shiftS, List.map_map, Function.comp_def, shiftJ_shiftJ]

theorem shiftS_zero (cs : CSet) : shiftS 0 cs = cs := by
  have : shiftJ 0 = id := funext shiftJ_zero
  simp [shiftS, this]

theorem shiftParsed_shiftParsed (d e : Int) (p : Parsed) :
    shiftParsed d (shiftParsed e p) = shiftParsed (e + d) p := by
  cases p <;> simp [shiftParsed, shiftS_shiftS]

theorem shiftParsed_zero (p : Parsed) : shiftParsed 0 p = p := by
  cases p <;> simp [shiftParsed, shiftS_zero]

/-- the shift is injective on conjuncts (it is undone by the opposite shift) -/
theorem shiftJ_inj (d : Int) {a b : Conj} (h : shiftJ d a = shiftJ d b) : a = b := by
  have := congrArg (shiftJ (-d)) h
  rw [shiftJ_shiftJ, shiftJ_shiftJ] at this
  simpa [Int.add_right_neg, shiftJ_zero] using this

theorem shiftJ_eq_iff (d : Int) (a b : Conj) : shiftJ d a = shiftJ d b ↔ a = b :=
  ⟨shiftJ_inj d, fun h => h ▸ rfl⟩

@[simp] theorem shiftJ_nil (d : Int) : shiftJ d [] = [] := rfl
@[simp] theorem shiftJ_cons (d : Int) (x : Cond) (c : Conj) : shiftJ d (x :: c) = shiftC d x :: shiftJ d c := rfl
@[simp] theorem shiftJ_append (d : Int) (a b : Conj) : shiftJ d (a ++ b) = shiftJ d a ++ shiftJ d b := by
  simp [shiftJ]
@[simp] theorem shiftS_nil (d : Int) : shiftS d [] = [] := rfl
@[simp] theorem shiftS_cons (d : Int) (c : Conj) (cs : CSet) : shiftS d (c :: cs) = shiftJ d c :: shiftS d cs := rfl
@[simp] theorem shiftS_append (d : Int) (a b : CSet) : shiftS d (a ++ b) = shiftS d a ++ shiftS d b := by
  simp [shiftS]

theorem shiftJ_eq_nil (d : Int) (c : Conj) : shiftJ d c = [] ↔ c = [] := by
  simp [shiftJ]

theorem shiftS_eq_nil (d : Int) (cs : CSet) : shiftS d cs = [] ↔ cs = [] := by
  simp [shiftS]

@[simp] theorem shiftJ_impossible (d : Int) : shiftJ d impossibleConj = impossibleConj := rfl

/-- a conjunct without time conditions is not moved -/
def NoTimeJ (c : Conj) : Prop := ∀ tc, Cond.time tc ∉ c
def NoTime (cs : CSet) : Prop := ∀ c ∈ cs, NoTimeJ c

theorem NoTimeJ.shift {c : Conj} (h : NoTimeJ c) (d : Int) : shiftJ d c = c := by
  induction c with
  | nil => rfl
  | cons x c ih =>
    have hx : shiftC d x = x := by
      cases x with
      | time tc => exact absurd List.mem_cons_self (h tc)
      | _ => rfl
    rw [shiftJ_cons, hx, ih (fun tc htc => h tc (List.mem_cons_of_mem _ htc))]

theorem NoTime.shift {cs : CSet} (h : NoTime cs) (d : Int) : shiftS d cs = cs := by
  induction cs with
  | nil => rfl
  | cons c cs ih =>
    rw [shiftS_cons, (h c List.mem_cons_self).shift, ih (fun c' hc' => h c' (List.mem_cons_of_mem _ hc'))]

theorem NoTimeJ.tp {c : Conj} (h : NoTimeJ c) (P : TimeC → Prop) : Conj.TP P c :=
  fun tc htc => absurd htc (h tc)

theorem NoTime.tp {cs : CSet} (h : NoTime cs) (P : TimeC → Prop) : CSet.TP P cs :=
  fun c hc => (h c hc).tp P

/-! ### the invariant on conjuncts and sets -/

theorem tp_nil (P : TimeC → Prop) : Conj.TP P [] := fun _ h => absurd h List.not_mem_nil

theorem tp_append {P : TimeC → Prop} {a b : Conj} (ha : Conj.TP P a) (hb : Conj.TP P b) :
    Conj.TP P (a ++ b) := by
  intro tc h
  rcases List.mem_append.mp h with h | h
  · exact ha tc h
  · exact hb tc h

theorem tp_impossible (P : TimeC → Prop) : Conj.TP P impossibleConj := by
  intro tc h
  simp [impossibleConj] at h

theorem cset_tp_nil (P : TimeC → Prop) : CSet.TP P [] := fun _ h => absurd h List.not_mem_nil

theorem cset_tp_append {P : TimeC → Prop} {a b : CSet} (ha : CSet.TP P a) (hb : CSet.TP P b) :
    CSet.TP P (a ++ b) := by
  intro c h
  rcases List.mem_append.mp h with h | h
  · exact ha c h
  · exact hb c h

theorem cset_tp_cons {P : TimeC → Prop} {c : Conj} {cs : CSet} (hc : Conj.TP P c) (hcs : CSet.TP P cs) :
    CSet.TP P (c :: cs) := by
  intro c' h
  rcases List.mem_cons.mp h with rfl | h
  · exact hc
  · exact hcs c' h

theorem cset_tp_tail {P : TimeC → Prop} {c : Conj} {cs : CSet} (h : CSet.TP P (c :: cs)) : CSet.TP P cs :=
  fun c' hc' => h c' (List.mem_cons_of_mem _ hc')

/-- the shift keeps every invariant that only looks at `sum` and `rtf` -/
theorem tp_shiftJ {P : TimeC → Prop} (hP : ∀ d c, P c → P (shiftT d c)) (d : Int) {c : Conj}
    (h : Conj.TP P c) : Conj.TP P (shiftJ d c) := by
  intro tc htc
  obtain ⟨x, hx, hxe⟩ := List.mem_map.mp htc
  cases x with
  | time tc' =>
    simp only [shiftC, Cond.time.injEq] at hxe
    subst hxe
    exact hP d tc' (h tc' hx)
  | _ => simp [shiftC] at hxe

theorem safe_shiftT (d : Int) (c : TimeC) (h : c.Safe) : (shiftT d c).Safe := h

end Pk.Query
