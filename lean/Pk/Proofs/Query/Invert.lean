/-
  Negation of a single condition: `evalSet (Cond.invert c) ρ = !evalCond c ρ`.
-/
import Pk.Proofs.Query.Basic

namespace Pk.Query

/-! ### bit helpers -/

theorem Invert.and_small (x b n : Nat) (hb : b < 2 ^ n) : x &&& b = (x % 2 ^ n) &&& b := by
  have h1 : x &&& b < 2 ^ n := Nat.and_lt_two_pow x hb
  have h2 : (x &&& b) % 2 ^ n = (x % 2 ^ n) &&& (b % 2 ^ n) := Nat.and_mod_two_pow
  rw [Nat.mod_eq_of_lt h1, Nat.mod_eq_of_lt hb] at h2
  exact h2

/-! ### tags -/

open Invert

theorem Invert.tag_bit_fin : ∀ r : Fin 16, ∀ b : Fin 16, (b.val = 1 ∨ b.val = 2 ∨ b.val = 4 ∨ b.val = 8) →
    (((r.val ^^^ 15) &&& b.val != 0) = !(r.val &&& b.val != 0)) := by decide

theorem Invert.tag_bit (a b : Nat) (hb : b = 1 ∨ b = 2 ∨ b = 4 ∨ b = 8) :
    ((a ^^^ 15) &&& b != 0) = !(a &&& b != 0) := by
  have hb16 : b < 2 ^ 4 := by omega
  rw [and_small (a ^^^ 15) b 4 hb16, and_small a b 4 hb16, Nat.xor_mod_two_pow]
  have hr : a % 2 ^ 4 < 16 := Nat.mod_lt _ (by decide)
  exact tag_bit_fin ⟨a % 2 ^ 4, hr⟩ ⟨b, hb16⟩ hb

theorem invert_tag_sound (c : TagC) (ρ : Env) :
    evalSet (Cond.invert (.tag c)) ρ = !evalCond (.tag c) ρ := by
  simp only [Cond.invert, evalSet, evalConj, evalCond, evalTag, List.any_cons, List.any_nil,
    List.all_cons, List.all_nil, Bool.and_true, Bool.or_false]
  apply tag_bit
  unfold tagBit accUncertainMatching accUncertainFailing accMatching accFailing
  cases (ρ c.sq).tagMatch c.name <;> cases (ρ c.sq).tagUncertain c.name <;> simp

/-! ### hosts -/

theorem invert_host_sound (c : HostC) (ρ : Env) :
    evalSet (Cond.invert (.host c)) ρ = !evalCond (.host c) ρ := by
  simp only [Cond.invert, evalSet, evalConj, evalCond, List.any_cons, List.any_nil,
    List.all_cons, List.all_nil, Bool.and_true, Bool.or_false]
  unfold evalHost
  have : hostOperands { c with inv := !c.inv } ρ = hostOperands c ρ := rfl
  rw [this]
  split
  · simp
  · split <;> simp

/-! ### numbers -/

theorem Invert.numSumVal_neg (ρ : Env) (sum : List NumSummand) :
    numSumVal ρ (sum.map (fun s => { s with factor := -s.factor })) = - numSumVal ρ sum := by
  unfold numSumVal
  induction sum with
  | nil => simp
  | cons s ss ih =>
    simp only [List.map_cons, List.sum_cons] at ih ⊢
    rw [ih, Int.neg_mul]; omega

theorem invert_num_sound (c : NumC) (ρ : Env) :
    evalSet (Cond.invert (.num c)) ρ = !evalCond (.num c) ρ := by
  simp only [Cond.invert, evalSet, evalConj, evalCond, evalNum, List.any_cons, List.any_nil,
    List.all_cons, List.all_nil, Bool.and_true, Bool.or_false]
  rw [numSumVal_neg]
  apply Bool.eq_iff_iff.mpr
  simp only [decide_eq_true_eq, Bool.not_eq_true', decide_eq_false_iff_not]
  omega

/-! ### times -/

theorem Invert.timeSumVal_neg (ρ : Env) (sum : List TimeSummand) :
    timeSumVal ρ (sum.map (fun s => { s with f := -s.f, l := -s.l })) = - timeSumVal ρ sum := by
  unfold timeSumVal
  induction sum with
  | nil => simp
  | cons s ss ih =>
    simp only [List.map_cons, List.sum_cons] at ih ⊢
    rw [ih, Int.neg_mul, Int.neg_mul]; omega

theorem invert_time_sound (c : TimeC) (ρ : Env) :
    evalSet (Cond.invert (.time c)) ρ = !evalCond (.time c) ρ := by
  simp only [Cond.invert, evalSet, evalConj, evalCond, evalTime, List.any_cons, List.any_nil,
    List.all_cons, List.all_nil, Bool.and_true, Bool.or_false]
  rw [timeSumVal_neg]
  apply Bool.eq_iff_iff.mpr
  simp only [decide_eq_true_eq, Bool.not_eq_true', decide_eq_false_iff_not]
  omega

/-! ### impossible -/

theorem invert_impossible_sound (ρ : Env) :
    evalSet (Cond.invert .impossible) ρ = !evalCond .impossible ρ := by
  simp [Cond.invert, evalSet, evalConj, evalCond]

/-! ### data chains -/

theorem Invert.chain_cons2 (ρ : Env) (inv : Bool) (e e2 : DataEl) (es : List DataEl) (p : Nat) :
    chain ρ inv (e :: e2 :: es) p =
      match (ρ e.sq).step e p with
      | none => false
      | some p' => chain ρ inv (e2 :: es) p' := by
  rw [chain]
  all_goals first | rfl | simp

theorem chain_negation (ρ : Env) (inv : Bool) (els : List DataEl) (h : els ≠ []) (p : Nat) :
    (List.range els.length).any (fun i =>
      chain ρ (if i + 1 = els.length then !inv else true) (els.take (i + 1)) p)
      = !chain ρ inv els p := by
  induction els generalizing p with
  | nil => exact absurd rfl h
  | cons e es ih =>
    cases es with
    | nil =>
      simp [chain]
    | cons e2 es =>
      have ih' := ih (by simp)
      have key : ∀ (b : Bool) (x : Nat), chain ρ b (List.take (x + 1 + 1) (e :: e2 :: es)) p =
          match (ρ e.sq).step e p with
          | none => false
          | some p' => chain ρ b (List.take (x + 1) (e2 :: es)) p' := by
        intro b x
        rw [List.take_succ_cons, List.take_succ_cons, chain_cons2]
      rw [List.length_cons, List.range_succ_eq_map, List.any_cons, List.any_map, chain_cons2]
      simp only [Function.comp_def, Nat.succ_eq_add_one, key, Nat.add_right_cancel_iff]
      cases hs : (ρ e.sq).step e p with
      | none => simp [chain, hs]
      | some p' =>
        simp only [] 
        rw [ih' p']
        simp [chain, hs]


theorem invert_data_sound (c : DataC) (ρ : Env) (h : c.els ≠ []) :
    evalSet (Cond.invert (.data c)) ρ = !evalCond (.data c) ρ := by
  have := chain_negation ρ c.inv c.els h 0
  simp only [Cond.invert, evalSet, evalConj, evalCond, evalData, List.any_map, Function.comp_def,
    List.all_cons, List.all_nil, Bool.and_true]
  exact this

/-! ### flags, protocol mask (mask = 3) -/

theorem Invert.subMasksDesc_three : subMasksDesc 3 = [3, 2, 1, 0] := by decide

theorem Invert.xor_and_three (x v : Nat) : (x ^^^ v) &&& 3 = ((x % 4) ^^^ (v % 4)) &&& 3 := by
  rw [and_small (x ^^^ v) 3 2 (by decide), Nat.xor_mod_two_pow]

theorem Invert.flag3_fin : ∀ a b : Fin 4,
    (([3, 2, 1, 0].filter (· < b.val) ++ [3, 2, 1, 0].filter (· > b.val)).all
      (fun v => (((a.val ^^^ (v % 4)) &&& 3) != 0))) = !(((a.val ^^^ b.val) &&& 3) != 0) := by decide

theorem invert_flag_sound_partial (c : FlagC) (ρ : Env) (hm : c.mask = 3) :
    evalSet (Cond.invert (.flag c)) ρ = !evalCond (.flag c) ρ := by
  simp only [Cond.invert, evalSet, evalConj, evalCond, evalFlag, List.any_cons, List.any_nil,
    Bool.or_false, List.all_map, Function.comp_def, hm, flagInvertValues, subMasksDesc_three]
  have h3 : c.value &&& 3 = c.value % 4 := Nat.and_two_pow_sub_one_eq_mod c.value 2
  rw [h3]
  simp only [xor_and_three (xorFlags ρ c.sqs)]
  have ha : xorFlags ρ c.sqs % 4 < 4 := Nat.mod_lt _ (by decide)
  have hb : c.value % 4 < 4 := Nat.mod_lt _ (by decide)
  exact flag3_fin ⟨_, ha⟩ ⟨_, hb⟩

/-! ### combination -/

theorem invert_cond_sound_partial (c : Cond) (ρ : Env)
    (hflag : ∀ f, c = .flag f → f.mask = 3) (hdata : ∀ d, c = .data d → d.els ≠ []) :
    evalSet (Cond.invert c) ρ = !evalCond c ρ := by
  cases c with
  | tag c => exact invert_tag_sound c ρ
  | flag c => exact invert_flag_sound_partial c ρ (hflag c rfl)
  | host c => exact invert_host_sound c ρ
  | time c => exact invert_time_sound c ρ
  | num c => exact invert_num_sound c ρ
  | data c => exact invert_data_sound c ρ (hdata c rfl)
  | impossible => exact invert_impossible_sound ρ

/-! ### C14: the uint16 loop of `FlagCondition.invert` terminates -/

/-- the largest sub-mask of `m` below the sub-mask `v` is `(v - 1) &&& m` -/
theorem Invert.submask_pred (v : Nat) : ∀ (m v0 : Nat), v0 &&& m = v0 → v &&& m = v → v0 < v → v0 ≤ (v - 1) &&& m := by
  induction v using Nat.strongRecOn with
  | _ v ih =>
    intro m v0 h0 hv hlt
    have hd : ((v - 1) &&& m) / 2 = (v - 1) / 2 &&& m / 2 := Nat.and_div_two_pow (n := 1)
    have hm : ((v - 1) &&& m) % 2 = (v - 1) % 2 &&& m % 2 := Nat.and_mod_two_pow (n := 1)
    have h0d : v0 / 2 &&& m / 2 = v0 / 2 := by
      have : (v0 &&& m) / 2 = v0 / 2 &&& m / 2 := Nat.and_div_two_pow (n := 1)
      rw [h0] at this; exact this.symm
    have h0m : v0 % 2 &&& m % 2 = v0 % 2 := by
      have : (v0 &&& m) % 2 = v0 % 2 &&& m % 2 := Nat.and_mod_two_pow (n := 1)
      rw [h0] at this; exact this.symm
    have hvd : v / 2 &&& m / 2 = v / 2 := by
      have : (v &&& m) / 2 = v / 2 &&& m / 2 := Nat.and_div_two_pow (n := 1)
      rw [hv] at this; exact this.symm
    rcases Nat.mod_two_eq_zero_or_one v with hpar | hpar
    · -- v even, v > 0
      have e1 : (v - 1) / 2 = v / 2 - 1 := by omega
      have e2 : (v - 1) % 2 = 1 := by omega
      have hih := ih (v / 2) (by omega) (m / 2) (v0 / 2) h0d hvd (by omega)
      rw [e1] at hd
      rw [e2] at hm
      have hle : v0 % 2 ≤ m % 2 := by rw [← h0m]; exact Nat.and_le_right
      have hm1 : 1 &&& m % 2 = m % 2 := by
        rcases Nat.mod_two_eq_zero_or_one m with h | h <;> rw [h] <;> rfl
      rw [hm1] at hm
      omega
    · -- v odd: v - 1 is itself a sub-mask
      have e1 : (v - 1) / 2 = v / 2 := by omega
      have e2 : (v - 1) % 2 = 0 := by omega
      rw [e1, hvd] at hd
      rw [e2, Nat.zero_and] at hm
      omega

theorem Invert.loop_down (value mask : Nat) : ∀ (fuel v : Nat) (acc : List Nat),
    v &&& mask = v → value &&& mask < v → v < 65536 → v - (value &&& mask) ≤ fuel →
    flagInvertLoop value mask fuel v acc ≠ none := by
  intro fuel
  induction fuel with
  | zero => intro v acc _ h1 _ h2; omega
  | succ fuel ih =>
    intro v acc hsub hlt hv hf
    simp only [flagInvertLoop]
    have e : (v + 65535) % 65536 = v - 1 := by omega
    rw [e]
    split
    · simp
    · rename_i hne
      have h0 : (value &&& mask) &&& mask = value &&& mask := by rw [Nat.and_assoc, Nat.and_self]
      have hge := submask_pred v mask (value &&& mask) h0 hsub hlt
      have hle : (v - 1) &&& mask ≤ v - 1 := Nat.and_le_left
      apply ih
      · rw [Nat.and_assoc, Nat.and_self]
      · omega
      · omega
      · omega

theorem Invert.loop_up (value mask : Nat) (hm : mask < 65536) : ∀ (fuel v : Nat) (acc : List Nat),
    v &&& mask = v → v ≤ value &&& mask → v + 1 + (mask - (value &&& mask)) ≤ fuel →
    flagInvertLoop value mask fuel v acc ≠ none := by
  intro fuel
  induction fuel with
  | zero => intro v acc _ _ h2; omega
  | succ fuel ih =>
    intro v acc hsub hle hf
    have hv0 : value &&& mask ≤ mask := Nat.and_le_right
    simp only [flagInvertLoop]
    split
    · simp
    · rename_i hne
      by_cases hz : v = 0
      · subst hz
        have e : (0 + 65535) % 65536 &&& mask = mask := by
          have := Nat.and_two_pow_sub_one_of_lt_two_pow (x := mask) (n := 16) hm
          rw [Nat.and_comm] at this
          exact this
        rw [e] at hne ⊢
        apply loop_down
        · exact Nat.and_self _
        · omega
        · exact hm
        · omega
      · have e : (v + 65535) % 65536 = v - 1 := by omega
        rw [e] at hne ⊢
        have hle' : (v - 1) &&& mask ≤ v - 1 := Nat.and_le_left
        apply ih
        · rw [Nat.and_assoc, Nat.and_self]
        · omega
        · omega

theorem flagMask_terminates (value mask : Nat) (hm : mask < 65536) :
    ∃ fuel, flagInvertLoop value mask fuel (value &&& mask) [] ≠ none := by
  refine ⟨(value &&& mask) + 1 + (mask - (value &&& mask)), ?_⟩
  apply loop_up value mask hm
  · rw [Nat.and_assoc, Nat.and_self]
  · exact Nat.le_refl _
  · exact Nat.le_refl _

/-! ### full strength: every mask below 2^16 -/

theorem Invert.xor_eq_zero_iff' (a b : Nat) : a ^^^ b = 0 ↔ a = b := by
  constructor
  · intro h
    apply Nat.eq_of_testBit_eq
    intro i
    have := congrArg (fun n => Nat.testBit n i) h
    simp only [Nat.testBit_xor, Nat.zero_testBit] at this
    cases ha : a.testBit i <;> cases hb : b.testBit i <;> simp_all
  · intro h; subst h; exact Nat.xor_self a

theorem Invert.xor_and_eq_zero (a b m : Nat) : (a ^^^ b) &&& m = 0 ↔ a &&& m = b &&& m := by
  rw [Nat.and_xor_distrib_right, xor_eq_zero_iff']

theorem Invert.submask_iff_testBit (v m : Nat) : v &&& m = v ↔ ∀ i, v.testBit i = true → m.testBit i = true := by
  constructor
  · intro h i hi
    rw [← h, Nat.testBit_and] at hi
    simp at hi; exact hi.2
  · intro h
    apply Nat.eq_of_testBit_eq
    intro i
    rw [Nat.testBit_and]
    cases hv : v.testBit i
    · rfl
    · simp [h i hv]

theorem Invert.mem_subMasksOfBits (bs : List Nat) (hd : bs.Pairwise (fun a b => a > b)) (v : Nat) :
    v ∈ subMasksOfBits bs ↔ ∀ i, v.testBit i = true → i ∈ bs := by
  induction bs generalizing v with
  | nil =>
    simp only [subMasksOfBits, List.mem_singleton, List.not_mem_nil]
    constructor
    · intro h; subst h; simp
    · intro h
      apply Nat.eq_of_testBit_eq
      intro i
      rw [Nat.zero_testBit]
      cases hv : v.testBit i
      · rfl
      · exact (h i hv).elim
  | cons b bs ih =>
    have hlt : ∀ b' ∈ bs, b' < b := (List.pairwise_cons.mp hd).1
    have ih' := ih (List.pairwise_cons.mp hd).2
    simp only [subMasksOfBits, List.mem_append, List.mem_map, List.mem_cons]
    constructor
    · rintro (⟨w, hw, rfl⟩ | hv)
      · have hwb := (ih' w).mp hw
        have hwlt : w < 2 ^ b := by
          apply Nat.lt_pow_two_of_testBit
          intro i hi
          cases hwi : w.testBit i
          · rfl
          · have := hlt i (hwb i hwi); omega
        intro i hi
        rw [Nat.add_comm] at hi
        rcases Nat.lt_trichotomy i b with h | h | h
        · rw [Nat.testBit_two_pow_add_gt h] at hi
          exact Or.inr (hwb i hi)
        · exact Or.inl h
        · have : 2 ^ b + w < 2 ^ i := by
            have : 2 ^ (b + 1) ≤ 2 ^ i := Nat.pow_le_pow_right (by decide) h
            rw [Nat.pow_succ] at this
            omega
          rw [Nat.testBit_lt_two_pow this] at hi
          cases hi
      · intro i hi; exact Or.inr ((ih' v).mp hv i hi)
    · intro h
      cases hvb : v.testBit b
      · right
        apply (ih' v).mpr
        intro i hi
        rcases h i hi with e | e
        · subst e; rw [hvb] at hi; cases hi
        · exact e
      · left
        have hge : v ≥ 2 ^ b := Nat.ge_two_pow_of_testBit hvb
        have hvlt : v < 2 ^ (b + 1) := by
          apply Nat.lt_pow_two_of_testBit
          intro i hi
          cases hvi : v.testBit i
          · rfl
          · rcases h i hvi with e | e
            · omega
            · have := hlt i e; omega
        rw [Nat.pow_succ] at hvlt
        refine ⟨v - 2 ^ b, ?_, by omega⟩
        apply (ih' _).mpr
        intro i hi
        have hib : i < b := by
          apply Classical.byContradiction
          intro hn
          have h1 : v - 2 ^ b ≥ 2 ^ i := Nat.ge_two_pow_of_testBit hi
          have h2 : 2 ^ b ≤ 2 ^ i := Nat.pow_le_pow_right (by decide) (by omega)
          omega
        have hvi : v.testBit i = true := by
          have : v = 2 ^ b + (v - 2 ^ b) := by omega
          rw [this, Nat.testBit_two_pow_add_gt hib]
          exact hi
        rcases h i hvi with e | e
        · omega
        · exact e

theorem Invert.mem_bitsDesc (mask i : Nat) : i ∈ bitsDesc mask ↔ i < 16 ∧ mask.testBit i = true := by
  simp [bitsDesc]

theorem Invert.bitsDesc_pairwise (mask : Nat) : (bitsDesc mask).Pairwise (fun a b => a > b) := by
  unfold bitsDesc
  apply List.Pairwise.filter
  rw [List.pairwise_reverse]
  exact List.pairwise_lt_range

theorem Invert.mem_subMasksDesc (mask v : Nat) (hm : mask < 65536) :
    v ∈ subMasksDesc mask ↔ v &&& mask = v := by
  unfold subMasksDesc
  rw [mem_subMasksOfBits _ (bitsDesc_pairwise mask), submask_iff_testBit]
  constructor
  · intro h i hi; exact ((mem_bitsDesc mask i).mp (h i hi)).2
  · intro h i hi
    apply (mem_bitsDesc mask i).mpr
    refine ⟨?_, h i hi⟩
    apply Classical.byContradiction
    intro hn
    have : mask < 2 ^ i := Nat.lt_of_lt_of_le (by simpa using hm) (Nat.pow_le_pow_right (by decide) (by omega : 16 ≤ i))
    have h2 := h i hi
    rw [Nat.testBit_lt_two_pow this] at h2
    cases h2

theorem invert_flag_sound (c : FlagC) (ρ : Env) (hm : c.mask < 65536) :
    evalSet (Cond.invert (.flag c)) ρ = !evalCond (.flag c) ρ := by
  simp only [Cond.invert, evalSet, evalConj, evalCond, evalFlag, List.any_cons, List.any_nil,
    Bool.or_false, List.all_map, Function.comp_def, flagInvertValues]
  apply Bool.eq_iff_iff.mpr
  simp only [List.all_eq_true, List.mem_append, List.mem_filter, decide_eq_true_eq, bne_iff_ne, ne_eq,
    Bool.not_eq_true', bne_eq_false_iff_eq, mem_subMasksDesc _ _ hm, xor_and_eq_zero]
  constructor
  · intro h
    apply Classical.byContradiction
    intro hne
    have hsub : (xorFlags ρ c.sqs &&& c.mask) &&& c.mask = xorFlags ρ c.sqs &&& c.mask := by
      rw [Nat.and_assoc, Nat.and_self]
    have := h (xorFlags ρ c.sqs &&& c.mask) (by
      rcases Nat.lt_trichotomy (xorFlags ρ c.sqs &&& c.mask) (c.value &&& c.mask) with h1 | h1 | h1
      · exact Or.inl ⟨hsub, h1⟩
      · exact absurd h1 hne
      · exact Or.inr ⟨hsub, h1⟩)
    exact this hsub.symm
  · intro h v hv
    rw [h]
    rcases hv with ⟨h1, h2⟩ | ⟨h1, h2⟩
    · rw [h1]; omega
    · rw [h1]; omega


/-- combination at full strength: flag masks are uint16, data chains are non-empty -/
theorem invert_cond_sound (c : Cond) (ρ : Env)
    (hflag : ∀ f, c = .flag f → f.mask < 65536) (hdata : ∀ d, c = .data d → d.els ≠ []) :
    evalSet (Cond.invert c) ρ = !evalCond c ρ := by
  cases c with
  | tag c => exact invert_tag_sound c ρ
  | flag c => exact invert_flag_sound c ρ (hflag c rfl)
  | host c => exact invert_host_sound c ρ
  | time c => exact invert_time_sound c ρ
  | num c => exact invert_num_sound c ρ
  | data c => exact invert_data_sound c ρ (hdata c rfl)
  | impossible => exact invert_impossible_sound ρ

/-! ### the invariant `Cond.OK` (Basic.lean) is preserved by inversion -/

theorem invert_cond_sound_ok (c : Cond) (ρ : Env) (h : c.OK) :
    evalSet (Cond.invert c) ρ = !evalCond c ρ := by
  apply invert_cond_sound
  · intro f hf; subst hf
    have : f.mask < 4 := h.1
    omega
  · intro d hd; subst hd; exact h

theorem invert_cond_ok (c : Cond) (h : c.OK) : ∀ conj ∈ Cond.invert c, ∀ x ∈ conj, x.OK := by
  cases c with
  | tag c =>
    intro conj hc x hx
    simp only [Cond.invert, List.mem_singleton] at hc; subst hc
    simp only [List.mem_singleton] at hx; subst hx; trivial
  | flag c =>
    intro conj hc x hx
    simp only [Cond.invert, List.mem_singleton] at hc; subst hc
    obtain ⟨v, hv, rfl⟩ := List.mem_map.mp hx
    have hm : c.mask < 4 := h.1
    refine ⟨hm, ?_⟩
    have hv' : v ∈ subMasksDesc c.mask := by
      simp only [flagInvertValues, List.mem_append, List.mem_filter] at hv
      rcases hv with hv | hv <;> exact hv.1
    exact (mem_subMasksDesc c.mask v (by omega)).mp hv'
  | host c =>
    intro conj hc x hx
    simp only [Cond.invert, List.mem_singleton] at hc; subst hc
    simp only [List.mem_singleton] at hx; subst hx
    exact h
  | time c =>
    intro conj hc x hx
    simp only [Cond.invert, List.mem_singleton] at hc; subst hc
    simp only [List.mem_singleton] at hx; subst hx; trivial
  | num c =>
    intro conj hc x hx
    simp only [Cond.invert, List.mem_singleton] at hc; subst hc
    simp only [List.mem_singleton] at hx; subst hx; trivial
  | data c =>
    intro conj hc x hx
    simp only [Cond.invert] at hc
    obtain ⟨i, _, rfl⟩ := List.mem_map.mp hc
    simp only [List.mem_singleton] at hx; subst hx
    have hne : c.els ≠ [] := h
    show List.take (i + 1) c.els ≠ []
    cases hc' : c.els with
    | nil => exact absurd hc' hne
    | cons e es => simp
  | impossible =>
    intro conj hc x hx
    simp only [Cond.invert, List.mem_singleton] at hc; subst hc
    cases hx

/-- every inverted condition has at least one alternative -/
theorem invert_cond_ne_nil (c : Cond) (h : c.OK) : Cond.invert c ≠ [] := by
  cases c with
  | data c =>
    have hne : c.els ≠ [] := h
    simp only [Cond.invert, ne_eq, List.map_eq_nil_iff, List.range_eq_nil]
    intro e; exact hne (List.eq_nil_of_length_eq_zero e)
  | _ => simp [Cond.invert]

end Pk.Query
