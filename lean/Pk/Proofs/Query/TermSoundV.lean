/-
  Soundness of the translation of a single term WITH variables and sub-queries
  (`Term.FragV`): `evalSet (trTerm ref t) ρ = evalTerm ref t ρ` together with the shape invariant,
  and the closed theorems of Laws.lean re-instantiated for `Term.FragV`.

  New ingredients over TermSound.lean:
   * `ownLoop_val`: the *value* invariant of the own-variable loop, generic in the summand type
     (number and time instances): with pairwise distinct keys the loop subtracts the filter's own
     variable exactly once and only removes summands of value 0;
   * `numParts_val` / `timeParts_spec`: the accumulated condition has the value of the part list;
   * protocol variables (`proto_var_entry`) and host variables (`trHostEntry_soundV`).
-/
import Pk.Proofs.Query.Laws
import Pk.Proofs.Query.Total

namespace Pk.Query

/-! ### the fragment with variables and sub-queries -/

/-- like `Term.Frag`, but values may contain variables (`@sub:name`) and any sub-query; a variable of
    the wrong kind or an unknown protocol token makes `trTerm` return `.err` -/
def Term.FragV (t : Term) : Prop :=
  (t.conv = "" ∨ t.key = "data" ∨ t.key = "cdata" ∨ t.key = "sdata") ∧
    match t.value with
    | .tags names => names ≠ []
    | .protos l => l ≠ []
    | .hosts l => l ≠ [] ∧ (t.key = "chost" ∨ t.key = "shost" ∨ t.key = "host") ∧
        ∀ h ∈ l, (h.var = none ∧ ((normHost h.host).length = 4 ∨ (normHost h.host).length = 16)) ∨
          ∃ v, h.var = some v
    | .nums l => l ≠ [] ∧ ∀ e ∈ l, (e.length = 1 ∨ e.length = 2)
    | .times l => l ≠ [] ∧ ∀ e ∈ l, (e.length = 1 ∨ e.length = 2)
    | .data _ _ => t.key ∈ ["data","cdata","sdata"]
    | .other => False

/-- the variable-free fragment is contained in `FragV` -/
theorem Term.Frag.toFragV {t : Term} (h : t.Frag) : t.FragV := by
  obtain ⟨h1, h2⟩ := h
  refine ⟨h1, ?_⟩
  cases hv : t.value with
  | tags names => rw [hv] at h2; exact h2
  | protos l => rw [hv] at h2; exact h2.1
  | hosts l => rw [hv] at h2; exact ⟨h2.1, h2.2.1, fun h hh => Or.inl (h2.2.2 h hh)⟩
  | nums l => rw [hv] at h2; exact ⟨h2.1, fun e he => (h2.2.2 e he).1⟩
  | times l => rw [hv] at h2; exact ⟨h2.1, fun e he => (h2.2.2 e he).1⟩
  | data c vs => rw [hv] at h2; exact h2
  | other => rw [hv] at h2; exact h2

namespace TermSoundV

open Total TermSound

/-! ### generic value invariant of the own-variable loop -/

/-- the additive value of a summand list -/
def sumv {σ : Type} (val : σ → Int) (l : List σ) : Int := (l.map val).sum

theorem sumv_append {σ : Type} (val : σ → Int) (a b : List σ) : sumv val (a ++ b) = sumv val a + sumv val b := by
  simp [sumv, List.sum_append]

theorem sumv_cons {σ : Type} (val : σ → Int) (a : σ) (b : List σ) : sumv val (a :: b) = val a + sumv val b := by
  simp [sumv]

theorem sumv_perm {σ : Type} (val : σ → Int) {a b : List σ} (h : a.Perm b) : sumv val a = sumv val b := by
  induction h with
  | nil => rfl
  | cons x _ ih => simp only [sumv_cons, ih]
  | swap x y l => simp only [sumv_cons]; omega
  | trans _ _ ih1 ih2 => exact ih1.trans ih2

theorem nodup_remove {σ κ : Type} (key : σ → κ) {pre rest rest' : List σ} {s : σ}
    (h : ((pre ++ s :: rest).map key).Nodup) (hp : rest'.Perm rest) : ((pre ++ rest').map key).Nodup := by
  have h1 : (pre ++ rest').Perm (pre ++ rest) := List.Perm.append_left pre hp
  have h2 : List.Sublist (pre ++ rest) (pre ++ s :: rest) :=
    List.Sublist.append_left (List.sublist_cons_self s rest) pre
  exact ((h1.map _).nodup_iff).mpr (List.Nodup.sublist (h2.map _) h)

theorem nodup_replace {σ κ : Type} (key : σ → κ) {pre rest : List σ} {s s' : σ}
    (h : ((pre ++ s :: rest).map key).Nodup) (hk : key s' = key s) :
    (((pre ++ [s']) ++ rest).map key).Nodup := by
  simpa [hk] using h

theorem nodup_own_rest {σ κ : Type} (key : σ → κ) (k0 : κ) (isOwn : σ → Bool)
    (hOwn : ∀ s, isOwn s = true ↔ key s = k0) {pre rest : List σ} {s : σ}
    (h : ((pre ++ s :: rest).map key).Nodup) (hs : isOwn s = true) : ∀ x ∈ rest, isOwn x = false := by
  intro x hx
  rw [List.map_append, List.map_cons] at h
  have h2 := (List.nodup_cons.mp (List.nodup_append.mp h).2.1).1
  cases hxo : isOwn x with
  | false => rfl
  | true =>
    exfalso
    apply h2
    rw [(hOwn s).mp hs, ← (hOwn x).mp hxo]
    exact List.mem_map.mpr ⟨x, hx, rfl⟩

theorem ownLoop_val {σ κ : Type} (key : σ → κ) (k0 : κ) (isOwn : σ → Bool) (dec : σ → σ)
    (isZero : σ → Bool) (fresh : σ) (val : σ → Int) (x : Int)
    (hOwn : ∀ s, isOwn s = true ↔ key s = k0) (hDecKey : ∀ s, key (dec s) = key s)
    (hDecVal : ∀ s, isOwn s = true → val (dec s) = val s - x)
    (hZero : ∀ s, isZero s = true → val s = 0)
    (hFreshKey : key fresh = k0) (hFreshVal : val fresh = 0) (hFreshNZ : isZero (dec fresh) = false)
    (V0 : Int) :
    ∀ (fuel : Nat) (pre post : List σ) (sc : Int) (r : List σ), ((pre ++ post).map key).Nodup →
    ((sc = ((pre ++ post).length : Int) ∧ (∀ s ∈ pre, isOwn s = false) ∧ sumv val (pre ++ post) = V0) ∨
     (sc = ((pre ++ post).length : Int) - 1 ∧ (∀ s ∈ post, isOwn s = false) ∧
        sumv val (pre ++ post) = V0 - x)) →
    ownLoop isOwn dec isZero fresh fuel pre.length sc (pre ++ post) = some r → sumv val r = V0 - x := by
  have hFreshOwn : isOwn fresh = true := (hOwn fresh).mpr hFreshKey
  intro fuel
  induction fuel with
  | zero => intro pre post sc r _ _ h; simp [ownLoop] at h
  | succ fuel ih =>
    intro pre post sc r hkn hmode h
    cases post with
    | nil =>
      simp only [List.append_nil] at h hkn hmode
      rcases hmode with ⟨hsc, hno, hv⟩ | ⟨hsc, _, hv⟩
      · rw [ownLoop] at h
        subst hsc
        simp [hFreshOwn, hFreshNZ] at h
        have := ownLoop_exit _ _ _ _ _ _ _ _ _ (by omega) h
        subst this
        rw [sumv_append, sumv_cons, hDecVal fresh hFreshOwn, hFreshVal, hv]
        simp [sumv]
        omega
      · have := ownLoop_exit _ _ _ _ _ _ _ _ _ (by omega) h
        subst this
        exact hv
    | cons s rest =>
      have hlen : ((pre ++ s :: rest).length : Int) = pre.length + rest.length + 1 := by
        simp; omega
      rw [ownLoop_step _ _ _ _ _ _ _ _ _ (by rcases hmode with ⟨hsc, _⟩ | ⟨hsc, _⟩ <;> omega)] at h
      by_cases hown : isOwn s = true
      · rcases hmode with ⟨hsc, hno, hv⟩ | ⟨_, hno, _⟩
        · simp only [hown, if_true] at h
          have hv' : sumv val (pre ++ dec s :: rest) = V0 - x := by
            rw [sumv_append, sumv_cons, hDecVal s hown]
            rw [sumv_append, sumv_cons] at hv
            omega
          by_cases hz : isZero (dec s) = true
          · simp only [hz, if_true] at h
            obtain ⟨rest', hsw, hperm⟩ := swapRemove_mid pre (dec s) rest
            rw [hsw] at h
            refine ih pre rest' _ r (nodup_remove key hkn hperm) (Or.inr ⟨?_, ?_, ?_⟩) h
            · have := hperm.length_eq
              simp only [List.length_append]
              omega
            · intro y hy
              exact nodup_own_rest key k0 isOwn hOwn hkn hown y (hperm.mem_iff.mp hy)
            · rw [sumv_append, sumv_perm val hperm]
              rw [sumv_append, sumv_cons, hZero _ hz] at hv'
              omega
          · simp only [hz] at h
            have e1 : pre ++ dec s :: rest = (pre ++ [dec s]) ++ rest := by simp
            have e2 : pre.length + 1 = (pre ++ [dec s]).length := by simp
            rw [e1] at hv'
            rw [e1, e2] at h
            refine ih (pre ++ [dec s]) rest _ r (nodup_replace key hkn (hDecKey s))
              (Or.inr ⟨?_, nodup_own_rest key k0 isOwn hOwn hkn hown, hv'⟩) h
            simp only [List.length_append, List.length_cons, List.length_nil]
            omega
        · have := hno s List.mem_cons_self
          rw [this] at hown
          cases hown
      · have hown' : isOwn s = false := by
          cases hh : isOwn s with
          | false => rfl
          | true => exact absurd hh hown
        simp only [hown', Bool.false_eq_true, if_false] at h
        by_cases hz : isZero s = true
        · simp only [hz, if_true] at h
          obtain ⟨rest', hsw, hperm⟩ := swapRemove_mid pre s rest
          rw [hsw] at h
          have hl := hperm.length_eq
          have hsv : sumv val (pre ++ rest') = sumv val (pre ++ s :: rest) := by
            rw [sumv_append, sumv_perm val hperm, sumv_append, sumv_cons, hZero _ hz]
            omega
          refine ih pre rest' _ r (nodup_remove key hkn hperm) ?_ h
          rcases hmode with ⟨hsc, hno, hv⟩ | ⟨hsc, hno, hv⟩
          · exact Or.inl ⟨by simp only [List.length_append]; omega, hno, by rw [hsv, hv]⟩
          · refine Or.inr ⟨by simp only [List.length_append]; omega, ?_, by rw [hsv, hv]⟩
            intro y hy
            exact hno y (List.mem_cons_of_mem _ (hperm.mem_iff.mp hy))
        · simp only [hz] at h
          have e1 : pre ++ s :: rest = (pre ++ [s]) ++ rest := by simp
          have e2 : pre.length + 1 = (pre ++ [s]).length := by simp
          rw [e1] at h hkn hmode
          rw [e2] at h
          refine ih (pre ++ [s]) rest _ r hkn ?_ h
          rcases hmode with ⟨hsc, hno, hv⟩ | ⟨hsc, hno, hv⟩
          · refine Or.inl ⟨hsc, ?_, hv⟩
            intro y hy
            rcases List.mem_append.mp hy with hy | hy
            · exact hno y hy
            · simp only [List.mem_singleton] at hy
              subst hy
              exact hown'
          · exact Or.inr ⟨hsc, fun y hy => hno y (List.mem_cons_of_mem _ hy), hv⟩

/-! ### numbers -/

theorem numSumVal_append (ρ : Env) (a b : List NumSummand) :
    numSumVal ρ (a ++ b) = numSumVal ρ a + numSumVal ρ b := by
  simp [numSumVal, List.sum_append]

/-- the own-variable loop subtracts the filter's own variable exactly once -/
theorem numOwn_val (ρ : Env) (t : Term) (ty : NumType) (nc r : NumC) (hk : KN nc.sum)
    (h : numOwn t ty nc = .ok r) :
    numSumVal ρ r.sum = numSumVal ρ nc.sum - numVar (ρ t.sq) ty ∧ r.n = nc.n := by
  unfold numOwn runOwnLoop at h
  cases hl : ownLoop (fun (s : NumSummand) => decide (s.sq = t.sq ∧ s.ty = ty))
      (fun s => { s with factor := s.factor - 1 }) (fun s => decide (s.factor = 0))
      { sq := t.sq, factor := 0, ty := ty } (2 * nc.sum.length + 3) 0 nc.sum.length nc.sum with
  | none => rw [hl] at h; cases h
  | some l =>
    rw [hl] at h
    simp only [Outcome.ok.injEq] at h
    subst h
    refine ⟨?_, rfl⟩
    have := ownLoop_val (fun (s : NumSummand) => (s.sq, s.ty)) (t.sq, ty)
      (fun (s : NumSummand) => decide (s.sq = t.sq ∧ s.ty = ty))
      (fun s => { s with factor := s.factor - 1 }) (fun s => decide (s.factor = 0))
      { sq := t.sq, factor := 0, ty := ty } (fun s => s.factor * numVar (ρ s.sq) s.ty) (numVar (ρ t.sq) ty)
      (by intro s; simp) (by intro s; rfl)
      (by
        intro s hs
        simp only [decide_eq_true_eq] at hs
        simp only [hs.1, hs.2, Int.sub_mul, Int.one_mul])
      (by intro s hs; simp only [decide_eq_true_eq] at hs; simp [hs])
      rfl (by simp) (by simp) (numSumVal ρ nc.sum)
      (2 * nc.sum.length + 3) [] nc.sum nc.sum.length l hk
      (Or.inl ⟨rfl, fun _ hs => absurd hs List.not_mem_nil, rfl⟩) hl
    exact this

theorem numAddVar_val (ρ : Env) (sub : String) (ty : NumType) (f : Int) : ∀ l : List NumSummand,
    numSumVal ρ (numAddVar l sub ty f) = numSumVal ρ l + f * numVar (ρ sub) ty
  | [] => by simp [numAddVar]
  | s :: rest => by
    simp only [numAddVar]
    split
    · simp only [numSumVal_cons, numAddVar_val ρ sub ty f rest]; omega
    · rename_i hne
      have hk : s.sq = sub ∧ s.ty = ty := by
        constructor
        · exact Decidable.byContradiction (fun h => hne (Or.inl h))
        · exact Decidable.byContradiction (fun h => hne (Or.inr h))
      simp only [numSumVal_cons, hk.1, hk.2, Int.add_mul]; omega

theorem numParts_val (ρ : Env) : ∀ (r : List NumPart) (nc nc' : NumC), numParts r nc = .ok nc' →
    nc'.n + numSumVal ρ nc'.sum = nc.n + numSumVal ρ nc.sum + numPartsVal ρ r
  | [], nc, nc', h => by
    simp only [numParts, Outcome.ok.injEq] at h
    subst h; simp [numPartsVal]
  | .num ops n :: rest, nc, nc', h => by
    simp only [numParts] at h
    have := numParts_val ρ rest _ nc' h
    simp only [numPartsVal, List.map_cons, List.sum_cons, numPartVal] at this ⊢
    omega
  | .var ops v :: rest, nc, nc', h => by
    simp only [numParts] at h
    split at h
    · cases h
    · rename_i ty hty
      have := numParts_val ρ rest _ nc' h
      simp only [numPartsVal, List.map_cons, List.sum_cons, numPartVal, hty, numAddVar_val] at this ⊢
      omega

theorem numSumVal_negOne (ρ : Env) (sum : List NumSummand) :
    numSumVal ρ (sum.map (fun s => { s with factor := s.factor * -1 })) = - numSumVal ρ sum := by
  induction sum with
  | nil => simp
  | cons s ss ih =>
    simp only [List.map_cons, numSumVal_cons, ih]
    rw [Int.mul_neg, Int.mul_one, Int.neg_mul]; omega

theorem numEntryFor_soundV (t : Term) (ρ : Env) (ty : NumType) (b : NumC × NumC × Bool × Bool) (conj : Conj)
    (h1 : KN b.1.sum) (h2 : KN b.2.1.sum) (h : numEntryFor t b ty = .ok conj) :
    Conj.OK conj ∧ evalConj conj ρ =
      inRange (numVar (ρ t.sq) ty) (if b.2.2.1 then none else some (b.1.n + numSumVal ρ b.1.sum))
        (if b.2.2.2 then none else some (b.2.1.n + numSumVal ρ b.2.1.sum)) := by
  obtain ⟨b1, b2, e0, e1⟩ := b
  simp only at h1 h2 ⊢
  unfold numEntryFor at h
  simp only at h
  split at h
  · rename_i lo hlo
    split at h
    · rename_i hi hhi
      simp only [Outcome.ok.injEq] at h
      subst h
      obtain ⟨vlo, nlo⟩ := numOwn_val ρ t ty _ lo h1 hlo
      obtain ⟨vhi, nhi⟩ := numOwn_val ρ t ty _ hi h2 hhi
      constructor
      · intro x hx
        cases e0 <;> cases e1 <;> simp at hx <;> (try rcases hx with rfl | rfl) <;>
          (try subst hx) <;> trivial
      · have elo : evalNum lo.neg ρ = decide (b1.n + numSumVal ρ b1.sum ≤ numVar (ρ t.sq) ty) := by
          simp only [evalNum, NumC.neg, numSumVal_negOne, vlo, nlo]
          apply decide_eq_decide.mpr; omega
        have ehi : evalNum hi ρ = decide (numVar (ρ t.sq) ty ≤ b2.n + numSumVal ρ b2.sum) := by
          simp only [evalNum, vhi, nhi]
          apply decide_eq_decide.mpr; omega
        cases e0 <;> cases e1 <;> simp [evalConj, evalCond, inRange, elo, ehi]
    all_goals cases h
  all_goals cases h

theorem numBounds_soundV (t : Term) (ρ : Env) (ty : NumType) (e : List (List NumPart))
    (hlen : e.length = 1 ∨ e.length = 2) (b : NumC × NumC × Bool × Bool) (h : numBounds e = .ok b) :
    evalNumEntry t ρ ty e =
      inRange (numVar (ρ t.sq) ty) (if b.2.2.1 then none else some (b.1.n + numSumVal ρ b.1.sum))
        (if b.2.2.2 then none else some (b.2.1.n + numSumVal ρ b.2.1.sum)) := by
  match e, hlen, h with
  | [r], _, h =>
    simp only [numBounds] at h
    split at h
    · rename_i nc hnc
      simp only [Outcome.ok.injEq] at h
      subst h
      have := numParts_val ρ r _ nc hnc
      simp only [numSumVal_nil] at this
      simp only [evalNumEntry, optVal, this]
      cases r.isEmpty <;> simp
    all_goals cases h
  | [r0, r1], _, h =>
    simp only [numBounds] at h
    split at h
    · rename_i nc0 hnc0
      split at h
      · rename_i nc1 hnc1
        simp only [Outcome.ok.injEq] at h
        subst h
        have h0 := numParts_val ρ r0 _ nc0 hnc0
        have h1 := numParts_val ρ r1 _ nc1 hnc1
        simp only [numSumVal_nil] at h0 h1
        simp only [evalNumEntry, optVal, h0, h1]
        cases r0.isEmpty <;> cases r1.isEmpty <;> simp
      all_goals cases h
    all_goals cases h

theorem trNumEntry_soundV (t : Term) (ρ : Env) (e : List (List NumPart))
    (hlen : e.length = 1 ∨ e.length = 2) (cs : CSet) (h : trNumEntry t e = .ok cs) :
    cs ≠ [] ∧ CSet.OK cs ∧
      evalSet cs ρ = (numKeyTypes t.key).any (fun ty => evalNumEntry t ρ ty e) := by
  unfold trNumEntry at h
  split at h
  · rename_i b hb
    have hrel := mapOutcome_ok _ _ _ h
    have hk := numBounds_KN e b hb
    refine ⟨hrel.ne_nil (numKeyTypes_ne _), ?_, ?_⟩
    · intro c hc
      obtain ⟨ty, _, hty⟩ := hrel.mem_right c hc
      exact (numEntryFor_soundV t ρ ty b c hk.1 hk.2 hty).1
    · unfold evalSet
      apply hrel.any_eq
      intro ty _ c hty
      rw [numBounds_soundV t ρ ty e hlen b hb]
      exact (numEntryFor_soundV t ρ ty b c hk.1 hk.2 hty).2
  all_goals cases h

theorem trNums_soundV (t : Term) (l : List (List (List NumPart))) (ρ : Env) (hne : l ≠ [])
    (hf : ∀ e ∈ l, (e.length = 1 ∨ e.length = 2))
    (cs : CSet) (h : trNums t l = .ok cs) :
    cs ≠ [] ∧ CSet.OK cs ∧
      evalSet cs ρ = l.any (fun ranges => (numKeyTypes t.key).any (fun ty => evalNumEntry t ρ ty ranges)) := by
  unfold trNums at h
  split at h
  · rename_i ll hll
    simp only [Outcome.ok.injEq] at h
    subst h
    have hrel := mapOutcome_ok _ _ _ hll
    refine ⟨?_, ?_, ?_⟩
    · apply flatten_ne_nil (hrel.ne_nil hne)
      intro c hc
      obtain ⟨e, he, hce⟩ := hrel.mem_right c hc
      exact (trNumEntry_soundV t ρ e (hf e he) c hce).1
    · intro c hc
      obtain ⟨c', hc', hcc'⟩ := List.mem_flatten.mp hc
      obtain ⟨e, he, hce⟩ := hrel.mem_right c' hc'
      exact (trNumEntry_soundV t ρ e (hf e he) c' hce).2.1 c hcc'
    · unfold evalSet
      rw [any_flatten]
      apply hrel.any_eq
      intro e he c hce
      exact (trNumEntry_soundV t ρ e (hf e he) c hce).2.2
  all_goals cases h

/-! ### times -/

/-- pairwise distinct sub-query names -/
def TK (l : List TimeSummand) : Prop := (l.map (fun s => s.sq)).Nodup

/-- the value a variable `sub.name` contributes -/
def timeVarVal (ρ : Env) (sub name : String) : Int :=
  if name = "ftime" then (ρ sub).ftime else if name = "ltime" then (ρ sub).ltime else 0

theorem timeAddVar_spec (ρ : Env) (sub name : String) (f : Int) : ∀ (l r : List TimeSummand),
    timeAddVar l sub name f = .ok r →
    timeSumVal ρ r = timeSumVal ρ l + f * timeVarVal ρ sub name ∧
      (∀ k ∈ r.map (fun s => s.sq), k ∈ l.map (fun s => s.sq) ∨ k = sub) ∧ (TK l → TK r)
  | [], r, h => by
    simp only [timeAddVar] at h
    split at h
    · rename_i hn
      simp only [Outcome.ok.injEq] at h
      subst h
      simp [timeVarVal, hn, TK]
    · split at h
      · rename_i hn1 hn2
        simp only [Outcome.ok.injEq] at h
        subst h
        simp [timeVarVal, hn2, TK]
      · cases h
  | s :: rest, r, h => by
    simp only [timeAddVar] at h
    split at h
    · rename_i hne
      split at h
      · rename_i r' hr'
        simp only [Outcome.ok.injEq] at h
        subst h
        obtain ⟨v, m, k⟩ := timeAddVar_spec ρ sub name f rest r' hr'
        refine ⟨by simp only [timeSumVal_cons, v]; omega, ?_, ?_⟩
        · intro x hx
          simp only [List.map_cons, List.mem_cons] at hx ⊢
          rcases hx with hx | hx
          · exact Or.inl (Or.inl hx)
          · rcases m x hx with h' | h'
            · exact Or.inl (Or.inr h')
            · exact Or.inr h'
        · intro hk
          unfold TK at hk ⊢
          rw [List.map_cons] at hk ⊢
          obtain ⟨h1, h2⟩ := List.nodup_cons.mp hk
          refine List.nodup_cons.mpr ⟨?_, k h2⟩
          intro hm
          rcases m _ hm with h' | h'
          · exact h1 h'
          · exact hne h'
      · rename_i o hno
        exact (hno r h).elim
    · rename_i heq
      have heq' : s.sq = sub := Decidable.byContradiction heq
      split at h
      · rename_i hn
        simp only [Outcome.ok.injEq] at h
        subst h
        refine ⟨by simp only [timeSumVal_cons, timeVarVal, hn, if_true, heq', Int.add_mul]; omega,
          fun x hx => Or.inl hx, fun hk => hk⟩
      · split at h
        · rename_i hn1 hn2
          simp only [Outcome.ok.injEq] at h
          subst h
          have e : timeVarVal ρ sub name = (ρ sub).ltime := by simp [timeVarVal, hn2]
          refine ⟨by simp only [timeSumVal_cons, e, heq', Int.add_mul]; omega,
            fun x hx => Or.inl hx, fun hk => hk⟩
        · cases h

theorem timeParts_spec (ref : Int) (ρ : Env) : ∀ (r : List TimePart) (tc tc' : TimeC),
    timeParts ref r tc = .ok tc' →
    tc'.dur + timeSumVal ρ tc'.sum = tc.dur + timeSumVal ρ tc.sum + timePartsVal ref ρ r ∧
      (TK tc.sum → TK tc'.sum)
  | [], tc, tc', h => by
    simp only [timeParts, Outcome.ok.injEq] at h
    subst h; simp [timePartsVal]
  | .dur ops ns :: rest, tc, tc', h => by
    simp only [timeParts] at h
    obtain ⟨v, k⟩ := timeParts_spec ref ρ rest _ tc' h
    refine ⟨?_, k⟩
    simp only [timePartsVal, List.map_cons, List.sum_cons, timePartVal] at v ⊢
    omega
  | .abs ops c :: rest, tc, tc', h => by
    simp only [timeParts] at h
    obtain ⟨v, k⟩ := timeParts_spec ref ρ rest _ tc' h
    refine ⟨?_, k⟩
    simp only [timePartsVal, List.map_cons, List.sum_cons, timePartVal] at v ⊢
    omega
  | .var ops vv :: rest, tc, tc', h => by
    simp only [timeParts] at h
    split at h
    · rename_i sum hsum
      obtain ⟨v, k⟩ := timeParts_spec ref ρ rest _ tc' h
      obtain ⟨v1, _, k1⟩ := timeAddVar_spec ρ vv.sub vv.name (opsFactor ops) tc.sum sum hsum
      refine ⟨?_, fun hk => k (k1 hk)⟩
      have hval : timePartVal ref ρ (.var ops vv) = opsFactor ops * timeVarVal ρ vv.sub vv.name := by
        simp only [timePartVal, timeVarVal]
        split
        · rfl
        · split
          · rfl
          · simp
      simp only [timePartsVal, List.map_cons, List.sum_cons, hval] at v ⊢
      rw [v1] at v
      omega
    all_goals cases h

/-- what the own-variable loop of a time term subtracts -/
def ownTimeVal (ρ : Env) (t : Term) (tci : Nat) : Int :=
  if t.key = "ftime" then (ρ t.sq).ftime
  else if t.key = "ltime" then (ρ t.sq).ltime
  else (tci : Int) * (ρ t.sq).ftime + (1 - (tci : Int)) * (ρ t.sq).ltime

theorem timeOwn_val (ρ : Env) (t : Term) (tci : Nat) (tc r : TimeC) (hk : TK tc.sum)
    (h : timeOwn t tci tc = .ok r) :
    timeSumVal ρ r.sum = timeSumVal ρ tc.sum - ownTimeVal ρ t tci ∧ r.dur = tc.dur := by
  unfold timeOwn runOwnLoop at h
  simp only at h
  generalize hdec : (fun (s : TimeSummand) =>
      if t.key = "ftime" then ({ s with f := s.f - 1 } : TimeSummand)
      else if t.key = "ltime" then { s with l := s.l - 1 }
      else { s with f := s.f - (tci : Int), l := s.l - (1 - (tci : Int)) }) = dec at h
  cases hl : ownLoop (fun (s : TimeSummand) => decide (s.sq = t.sq)) dec
      (fun s => decide (s.f = 0 ∧ s.l = 0)) { sq := t.sq, f := 0, l := 0 }
      (2 * tc.sum.length + 3) 0 tc.sum.length tc.sum with
  | none => rw [hl] at h; cases h
  | some l =>
    rw [hl] at h
    simp only [Outcome.ok.injEq] at h
    subst h
    refine ⟨?_, rfl⟩
    have hdsq : ∀ s, (dec s).sq = s.sq := by
      intro s; subst hdec; simp only; split
      · rfl
      · split <;> rfl
    have hdval : ∀ s : TimeSummand, s.sq = t.sq →
        (dec s).f * (ρ (dec s).sq).ftime + (dec s).l * (ρ (dec s).sq).ltime =
          s.f * (ρ s.sq).ftime + s.l * (ρ s.sq).ltime - ownTimeVal ρ t tci := by
      intro s hs
      subst hdec
      simp only [ownTimeVal]
      split
      · simp only [hs, Int.sub_mul, Int.one_mul]; omega
      · split
        · simp only [hs, Int.sub_mul, Int.one_mul]; omega
        · simp only [hs, Int.sub_mul]; omega
    have hfnz : (decide ((dec { sq := t.sq, f := 0, l := 0 }).f = 0 ∧ (dec { sq := t.sq, f := 0, l := 0 }).l = 0)) = false := by
      subst hdec
      simp only
      split
      · simp
      · split
        · simp
        · simp only [decide_eq_false_iff_not]; omega
    exact ownLoop_val (fun (s : TimeSummand) => s.sq) t.sq
      (fun (s : TimeSummand) => decide (s.sq = t.sq)) dec (fun s => decide (s.f = 0 ∧ s.l = 0))
      { sq := t.sq, f := 0, l := 0 } (fun s => s.f * (ρ s.sq).ftime + s.l * (ρ s.sq).ltime)
      (ownTimeVal ρ t tci)
      (by intro s; simp) hdsq
      (by intro s hs; simp only [decide_eq_true_eq] at hs; exact hdval s hs)
      (by intro s hs; simp only [decide_eq_true_eq] at hs; simp [hs.1, hs.2])
      rfl (by simp) hfnz (timeSumVal ρ tc.sum)
      (2 * tc.sum.length + 3) [] tc.sum tc.sum.length l hk
      (Or.inl ⟨rfl, fun _ hs => absurd hs List.not_mem_nil, rfl⟩) hl

theorem timeSumVal_negOne (ρ : Env) (sum : List TimeSummand) :
    timeSumVal ρ (sum.map (fun s => { s with f := s.f * -1, l := s.l * -1 })) = - timeSumVal ρ sum := by
  induction sum with
  | nil => simp
  | cons s ss ih =>
    simp only [List.map_cons, timeSumVal_cons, ih]
    rw [Int.mul_neg, Int.mul_one, Int.neg_mul, Int.mul_neg, Int.mul_one, Int.neg_mul]; omega

theorem TK_nil : TK [] := List.nodup_nil

/-- the meaning of a time range with the given optional bounds -/
def timeGo (t : Term) (ρ : Env) (lo hi : Option Int) : Bool :=
  if t.key = "ftime" then inRange (ρ t.sq).ftime lo hi
  else if t.key = "ltime" then inRange (ρ t.sq).ltime lo hi
  else inRange (ρ t.sq).ltime lo none && inRange (ρ t.sq).ftime none hi

theorem timeBounds_soundV (t : Term) (ref : Int) (ρ : Env) (e : List (List TimePart))
    (hlen : e.length = 1 ∨ e.length = 2) (b : TimeC × TimeC × Bool × Bool) (h : timeBounds ref e = .ok b) :
    TK b.1.sum ∧ TK b.2.1.sum ∧ evalTimeEntry t ref ρ e =
      timeGo t ρ (if b.2.2.1 then none else some (b.1.dur + timeSumVal ρ b.1.sum))
        (if b.2.2.2 then none else some (b.2.1.dur + timeSumVal ρ b.2.1.sum)) := by
  match e, hlen, h with
  | [r], _, h =>
    simp only [timeBounds] at h
    split at h
    · rename_i tc htc
      simp only [Outcome.ok.injEq] at h
      subst h
      obtain ⟨v, k⟩ := timeParts_spec ref ρ r _ tc htc
      simp only [timeSumVal_nil] at v
      refine ⟨k TK_nil, k TK_nil, ?_⟩
      simp only [evalTimeEntry, optVal, v, timeGo]
      cases r.isEmpty <;> simp
    all_goals cases h
  | [r0, r1], _, h =>
    simp only [timeBounds] at h
    split at h
    · rename_i tc0 htc0
      split at h
      · rename_i tc1 htc1
        simp only [Outcome.ok.injEq] at h
        subst h
        obtain ⟨v0, k0⟩ := timeParts_spec ref ρ r0 _ tc0 htc0
        obtain ⟨v1, k1⟩ := timeParts_spec ref ρ r1 _ tc1 htc1
        simp only [timeSumVal_nil] at v0 v1
        refine ⟨k0 TK_nil, k1 TK_nil, ?_⟩
        simp only [evalTimeEntry, optVal, v0, v1, timeGo]
        cases r0.isEmpty <;> cases r1.isEmpty <;> simp
      all_goals cases h
    all_goals cases h

theorem trTimeEntry_soundV (t : Term) (ref : Int) (ρ : Env) (e : List (List TimePart))
    (hlen : e.length = 1 ∨ e.length = 2) (conj : Conj) (h : trTimeEntry t ref e = .ok conj) :
    Conj.OK conj ∧ evalConj conj ρ = evalTimeEntry t ref ρ e := by
  unfold trTimeEntry at h
  split at h
  · rename_i b hb
    obtain ⟨k1, k2, hev⟩ := timeBounds_soundV t ref ρ e hlen b hb
    rw [hev]
    obtain ⟨b1, b2, e0, e1⟩ := b
    simp only at k1 k2 h ⊢
    split at h
    · rename_i lo hlo
      split at h
      · rename_i hi hhi
        simp only [Outcome.ok.injEq] at h
        subst h
        obtain ⟨vlo, nlo⟩ := timeOwn_val ρ t 0 _ lo k1 hlo
        obtain ⟨vhi, nhi⟩ := timeOwn_val ρ t 1 _ hi k2 hhi
        constructor
        · intro x hx
          cases e0 <;> cases e1 <;> simp at hx <;> (try rcases hx with rfl | rfl) <;>
            (try subst hx) <;> trivial
        · have elo : evalTime lo.neg ρ = decide (b1.dur + timeSumVal ρ b1.sum ≤ ownTimeVal ρ t 0) := by
            simp only [evalTime, TimeC.neg, timeSumVal_negOne, vlo, nlo]
            apply decide_eq_decide.mpr; omega
          have ehi : evalTime hi ρ = decide (ownTimeVal ρ t 1 ≤ b2.dur + timeSumVal ρ b2.sum) := by
            simp only [evalTime, vhi, nhi]
            apply decide_eq_decide.mpr; omega
          by_cases hk1 : t.key = "ftime"
          · cases e0 <;> cases e1 <;>
              simp [evalConj, evalCond, inRange, elo, ehi, timeGo, ownTimeVal, hk1]
          · by_cases hk2 : t.key = "ltime"
            · cases e0 <;> cases e1 <;>
                simp [evalConj, evalCond, inRange, elo, ehi, timeGo, ownTimeVal, hk2]
            · cases e0 <;> cases e1 <;>
                simp [evalConj, evalCond, inRange, elo, ehi, timeGo, ownTimeVal, hk1, hk2]
      all_goals cases h
    all_goals cases h
  all_goals cases h

theorem trTimes_soundV (t : Term) (ref : Int) (l : List (List (List TimePart))) (ρ : Env) (hne : l ≠ [])
    (hf : ∀ e ∈ l, (e.length = 1 ∨ e.length = 2))
    (cs : CSet) (h : trTimes t ref l = .ok cs) :
    cs ≠ [] ∧ CSet.OK cs ∧ evalSet cs ρ = l.any (evalTimeEntry t ref ρ) := by
  have hrel := mapOutcome_ok _ _ _ h
  refine ⟨hrel.ne_nil hne, ?_, ?_⟩
  · intro c hc
    obtain ⟨e, he, hce⟩ := hrel.mem_right c hc
    exact (trTimeEntry_soundV t ref ρ e (hf e he) c hce).1
  · unfold evalSet
    apply hrel.any_eq
    intro e he c hce
    exact (trTimeEntry_soundV t ref ρ e (hf e he) c hce).2

/-! ### protocols -/

theorem flag_fin2 : ∀ a b : Fin 4,
    ((flagInvertValues 0 3).all (fun v => (((a.val ^^^ b.val) ^^^ v) &&& 3) != 0)) =
      decide (a.val &&& 3 = b.val &&& 3) := by
  decide

theorem proto_var_entry (sq sub : String) (ρ : Env) :
    CSet.OK (Cond.invert (.flag { sqs := [sq, sub], value := 0, mask := 3 })) ∧
      evalSet (Cond.invert (.flag { sqs := [sq, sub], value := 0, mask := 3 })) ρ =
        decide ((ρ sq).flags &&& 3 = (ρ sub).flags &&& 3) := by
  constructor
  · intro c hc x hx
    simp only [Cond.invert, List.mem_singleton] at hc
    subst hc
    simp only [List.mem_map] at hx
    obtain ⟨v, hv, rfl⟩ := hx
    have := flag_vals ⟨0, by decide⟩ v hv
    exact ⟨show (3 : Nat) < 4 by decide, this.2⟩
  · simp only [Cond.invert, evalSet, List.any_cons, List.any_nil, Bool.or_false, evalConj, List.all_map]
    have h1 : (flagInvertValues 0 3).all
          ((fun x => evalCond x ρ) ∘ fun v => Cond.flag { sqs := [sq, sub], value := v, mask := 3 }) =
        (flagInvertValues 0 3).all
          (fun v => (((((ρ sq).flags % 4) ^^^ ((ρ sub).flags % 4)) ^^^ v) &&& 3) != 0) := by
      apply all_congr'
      intro v _
      simp only [Function.comp, evalCond, evalFlag, xorFlags, List.foldl_cons, List.foldl_nil, Nat.zero_xor]
      rw [flag_mod]
      have : ((ρ sq).flags ^^^ (ρ sub).flags) % 4 = ((ρ sq).flags % 4) ^^^ ((ρ sub).flags % 4) :=
        Nat.xor_mod_two_pow (n := 2)
      rw [this]
    rw [h1]
    have hr1 : (ρ sq).flags % 4 < 4 := Nat.mod_lt _ (by decide)
    have hr2 : (ρ sub).flags % 4 < 4 := Nat.mod_lt _ (by decide)
    have := flag_fin2 ⟨(ρ sq).flags % 4, hr1⟩ ⟨(ρ sub).flags % 4, hr2⟩
    simp only at this
    rw [this, and_small (ρ sq).flags 3 2 (by decide), and_small (ρ sub).flags 3 2 (by decide)]

theorem trProtos_soundV (t : Term) (ρ : Env) : ∀ (l : List ProtoEntry) (cs : CSet),
    trProtos t l = .ok cs →
    (l ≠ [] → cs ≠ []) ∧ CSet.OK cs ∧ evalSet cs ρ = l.any (evalProto t ρ)
  | [], cs, h => by
    simp only [trProtos, Outcome.ok.injEq] at h
    subst h
    exact ⟨fun h => absurd rfl h, fun c hc => (by cases hc), rfl⟩
  | .var v :: rest, cs, h => by
    simp only [trProtos] at h
    split at h
    · cases h
    · split at h
      · rename_i tl htl
        obtain ⟨_, ih2, ih3⟩ := trProtos_soundV t ρ rest tl htl
        split at h
        · rename_i hne
          simp only [Outcome.ok.injEq] at h
          subst h
          obtain ⟨e1, e2⟩ := proto_var_entry t.sq v.sub ρ
          refine ⟨fun _ => by simp [Cond.invert], ?_, ?_⟩
          · intro c hc
            rcases List.mem_append.mp hc with hc | hc
            · exact e1 c hc
            · exact ih2 c hc
          · unfold evalSet at e2 ih3 ⊢
            rw [List.any_append, e2, ih3, List.any_cons]
            simp only [evalProto]
        · rename_i heq
          have heq' : v.sub = t.sq := Decidable.byContradiction heq
          simp only [Outcome.ok.injEq] at h
          subst h
          refine ⟨fun _ => by simp, ?_, ?_⟩
          · intro c hc
            rcases List.mem_cons.mp hc with rfl | hc
            · intro x hx; cases hx
            · exact ih2 c hc
          · unfold evalSet at ih3 ⊢
            simp [evalConj, evalProto, heq']
      · rename_i o hne
        exact (hne cs h).elim
  | .token tok :: rest, cs, h => by
    simp only [trProtos] at h
    split at h
    · cases h
    · rename_i f hpv
      split at h
      · rename_i tl htl
        simp only [Outcome.ok.injEq] at h
        subst h
        obtain ⟨_, ih2, ih3⟩ := trProtos_soundV t ρ rest tl htl
        obtain ⟨e1, e2⟩ := proto_entry t.sq f (protoValue_lt hpv) ρ
        refine ⟨fun _ => by simp [Cond.invert], ?_, ?_⟩
        · intro c hc
          rcases List.mem_append.mp hc with hc | hc
          · exact e1 c hc
          · exact ih2 c hc
        · unfold evalSet at e2 ih3 ⊢
          rw [List.any_append, e2, ih3, List.any_cons]
          simp only [evalProto, hpv]
      · rename_i o hne
        exact (hne cs h).elim

/-! ### hosts -/

theorem trHostEntry_soundV (t : Term) (server : Bool) (ρ : Env) (e : HostEntry)
    (hf : (e.var = none ∧ ((normHost e.host).length = 4 ∨ (normHost e.host).length = 16)) ∨ ∃ v, e.var = some v)
    (conj : Conj) (h : trHostEntry t server e = .ok conj) :
    Conj.OK conj ∧ evalConj conj ρ = evalHostEntry t server ρ e := by
  rcases hf with ⟨hv, hlen⟩ | ⟨v, hv⟩
  · exact trHostEntry_sound t server ρ e hv hlen conj h
  · unfold trHostEntry at h
    split at h
    · rename_i m4 m6 hm
      rw [hv] at h
      simp only at h
      have hml := hostMasks_len hm
      have key : ∀ (srv : Bool), decide (v.name = "shost") = srv →
          Conj.OK [Cond.host ⟨[{ sq := t.sq, server := server }, { sq := v.sub, server := srv }], [], m4, m6, false⟩] ∧
          evalConj [Cond.host ⟨[{ sq := t.sq, server := server }, { sq := v.sub, server := srv }], [], m4, m6, false⟩] ρ =
            evalHostEntry t server ρ e := by
        intro srv hsrv
        constructor
        · intro x hx
          simp only [List.mem_singleton] at hx
          subst hx
          exact ⟨Or.inr ⟨rfl, rfl⟩, hml⟩
        · simp only [evalConj, List.all_cons, List.all_nil, Bool.and_true, evalCond, evalHost, hostOperands,
            if_true, List.map_cons, List.map_nil, List.nil_append, List.foldl_cons, List.foldl_nil,
            evalHostEntry, hm, hv, maskedEq, hsrv]
          by_cases hl : (srcHost ρ { sq := v.sub, server := srv }).length =
              (srcHost ρ { sq := t.sq, server := server }).length
          · simp only [hl, decide_true, if_true, true_and]
            cases (List.all _ _) <;> rfl
          · have hl' : ¬ (srcHost ρ { sq := t.sq, server := server }).length =
                (srcHost ρ { sq := v.sub, server := srv }).length := fun h => hl h.symm
            simp [hl, hl']
      split at h
      · rename_i hn
        simp only [Outcome.ok.injEq] at h
        subst h
        exact key false (by simp [hn])
      · split at h
        · rename_i hn
          simp only [Outcome.ok.injEq] at h
          subst h
          exact key true (by simp [hn])
        · cases h
    all_goals cases h

theorem trHosts_soundV (t : Term) (l : List HostEntry) (ρ : Env) (hne : l ≠ [])
    (hf : ∀ h ∈ l, (h.var = none ∧ ((normHost h.host).length = 4 ∨ (normHost h.host).length = 16)) ∨
      ∃ v, h.var = some v)
    (cs : CSet) (h : trHosts t l = .ok cs) :
    cs ≠ [] ∧ CSet.OK cs ∧
      evalSet cs ρ = (hostTypes t.key).any (fun server => l.any (evalHostEntry t server ρ)) := by
  unfold trHosts at h
  split at h
  · split at h
    · rename_i ll hll
      simp only [Outcome.ok.injEq] at h
      subst h
      have hrel := mapOutcome_ok _ _ _ hll
      refine ⟨?_, ?_, ?_⟩
      · apply flatten_ne_nil (hrel.ne_nil (hostTypes_ne _))
        intro c hc
        obtain ⟨server, _, hs⟩ := hrel.mem_right c hc
        exact (mapOutcome_ok _ _ _ hs).ne_nil hne
      · intro c hc
        obtain ⟨c', hc', hcc'⟩ := List.mem_flatten.mp hc
        obtain ⟨server, _, hs⟩ := hrel.mem_right c' hc'
        obtain ⟨e, he, hce⟩ := (mapOutcome_ok _ _ _ hs).mem_right c hcc'
        exact (trHostEntry_soundV t server ρ e (hf e he) c hce).1
      · unfold evalSet
        rw [any_flatten]
        apply hrel.any_eq
        intro server _ c hs
        apply (mapOutcome_ok _ _ _ hs).any_eq
        intro e he conj hce
        exact (trHostEntry_soundV t server ρ e (hf e he) conj hce).2
    all_goals cases h
  all_goals cases h

end TermSoundV

open TermSound TermSoundV in
/-- translation of a single term with variables and sub-queries: a non-nil, non-empty, well-shaped
    condition set with the meaning the surface semantics gives the term -/
theorem trTerm_soundV (ref : Int) (t : Term) (g : GSet) (ρ : Env) (hf : t.FragV) (hρ : Env.WF ρ)
    (h : trTerm ref t = .ok g) :
    ∃ cs, g = some cs ∧ cs ≠ [] ∧ CSet.OK cs ∧ evalSet cs ρ = evalTerm ref t ρ := by
  have _ := hρ
  obtain ⟨hconv, hv⟩ := hf
  unfold trTerm at h
  have hc : ¬ (t.conv ≠ "" ∧ t.key ≠ "data" ∧ t.key ≠ "cdata" ∧ t.key ≠ "sdata") := by
    intro ⟨h0, h1, h2, h3⟩
    rcases hconv with h | h | h | h
    · exact h0 h
    · exact h1 h
    · exact h2 h
    · exact h3 h
  rw [if_neg hc] at h
  unfold evalTerm
  split at h
  · rename_i names hval
    simp only [hval] at hv ⊢
    obtain ⟨h1, h2, h3⟩ := trTags_sound t names ρ hv
    simp only [Outcome.ok.injEq] at h
    exact ⟨_, by rw [← h, nilIfEmpty_ne h1], h1, h2, h3⟩
  · rename_i l hval
    simp only [hval] at hv ⊢
    obtain ⟨cs, hcs, rfl⟩ := liftSet_ok h
    obtain ⟨h1, h2, h3⟩ := trProtos_soundV t ρ l cs hcs
    exact ⟨cs, nilIfEmpty_ne (h1 hv), h1 hv, h2, h3⟩
  · rename_i l hval
    simp only [hval] at hv ⊢
    obtain ⟨cs, hcs, rfl⟩ := liftSet_ok h
    obtain ⟨h1, h2, h3⟩ := trHosts_soundV t l ρ hv.1 hv.2.2 cs hcs
    exact ⟨cs, nilIfEmpty_ne h1, h1, h2, h3⟩
  · rename_i l hval
    simp only [hval] at hv ⊢
    obtain ⟨cs, hcs, rfl⟩ := liftSet_ok h
    obtain ⟨h1, h2, h3⟩ := trNums_soundV t l ρ hv.1 hv.2 cs hcs
    exact ⟨cs, nilIfEmpty_ne h1, h1, h2, h3⟩
  · rename_i l hval
    simp only [hval] at hv ⊢
    obtain ⟨cs, hcs, rfl⟩ := liftSet_ok h
    obtain ⟨h1, h2, h3⟩ := trTimes_soundV t ref l ρ hv.1 hv.2 cs hcs
    exact ⟨cs, nilIfEmpty_ne h1, h1, h2, h3⟩
  · rename_i content vars hval
    simp only [hval] at hv ⊢
    obtain ⟨h1, h2, h3⟩ := trData_sound t content vars ρ
    simp only [Outcome.ok.injEq] at h
    exact ⟨_, by rw [← h, nilIfEmpty_ne h1], h1, h2, h3⟩
  · rename_i hval
    simp only [hval] at hv

/-! ### the closed theorems for the fragment with variables -/

theorem termLawV (ref : Int) : TermLaw ref Term.FragV :=
  fun t g ρ hf hρ h => trTerm_soundV ref t g ρ hf hρ h

theorem translate_sound_fragV (ref : Int) (e : Expr) (hf : Frag e) (hp : TermsOf Term.FragV e)
    (g : GSet) (h : translate ref e = .ok g) (ρ : Env) (hρ : Env.WF ρ) :
    ∃ cs, g = some cs ∧ cs ≠ [] ∧ CSet.OK cs ∧ evalSet cs ρ = evalExpr ref ρ e :=
  translate_sound laws ref Term.FragV (termLawV ref) e hf hp g h ρ hρ

theorem normalise_sound_fragV (ref : Int) (e : Expr) (hf : Frag e) (hp : TermsOf Term.FragV e)
    (p : Parsed) (h : parse ref e = .ok p) (ρ : Env) (hρ : Env.WF ρ) (hid : Env.IdOK ρ) :
    evalParsed p ρ = evalExpr ref ρ e :=
  normalise_sound_of_laws laws ref Term.FragV (termLawV ref) e hf hp p h ρ hρ hid

theorem impossible_only_if_unsat_fragV (ref : Int) (e : Expr) (hf : Frag e)
    (hp : TermsOf Term.FragV e) (h : parse ref e = .ok .nothing) (ρ : Env) (hρ : Env.WF ρ)
    (hid : Env.IdOK ρ) : evalExpr ref ρ e = false :=
  impossible_only_if_unsat_of_laws laws ref Term.FragV (termLawV ref) e hf hp h ρ hρ hid

theorem dnf_size_bound_fragV (ref : Int) (e : Expr) (hp : TermsOf Term.FragV e) (cs : CSet)
    (h : translate ref e = .ok (some cs)) : cs.length ≤ (dnfBound e).1 :=
  dnf_size_bound laws ref Term.FragV (TermOK_of_TermLaw ref Term.FragV (termLawV ref)) e hp cs h

/-! ### non-vacuity: terms with variables in the fragment -/

namespace ExampleV

/-- `cport:@a:sport+1:` -/
def portVar : Term :=
  { sq := "", key := "cport", conv := "", value := .nums [[[.var "" ⟨"a", "sport"⟩, .num "+" 1], []]] }
/-- `@b:ftime:@a:ltime+1s` -/
def timeVar : Term :=
  { sq := "b", key := "ftime", conv := "", value := .times [[[.var "" ⟨"a", "ltime"⟩, .dur "+" 1000000000]]] }
/-- `chost:@a:shost/24` -/
def hostVar : Term :=
  { sq := "", key := "chost", conv := "", value := .hosts [{ var := some ⟨"a", "shost"⟩, host := [], masks := some [24] }] }
/-- `protocol:@a:protocol,udp` -/
def protoVar : Term :=
  { sq := "", key := "protocol", conv := "", value := .protos [.var ⟨"a", "protocol"⟩, .token "udp"] }

theorem portVar_fragV : portVar.FragV := by simp [Term.FragV, portVar]
theorem timeVar_fragV : timeVar.FragV := by simp [Term.FragV, timeVar]
theorem hostVar_fragV : hostVar.FragV := by simp [Term.FragV, hostVar]
theorem protoVar_fragV : protoVar.FragV := by simp [Term.FragV, protoVar]

deriving instance DecidableEq for Outcome

/-- the hypothesis `trTerm ref t = .ok g` of `trTerm_soundV` is satisfiable for a term with a
    variable: `cport:@a:sport+1:` becomes `cport - @a:sport - 1 ≥ 0` -/
theorem portVar_ok : trTerm 0 portVar = .ok (some
    [[.num { sum := [{ sq := "a", factor := -1, ty := 4 }, { sq := "", factor := 1, ty := 3 }], n := -1 }]]) := by
  decide

theorem portVar_sound (ρ : Env) (hρ : Env.WF ρ) :
    evalSet [[.num { sum := [{ sq := "a", factor := -1, ty := 4 }, { sq := "", factor := 1, ty := 3 }], n := -1 }]] ρ =
      evalTerm 0 portVar ρ := by
  obtain ⟨cs, h1, _, _, h4⟩ := trTerm_soundV 0 portVar _ ρ portVar_fragV hρ portVar_ok
  cases h1
  exact h4

set_option maxRecDepth 100000 in
theorem timeVar_ok : (match trTerm 0 timeVar with | .ok (some _) => true | _ => false) = true := by decide
set_option maxRecDepth 100000 in
theorem hostVar_ok : (match trTerm 0 hostVar with | .ok (some _) => true | _ => false) = true := by decide

end ExampleV

end Pk.Query
