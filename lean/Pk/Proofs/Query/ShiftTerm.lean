/-
  C14 (reference-time shift), part 4: term translation.

  * `trTerm (ref + d) t = (trTerm ref t).map (shiftG d)` for every term (no hypothesis);
  * the time conditions a time term produces, described by two counters of the bound they come
    from: `partsAbs` (signed number of absolute time literals) and `partsVar` (signed number of
    packet-time variables): `rtf = ∓partsAbs`, `tot sum = ±(partsVar - 1)`.
-/
import Pk.Proofs.Query.ShiftSet
import Pk.Proofs.Query.TermSoundV
import Pk.Proofs.Query.Total

namespace Pk.Query

/-! ### counters of a bound -/

/-- signed number of absolute time literals of a bound (`+` counts 1, `-` counts -1) -/
def partsAbs : List TimePart → Int
  | [] => 0
  | .abs ops _ :: rest => opsFactor ops + partsAbs rest
  | .dur _ _ :: rest => partsAbs rest
  | .var _ _ :: rest => partsAbs rest

/-- signed number of packet-time variables (`@sub:ftime@`, `@sub:ltime@`) of a bound -/
def partsVar : List TimePart → Int
  | [] => 0
  | .var ops _ :: rest => opsFactor ops + partsVar rest
  | .dur _ _ :: rest => partsVar rest
  | .abs _ _ :: rest => partsVar rest

/-- `tc` is the lower (negated) or the upper bound condition made from the bound `r` -/
def BoundOf (r : List TimePart) (tc : TimeC) : Prop :=
  (tc.rtf = partsAbs r ∧ tot tc.sum = 1 - partsVar r) ∨ (tc.rtf = -partsAbs r ∧ tot tc.sum = partsVar r - 1)

namespace Shift
open TermSoundV TermSound Total

/-! ### generic: mapOutcome under a map of the results -/

theorem mapOutcome_map {α β : Type} (f1 f2 : α → Outcome β) (g : β → β) :
    ∀ (l : List α), (∀ x ∈ l, f2 x = (f1 x).map g) → mapOutcome f2 l = (mapOutcome f1 l).map (List.map g)
  | [], _ => rfl
  | x :: xs, h => by
    simp only [mapOutcome]
    rw [h x List.mem_cons_self, mapOutcome_map f1 f2 g xs (fun y hy => h y (List.mem_cons_of_mem _ hy))]
    cases f1 x <;> simp only [Outcome.map_ok, Outcome.map_err, Outcome.map_panic, Outcome.map_diverged]
    cases mapOutcome f1 xs <;> simp

/-! ### time terms commute with the shift -/

theorem timeParts_shift (ref d : Int) : ∀ (r : List TimePart) (tc : TimeC),
    timeParts (ref + d) r (shiftT d tc) = (timeParts ref r tc).map (shiftT d)
  | [], _ => rfl
  | .dur ops ns :: rest, tc => by
    simp only [timeParts]
    rw [← timeParts_shift ref d rest]
    congr 1
    simp only [shiftT, TimeC.mk.injEq, true_and, and_true]
    omega
  | .abs ops c :: rest, tc => by
    simp only [timeParts]
    rw [← timeParts_shift ref d rest]
    congr 1
    simp only [shiftT, TimeC.mk.injEq, true_and, and_true]
    grind
  | .var ops v :: rest, tc => by
    simp only [timeParts, shiftT_sum]
    cases timeAddVar tc.sum v.sub v.name (opsFactor ops) with
    | ok sum => exact timeParts_shift ref d rest { sum := sum, dur := tc.dur, rtf := tc.rtf }
    | err m => rfl
    | panic s => rfl
    | diverged s => rfl

theorem shiftT_z (d : Int) : shiftT d { sum := [], dur := 0, rtf := 0 } = { sum := [], dur := 0, rtf := 0 } := by
  simp [shiftT]

/-- the shift on the result of `timeBounds` -/
def shiftB (d : Int) (b : TimeC × TimeC × Bool × Bool) : TimeC × TimeC × Bool × Bool :=
  (shiftT d b.1, shiftT d b.2.1, b.2.2.1, b.2.2.2)

theorem timeBounds_shift (ref d : Int) (ranges : List (List TimePart)) :
    timeBounds (ref + d) ranges = (timeBounds ref ranges).map (shiftB d) := by
  have hz := fun r => timeParts_shift ref d r { sum := [], dur := 0, rtf := 0 }
  simp only [shiftT_z] at hz
  match ranges with
  | [] => simp [timeBounds, shiftB, shiftT_z]
  | [r] =>
    simp only [timeBounds, hz]
    cases timeParts ref r _ <;> simp [shiftB]
  | [r0, r1] =>
    simp only [timeBounds, hz]
    cases timeParts ref r0 _ <;> simp only [Outcome.map_ok, Outcome.map_err, Outcome.map_panic, Outcome.map_diverged]
    cases timeParts ref r1 _ <;> simp [shiftB]
  | _ :: _ :: _ :: _ => simp [timeBounds]

theorem timeOwn_shift (t : Term) (tci : Nat) (d : Int) (tc : TimeC) :
    timeOwn t tci (shiftT d tc) = (timeOwn t tci tc).map (shiftT d) := by
  unfold timeOwn
  simp only [shiftT_sum]
  split <;> rfl

theorem neg_shift (d : Int) (tc : TimeC) : TimeC.neg (shiftT d tc) = shiftT d (TimeC.neg tc) := by
  simp only [TimeC.neg, shiftT, TimeC.mk.injEq, true_and, and_true]
  grind

theorem trTimeEntry_shift (t : Term) (ref d : Int) (ranges : List (List TimePart)) :
    trTimeEntry t (ref + d) ranges = (trTimeEntry t ref ranges).map (shiftJ d) := by
  unfold trTimeEntry
  rw [timeBounds_shift]
  cases timeBounds ref ranges with
  | ok b =>
    simp only [Outcome.map_ok, shiftB, timeOwn_shift]
    cases timeOwn t 0 b.1 with
    | ok lo =>
      simp only [Outcome.map_ok]
      cases timeOwn t 1 b.2.1 with
      | ok hi =>
        simp only [Outcome.map_ok, neg_shift]
        cases b.2.2.1 <;> cases b.2.2.2 <;> rfl
      | err m => rfl
      | panic s => rfl
      | diverged s => rfl
    | err m => rfl
    | panic s => rfl
    | diverged s => rfl
  | err m => rfl
  | panic s => rfl
  | diverged s => rfl

theorem trTimes_shift (t : Term) (ref d : Int) (l : List (List (List TimePart))) :
    trTimes t (ref + d) l = (trTimes t ref l).map (shiftS d) :=
  mapOutcome_map _ _ _ l (fun e _ => trTimeEntry_shift t ref d e)

theorem nilIfEmpty_shift (d : Int) (cs : CSet) : nilIfEmpty (shiftS d cs) = shiftG d (nilIfEmpty cs) := by
  unfold nilIfEmpty
  by_cases h : cs = []
  · subst h; rfl
  · rw [if_neg h, if_neg (fun h' => h ((shiftS_eq_nil d cs).mp h'))]; rfl

theorem liftSet_shift (d : Int) (o : Outcome CSet) :
    liftSet (o.map (shiftS d)) = (liftSet o).map (shiftG d) := by
  cases o <;> simp [liftSet, nilIfEmpty_shift]

/-! ### the other term kinds produce no time condition -/

theorem noTime_append {a b : CSet} (ha : NoTime a) (hb : NoTime b) : NoTime (a ++ b) := by
  intro c hc
  rcases List.mem_append.mp hc with hc | hc
  · exact ha c hc
  · exact hb c hc

theorem noTime_invert_flag (f : FlagC) : NoTime (Cond.invert (.flag f)) := by
  intro c hc tc htc
  simp only [Cond.invert, List.mem_singleton] at hc
  subst hc
  obtain ⟨v, _, hv⟩ := List.mem_map.mp htc
  cases hv

theorem trTags_noTime (t : Term) (names : List String) : NoTime (trTags t names) := by
  intro c hc tc htc
  obtain ⟨v, _, rfl⟩ := List.mem_map.mp hc
  simp at htc

theorem trData_noTime (t : Term) (content : String) (vars : List DataVar) : NoTime (trData t content vars) := by
  intro c hc tc htc
  obtain ⟨v, _, rfl⟩ := List.mem_map.mp hc
  simp at htc

theorem trProtos_noTime (t : Term) : ∀ (l : List ProtoEntry) (cs : CSet), trProtos t l = .ok cs → NoTime cs
  | [], cs, h => by
    simp only [trProtos, Outcome.ok.injEq] at h
    subst h
    intro c hc; cases hc
  | .var v :: rest, cs, h => by
    simp only [trProtos] at h
    split at h
    · cases h
    · split at h
      · rename_i tl htl
        have ih := trProtos_noTime t rest tl htl
        split at h
        · simp only [Outcome.ok.injEq] at h
          subst h
          exact noTime_append (noTime_invert_flag _) ih
        · simp only [Outcome.ok.injEq] at h
          subst h
          intro c hc tc htc
          rcases List.mem_cons.mp hc with rfl | hc
          · cases htc
          · exact ih c hc tc htc
      · rename_i o hne
        exact (hne cs h).elim
  | .token tok :: rest, cs, h => by
    simp only [trProtos] at h
    split at h
    · cases h
    · split at h
      · rename_i tl htl
        simp only [Outcome.ok.injEq] at h
        subst h
        exact noTime_append (noTime_invert_flag _) (trProtos_noTime t rest tl htl)
      · rename_i o hne
        exact (hne cs h).elim

theorem trHostEntry_noTime (t : Term) (server : Bool) (e : HostEntry) (conj : Conj)
    (h : trHostEntry t server e = .ok conj) : NoTimeJ conj := by
  intro tc htc
  unfold trHostEntry at h
  split at h
  · split at h
    · simp only [Outcome.ok.injEq] at h
      subst h; simp at htc
    · split at h
      · simp only [Outcome.ok.injEq] at h
        subst h; simp at htc
      · split at h
        · simp only [Outcome.ok.injEq] at h
          subst h; simp at htc
        · cases h
  all_goals cases h

theorem trHosts_noTime (t : Term) (l : List HostEntry) (cs : CSet) (h : trHosts t l = .ok cs) : NoTime cs := by
  unfold trHosts at h
  split at h
  · split at h
    · rename_i ll hll
      simp only [Outcome.ok.injEq] at h
      subst h
      intro c hc
      obtain ⟨cs', hcs', hc'⟩ := List.mem_flatten.mp hc
      obtain ⟨server, _, hs⟩ := (TermSound.mapOutcome_ok _ _ _ hll).mem_right cs' hcs'
      obtain ⟨e, _, he⟩ := (TermSound.mapOutcome_ok _ _ _ hs).mem_right c hc'
      exact trHostEntry_noTime t server e c he
    all_goals cases h
  all_goals cases h

theorem numEntryFor_noTime (t : Term) (b : NumC × NumC × Bool × Bool) (ty : NumType) (conj : Conj)
    (h : numEntryFor t b ty = .ok conj) : NoTimeJ conj := by
  intro tc htc
  unfold numEntryFor at h
  split at h
  · split at h
    · simp only [Outcome.ok.injEq] at h
      subst h
      rcases List.mem_append.mp htc with htc | htc <;> split at htc <;> simp at htc
    all_goals cases h
  all_goals cases h

theorem trNums_noTime (t : Term) (l : List (List (List NumPart))) (cs : CSet) (h : trNums t l = .ok cs) :
    NoTime cs := by
  unfold trNums at h
  split at h
  · rename_i ll hll
    simp only [Outcome.ok.injEq] at h
    subst h
    intro c hc
    obtain ⟨cs', hcs', hc'⟩ := List.mem_flatten.mp hc
    obtain ⟨e, _, he⟩ := (TermSound.mapOutcome_ok _ _ _ hll).mem_right cs' hcs'
    unfold trNumEntry at he
    split at he
    · rename_i b _
      obtain ⟨ty, _, hty⟩ := (TermSound.mapOutcome_ok _ _ _ he).mem_right c hc'
      exact numEntryFor_noTime t b ty c hty
    all_goals cases he
  all_goals cases h

theorem nilIfEmpty_noTime {cs : CSet} (h : NoTime cs) : NoTime (nilIfEmpty cs).items := by
  unfold nilIfEmpty
  split
  · intro c hc; cases hc
  · exact h

theorem liftSet_noTime {o : Outcome CSet} (h : ∀ cs, o = .ok cs → NoTime cs) (d : Int) :
    (liftSet o).map (shiftG d) = liftSet o := by
  cases o with
  | ok cs =>
    simp only [liftSet, Outcome.map_ok, ← nilIfEmpty_shift, (h cs rfl).shift]
  | err m => rfl
  | panic s => rfl
  | diverged s => rfl

/-- a term that is not a time term is translated without a look at the reference time and
    produces no time condition; a time term commutes with the shift -/
theorem trTerm_shift (ref d : Int) (t : Term) : trTerm (ref + d) t = (trTerm ref t).map (shiftG d) := by
  unfold trTerm
  split
  · rfl
  · split
    · simp only [Outcome.map_ok, ← nilIfEmpty_shift, (trTags_noTime t _).shift]
    · exact (liftSet_noTime (fun cs h => trProtos_noTime t _ cs h) d).symm
    · exact (liftSet_noTime (fun cs h => trHosts_noTime t _ cs h) d).symm
    · exact (liftSet_noTime (fun cs h => trNums_noTime t _ cs h) d).symm
    · rw [trTimes_shift, liftSet_shift]
    · simp only [Outcome.map_ok, ← nilIfEmpty_shift, (trData_noTime t _ _).shift]
    · rfl

/-! ### which time conditions a time term produces -/

theorem timeAddVar_tot : ∀ (l : List TimeSummand) (sub name : String) (f : Int) (r : List TimeSummand),
    timeAddVar l sub name f = .ok r → tot r = tot l + f
  | [], sub, name, f, r, h => by
    simp only [timeAddVar] at h
    split at h
    · cases h; simp
    · split at h
      · cases h; simp
      · cases h
  | s :: rest, sub, name, f, r, h => by
    simp only [timeAddVar] at h
    split at h
    · split at h
      · rename_i r' hr'
        cases h
        simp only [tot_cons, timeAddVar_tot rest sub name f r' hr']
        omega
      · rename_i o hne
        exact (hne r h).elim
    · split at h
      · cases h; simp only [tot_cons]; omega
      · split at h
        · cases h; simp only [tot_cons]; omega
        · cases h

theorem timeParts_facts (ref : Int) : ∀ (r : List TimePart) (tc tc' : TimeC), timeParts ref r tc = .ok tc' →
    tc'.rtf = tc.rtf - partsAbs r ∧ tot tc'.sum = tot tc.sum + partsVar r
  | [], tc, tc', h => by
    simp only [timeParts, Outcome.ok.injEq] at h
    subst h; simp [partsAbs, partsVar]
  | .dur ops ns :: rest, tc, tc', h => by
    simp only [timeParts] at h
    have := timeParts_facts ref rest _ tc' h
    simpa [partsAbs, partsVar] using this
  | .abs ops c :: rest, tc, tc', h => by
    simp only [timeParts] at h
    have := timeParts_facts ref rest _ tc' h
    simp only [partsAbs, partsVar] at this ⊢
    omega
  | .var ops v :: rest, tc, tc', h => by
    simp only [timeParts] at h
    split at h
    · rename_i sum hsum
      have := timeParts_facts ref rest _ tc' h
      have ht := timeAddVar_tot _ _ _ _ sum hsum
      simp only [partsAbs, partsVar] at this ⊢
      omega
    all_goals cases h

theorem timeOwn_rtf (t : Term) (tci : Nat) (tc r : TimeC) (h : timeOwn t tci tc = .ok r) : r.rtf = tc.rtf := by
  unfold timeOwn at h
  simp only at h
  split at h
  · cases h; rfl
  all_goals cases h

theorem ownTimeVal_unit (t : Term) (tci : Nat) : ownTimeVal (fun _ => unitStream) t tci = 1 := by
  unfold ownTimeVal
  simp only [unitStream]
  split
  · rfl
  · split
    · rfl
    · omega

theorem timeOwn_facts (t : Term) (tci : Nat) (tc r : TimeC) (hk : TK tc.sum) (h : timeOwn t tci tc = .ok r) :
    r.rtf = tc.rtf ∧ tot r.sum = tot tc.sum - 1 := by
  refine ⟨timeOwn_rtf t tci tc r h, ?_⟩
  have := (timeOwn_val (fun _ => unitStream) t tci tc r hk h).1
  rw [ownTimeVal_unit] at this
  exact this

theorem neg_facts (tc : TimeC) : (TimeC.neg tc).rtf = -tc.rtf ∧ tot (TimeC.neg tc).sum = - tot tc.sum := by
  refine ⟨?_, timeSumVal_negOne _ _⟩
  simp only [TimeC.neg]; omega

/-- facts about the two bounds `timeBounds` returns: each comes from a non-empty range of the
    entry, or its "empty" flag is set, or the entry has no range at all (then both are zero) -/
theorem timeBounds_facts (ref : Int) (e : List (List TimePart)) (b : TimeC × TimeC × Bool × Bool)
    (h : timeBounds ref e = .ok b) :
    TK b.1.sum ∧ TK b.2.1.sum ∧
    (b.2.2.1 = true ∨ ∃ r, (r ∈ e ∧ r ≠ [] ∨ e = [] ∧ r = []) ∧
      b.1.rtf = -partsAbs r ∧ tot b.1.sum = partsVar r) ∧
    (b.2.2.2 = true ∨ ∃ r, (r ∈ e ∧ r ≠ [] ∨ e = [] ∧ r = []) ∧
      b.2.1.rtf = -partsAbs r ∧ tot b.2.1.sum = partsVar r) := by
  have hspec := fun r tc' h' => timeParts_spec ref (fun _ => unitStream) r { sum := [], dur := 0, rtf := 0 } tc' h'
  have hfacts := fun r tc' h' => timeParts_facts ref r { sum := [], dur := 0, rtf := 0 } tc' h'
  match e, h with
  | [], h =>
    simp only [timeBounds, Outcome.ok.injEq] at h
    subst h
    exact ⟨TK_nil, TK_nil, Or.inr ⟨[], Or.inr ⟨rfl, rfl⟩, by simp [partsAbs], by simp [partsVar]⟩,
      Or.inr ⟨[], Or.inr ⟨rfl, rfl⟩, by simp [partsAbs], by simp [partsVar]⟩⟩
  | [r], h =>
    simp only [timeBounds] at h
    split at h
    · rename_i tc htc
      simp only [Outcome.ok.injEq] at h
      subst h
      have hk := (hspec r tc htc).2 TK_nil
      have hf := hfacts r tc htc
      simp only [tot_nil] at hf
      have hb : r.isEmpty = true ∨ ∃ r', (r' ∈ [r] ∧ r' ≠ [] ∨ [r] = [] ∧ r' = []) ∧
          tc.rtf = -partsAbs r' ∧ tot tc.sum = partsVar r' := by
        cases r with
        | nil => exact Or.inl rfl
        | cons p ps => exact Or.inr ⟨p :: ps, Or.inl ⟨List.mem_singleton.mpr rfl, by simp⟩, by omega, by omega⟩
      exact ⟨hk, hk, hb, hb⟩
    all_goals cases h
  | [r0, r1], h =>
    simp only [timeBounds] at h
    split at h
    · rename_i tc0 htc0
      split at h
      · rename_i tc1 htc1
        simp only [Outcome.ok.injEq] at h
        subst h
        have hf0 := hfacts r0 tc0 htc0
        have hf1 := hfacts r1 tc1 htc1
        simp only [tot_nil] at hf0 hf1
        refine ⟨(hspec r0 tc0 htc0).2 TK_nil, (hspec r1 tc1 htc1).2 TK_nil, ?_, ?_⟩
        · cases r0 with
          | nil => exact Or.inl rfl
          | cons p ps => exact Or.inr ⟨p :: ps, Or.inl ⟨by simp, by simp⟩, by dsimp only; omega, by dsimp only; omega⟩
        · cases r1 with
          | nil => exact Or.inl rfl
          | cons p ps => exact Or.inr ⟨p :: ps, Or.inl ⟨by simp, by simp⟩, by dsimp only; omega, by dsimp only; omega⟩
      all_goals cases h
    all_goals cases h
  | _ :: _ :: _ :: _, h => simp [timeBounds] at h

/-- every time condition of a translated list entry is the lower or the upper bound condition of
    one of its non-empty ranges (of the empty bound when the entry has no range at all) -/
theorem trTimeEntry_bound (t : Term) (ref : Int) (e : List (List TimePart)) (conj : Conj)
    (h : trTimeEntry t ref e = .ok conj) :
    ∀ tc, Cond.time tc ∈ conj → ∃ r, (r ∈ e ∧ r ≠ [] ∨ e = [] ∧ r = []) ∧ BoundOf r tc := by
  unfold trTimeEntry at h
  split at h
  · rename_i b hb
    obtain ⟨k1, k2, f1, f2⟩ := timeBounds_facts ref e b hb
    split at h
    · rename_i lo hlo
      split at h
      · rename_i hi hhi
        simp only [Outcome.ok.injEq] at h
        subst h
        have hl := timeOwn_facts t 0 _ lo k1 hlo
        have hh := timeOwn_facts t 1 _ hi k2 hhi
        have hn := neg_facts lo
        intro tc htc
        rcases List.mem_append.mp htc with htc | htc
        · split at htc
          · cases htc
          · rename_i he
            simp only [List.mem_singleton, Cond.time.injEq] at htc
            subst htc
            rcases f1 with f1 | ⟨r, hr, ha, hv⟩
            · exact absurd f1 he
            · exact ⟨r, hr, Or.inl ⟨by omega, by omega⟩⟩
        · split at htc
          · cases htc
          · rename_i he
            simp only [List.mem_singleton, Cond.time.injEq] at htc
            subst htc
            rcases f2 with f2 | ⟨r, hr, ha, hv⟩
            · exact absurd f2 he
            · exact ⟨r, hr, Or.inr ⟨by omega, by omega⟩⟩
      all_goals cases h
    all_goals cases h
  all_goals cases h

/-- term level: a property of time conditions that holds for all bound conditions of the ranges of
    a time term holds for everything the term translates to -/
theorem trTerm_tp (P : TimeC → Prop) (ref : Int) (t : Term) (cs : CSet)
    (hP : ∀ l, t.value = .times l → ∀ e ∈ l, ∀ r, (r ∈ e ∧ r ≠ [] ∨ e = [] ∧ r = []) → ∀ tc, BoundOf r tc → P tc)
    (h : trTerm ref t = .ok (some cs)) : CSet.TP P cs := by
  unfold trTerm at h
  split at h
  · cases h
  · split at h
    · simp only [Outcome.ok.injEq] at h
      rw [Total.nilIfEmpty_some h]
      exact (trTags_noTime t _).tp P
    · exact (trProtos_noTime t _ cs (Total.liftSet_some h)).tp P
    · exact (trHosts_noTime t _ cs (Total.liftSet_some h)).tp P
    · exact (trNums_noTime t _ cs (Total.liftSet_some h)).tp P
    · rename_i l hl
      have h' := Total.liftSet_some h
      intro c hc tc htc
      obtain ⟨e, he, hce⟩ := (TermSound.mapOutcome_ok _ _ _ h').mem_right c hc
      obtain ⟨r, hr, hb⟩ := trTimeEntry_bound t ref e c hce tc htc
      exact hP l hl e he r hr tc hb
    · simp only [Outcome.ok.injEq] at h
      rw [Total.nilIfEmpty_some h]
      exact (trData_noTime t _ _).tp P
    · cases h

end Shift
end Pk.Query
