/-
  C14 (parser totality):
   * `trTerm` / `translate` / `parse` never end in `.panic` or `.diverged` on grammar-shaped input
     (every list entry of a number/time term has at most two ranges);
   * every number condition produced by the translation of a term has pairwise distinct summand
     keys and no zero factor (`NumC.OK`), so the integer-divide-by-zero site of
     `cleanNumberConditions` (`numNormSite`) is unreachable from the parser.
-/
import Pk.Proofs.Query.TermSound
import Pk.Proofs.Query.CleanNum
import Pk.Proofs.Query.SetLevel

namespace Pk.Query

/-! ### grammar shape -/

/-- participle's grammar gives every list entry one or two ranges -/
def Term.Shaped (t : Term) : Prop :=
  match t.value with
  | .nums l => ∀ e ∈ l, e.length ≤ 2
  | .times l => ∀ e ∈ l, e.length ≤ 2
  | _ => True

/-- every term of the expression is grammar-shaped -/
def Expr.Shaped (e : Expr) : Prop := TermsOf Term.Shaped e

namespace Total

/-- the outcome is a value or a reported error (never a panic or a divergence) -/
def Tot {α : Type} (o : Outcome α) : Prop := (∃ a, o = .ok a) ∨ (∃ m, o = .err m)

theorem tot_ok {α : Type} (a : α) : Tot (Outcome.ok a) := Or.inl ⟨a, rfl⟩
theorem tot_err {α : Type} (m : String) : Tot (Outcome.err m : Outcome α) := Or.inr ⟨m, rfl⟩

/-- case split on a total sub-computation that is the discriminant of a re-wrapping `match` in the
    goal: the `.err` case is closed, the `.ok` case continues with the reduced `match` -/
macro "tot_step " h:term " with " x:ident : tactic =>
  `(tactic| (refine Or.elim $h (fun ⟨$x, hh⟩ => ?_) (fun ⟨mm, hh⟩ => ?_); rotate_left; (rw [hh]; exact tot_err _); rw [hh]; try dsimp only))

theorem mapOutcome_tot {α β : Type} (f : α → Outcome β) : ∀ l : List α, (∀ x ∈ l, Tot (f x)) → Tot (mapOutcome f l)
  | [], _ => tot_ok _
  | x :: xs, h => by
    simp only [mapOutcome]
    tot_step (h x List.mem_cons_self) with y
    
    tot_step (mapOutcome_tot f xs (fun z hz => h z (List.mem_cons_of_mem _ hz))) with ys
    
    exact tot_ok _

theorem liftSet_tot {o : Outcome CSet} (h : Tot o) : Tot (liftSet o) := by
  rcases h with ⟨a, rfl⟩ | ⟨m, rfl⟩
  · exact tot_ok _
  · exact tot_err _

/-! ### protocols -/

theorem trProtos_tot (t : Term) : ∀ l, Tot (trProtos t l)
  | [] => tot_ok _
  | .var v :: rest => by
    simp only [trProtos]
    split
    · exact tot_err _
    · tot_step (trProtos_tot t rest) with tl
      
      split <;> exact tot_ok _
  | .token tok :: rest => by
    simp only [trProtos]
    split
    · exact tot_err _
    · tot_step (trProtos_tot t rest) with tl
      
      exact tot_ok _

/-! ### hosts -/

theorem maskFold_tot : ∀ (ms : List Int) (v4 v6 : List Bool), Tot (maskFold ms v4 v6)
  | [], _, _ => tot_ok _
  | n :: rest, v4, v6 => by
    simp only [maskFold]
    split
    · exact tot_err _
    · split
      · split
        · exact tot_err _
        · exact maskFold_tot rest _ _
      · split
        · split
          · exact tot_err _
          · exact maskFold_tot rest _ _
        · exact maskFold_tot rest _ _

theorem hostMasks_tot (ms : Option (List Int)) : Tot (hostMasks ms) := by
  unfold hostMasks
  split
  · exact tot_ok _
  · rename_i ms
    rcases maskFold_tot ms (List.replicate 32 false) (List.replicate 128 false) with ⟨⟨a, b⟩, h⟩ | ⟨m, h⟩
    · rw [h]; exact tot_ok _
    · rw [h]; exact tot_err _

theorem checkHostEntries_tot : ∀ l, Tot (checkHostEntries l)
  | [] => tot_ok _
  | e :: rest => by
    simp only [checkHostEntries]
    tot_step (hostMasks_tot e.masks) with x_
    
    exact checkHostEntries_tot rest

theorem trHostEntry_tot (t : Term) (server : Bool) (e : HostEntry) : Tot (trHostEntry t server e) := by
  unfold trHostEntry
  rcases hostMasks_tot e.masks with ⟨⟨a, b⟩, h⟩ | ⟨m, h⟩
  · rw [h]
    simp only
    split
    · exact tot_ok _
    · split
      · exact tot_ok _
      · split
        · exact tot_ok _
        · exact tot_err _
  · rw [h]; exact tot_err _

theorem trHosts_tot (t : Term) (l : List HostEntry) : Tot (trHosts t l) := by
  unfold trHosts
  tot_step (checkHostEntries_tot l) with x_
  
  have hm : Tot (mapOutcome (fun server => mapOutcome (trHostEntry t server) l) (hostTypes t.key)) := by
    apply mapOutcome_tot
    intro server _
    apply mapOutcome_tot
    intro e _
    exact trHostEntry_tot t server e
  tot_step hm with ll
  exact tot_ok _

/-! ### numbers -/

theorem numParts_tot : ∀ (r : List NumPart) (nc : NumC), Tot (numParts r nc)
  | [], _ => tot_ok _
  | .num _ _ :: rest, _ => by simp only [numParts]; exact numParts_tot rest _
  | .var _ v :: rest, _ => by
    simp only [numParts]
    split
    · exact tot_err _
    · exact numParts_tot rest _

theorem numBounds_tot (e : List (List NumPart)) (h : e.length ≤ 2) : Tot (numBounds e) := by
  match e, h with
  | [], _ => exact tot_ok _
  | [r], _ =>
    simp only [numBounds]
    tot_step (numParts_tot r { sum := [], n := 0 }) with x_; exact tot_ok _
  | [r0, r1], _ =>
    simp only [numBounds]
    tot_step (numParts_tot r0 { sum := [], n := 0 }) with x_
    
    tot_step (numParts_tot r1 { sum := [], n := 0 }) with x_; exact tot_ok _
  | _ :: _ :: _ :: _, h => simp at h

theorem numOwn_tot (t : Term) (ty : NumType) (nc : NumC) : Tot (numOwn t ty nc) := by
  obtain ⟨r, hr⟩ := numOwn_terminates t ty nc
  rw [hr]; exact tot_ok _

theorem numEntryFor_tot (t : Term) (b : NumC × NumC × Bool × Bool) (ty : NumType) : Tot (numEntryFor t b ty) := by
  unfold numEntryFor
  tot_step (numOwn_tot t ty b.1) with x_
  
  tot_step (numOwn_tot t ty b.2.1) with x_; exact tot_ok _

theorem trNumEntry_tot (t : Term) (e : List (List NumPart)) (h : e.length ≤ 2) : Tot (trNumEntry t e) := by
  unfold trNumEntry
  tot_step (numBounds_tot e h) with b
  
  apply mapOutcome_tot
  intro ty _
  exact numEntryFor_tot t b ty

theorem trNums_tot (t : Term) (l : List (List (List NumPart))) (h : ∀ e ∈ l, e.length ≤ 2) : Tot (trNums t l) := by
  unfold trNums
  have hm : Tot (mapOutcome (trNumEntry t) l) := by
    apply mapOutcome_tot
    intro e he
    exact trNumEntry_tot t e (h e he)
  tot_step hm with ll
  exact tot_ok _

/-! ### times -/

theorem timeAddVar_tot : ∀ (l : List TimeSummand) (sub name : String) (f : Int), Tot (timeAddVar l sub name f)
  | [], _, _, _ => by
    simp only [timeAddVar]
    split
    · exact tot_ok _
    · split
      · exact tot_ok _
      · exact tot_err _
  | s :: rest, sub, name, f => by
    simp only [timeAddVar]
    split
    · tot_step (timeAddVar_tot rest sub name f) with x_; exact tot_ok _
    · split
      · exact tot_ok _
      · split
        · exact tot_ok _
        · exact tot_err _

theorem timeParts_tot (ref : Int) : ∀ (r : List TimePart) (tc : TimeC), Tot (timeParts ref r tc)
  | [], _ => tot_ok _
  | .dur _ _ :: rest, _ => by simp only [timeParts]; exact timeParts_tot ref rest _
  | .abs _ _ :: rest, _ => by simp only [timeParts]; exact timeParts_tot ref rest _
  | .var ops v :: rest, tc => by
    simp only [timeParts]
    tot_step (timeAddVar_tot tc.sum v.sub v.name (opsFactor ops)) with x_
    
    exact timeParts_tot ref rest _

theorem timeBounds_tot (ref : Int) (e : List (List TimePart)) (h : e.length ≤ 2) : Tot (timeBounds ref e) := by
  match e, h with
  | [], _ => exact tot_ok _
  | [r], _ =>
    simp only [timeBounds]
    tot_step (timeParts_tot ref r { sum := [], dur := 0, rtf := 0 }) with x_; exact tot_ok _
  | [r0, r1], _ =>
    simp only [timeBounds]
    tot_step (timeParts_tot ref r0 { sum := [], dur := 0, rtf := 0 }) with x_
    
    tot_step (timeParts_tot ref r1 { sum := [], dur := 0, rtf := 0 }) with x_; exact tot_ok _
  | _ :: _ :: _ :: _, h => simp at h

theorem timeOwn_tot (t : Term) (tci : Nat) (tc : TimeC) : Tot (timeOwn t tci tc) := by
  obtain ⟨r, hr⟩ := timeOwn_terminates t tci tc
  rw [hr]; exact tot_ok _

theorem trTimeEntry_tot (t : Term) (ref : Int) (e : List (List TimePart)) (h : e.length ≤ 2) :
    Tot (trTimeEntry t ref e) := by
  unfold trTimeEntry
  tot_step (timeBounds_tot ref e h) with b
  
  tot_step (timeOwn_tot t 0 b.1) with x_
  
  tot_step (timeOwn_tot t 1 b.2.1) with x_; exact tot_ok _

theorem trTimes_tot (t : Term) (ref : Int) (l : List (List (List TimePart))) (h : ∀ e ∈ l, e.length ≤ 2) :
    Tot (trTimes t ref l) := by
  unfold trTimes
  apply mapOutcome_tot
  intro e he
  exact trTimeEntry_tot t ref e (h e he)

/-! ### terms and expressions -/

theorem trTerm_tot (ref : Int) (t : Term) (h : t.Shaped) : Tot (trTerm ref t) := by
  unfold trTerm
  unfold Term.Shaped at h
  split
  · exact tot_err _
  · split
    · exact tot_ok _
    · exact liftSet_tot (trProtos_tot t _)
    · exact liftSet_tot (trHosts_tot t _)
    · rename_i l hv
      rw [hv] at h
      exact liftSet_tot (trNums_tot t l h)
    · rename_i l hv
      rw [hv] at h
      exact liftSet_tot (trTimes_tot t ref l h)
    · exact tot_ok _
    · exact tot_ok _

theorem translateList_tot (ref : Int) (op : GSet → GSet → GSet) :
    ∀ (es : List Expr), (∀ e ∈ es, Tot (translate ref e)) → ∀ acc, Tot (translateList ref op es acc)
  | [], _, acc => by simp only [translateList]; exact tot_ok _
  | e :: rest, h, acc => by
    simp only [translateList]
    have ih := translateList_tot ref op rest (fun x hx => h x (List.mem_cons_of_mem _ hx))
    rcases h e List.mem_cons_self with ⟨g, hg⟩ | ⟨m, hm⟩
    · rw [hg]
      cases g with
      | none => exact ih acc
      | some cs => exact ih _
    · rw [hm]; exact tot_err _

theorem translate_tot (ref : Int) (e : Expr) (h : e.Shaped) : Tot (translate ref e) := by
  unfold Expr.Shaped at h
  induction e using exprInd with
  | term t =>
    cases h with
    | term ht => simp only [translate]; exact trTerm_tot ref t ht
  | aux => simp only [translate]; exact tot_ok _
  | not e ih =>
    cases h with
    | not he =>
      simp only [translate]
      rcases ih he with ⟨g, hg⟩ | ⟨m, hm⟩
      · rw [hg]
        cases g with
        | none => exact tot_ok _
        | some cs => exact tot_ok _
      · rw [hm]; exact tot_err _
  | grp e ih =>
    cases h with
    | grp he => simp only [translate]; exact ih he
  | and es ih =>
    cases h with
    | and hes => simp only [translate]; exact translateList_tot ref _ es (fun e he => ih e he (hes e he)) _
  | or es ih =>
    cases h with
    | or hes => simp only [translate]; exact translateList_tot ref _ es (fun e he => ih e he (hes e he)) _
  | seq es ih =>
    cases h with
    | seq hes => simp only [translate]; exact translateList_tot ref _ es (fun e he => ih e he (hes e he)) _

end Total

open Total in
/-- the translation of a grammar-shaped term never panics and never diverges (all terms, with
    variables and sub-queries) -/
theorem trTerm_total (ref : Int) (t : Term) (h : t.Shaped) :
    (∃ g, trTerm ref t = .ok g) ∨ (∃ m, trTerm ref t = .err m) := trTerm_tot ref t h

open Total in
theorem translate_total (ref : Int) (e : Expr) (h : e.Shaped) :
    (∃ g, translate ref e = .ok g) ∨ (∃ m, translate ref e = .err m) := translate_tot ref e h

theorem parse_total (ref : Int) (e : Expr) (h : e.Shaped) :
    (∃ p, parse ref e = .ok p) ∨ (∃ m, parse ref e = .err m) := by
  unfold parse
  rcases translate_total ref e h with ⟨g, hg⟩ | ⟨m, hm⟩
  · rw [hg]; exact Or.inl ⟨_, rfl⟩
  · rw [hm]; exact Or.inr ⟨_, rfl⟩

/-! ### the divide-by-zero site of `cleanNumberConditions` is unreachable from the parser

`ownLoop_num_inv` is the loop invariant of the own-variable loop (number instance) over
`(i, sc, l)` with `l = pre ++ post`, `i = pre.length`:
  * the keys of `l` are pairwise distinct and every summand of `pre` has a non-zero factor;
  * either the own summand was not met yet (`sc = len`, no own summand in `pre`) or it was
    (`sc = len - 1`, no own summand in `post`).
The loop leaves with `post = []`. -/

namespace Total

theorem swapRemove_mid {α : Type} (pre : List α) (s : α) (rest : List α) :
    ∃ rest', swapRemove (pre ++ s :: rest) pre.length = pre ++ rest' ∧ rest'.Perm rest := by
  rcases List.eq_nil_or_concat rest with rfl | ⟨L, b, rfl⟩
  · refine ⟨[], ?_, List.Perm.refl _⟩
    simp [swapRemove]
  · refine ⟨b :: L, ?_, ?_⟩
    · rw [List.concat_eq_append]
      have h1 : (pre ++ s :: (L ++ [b])).getLast? = some b := by
        have : pre ++ s :: (L ++ [b]) = (pre ++ s :: L) ++ [b] := by simp
        rw [this, List.getLast?_concat]
      simp only [swapRemove, h1]
      rw [List.set_append_right _ _ (Nat.le_refl _)]
      simp only [Nat.sub_self, List.set_cons_zero]
      have : pre ++ b :: (L ++ [b]) = (pre ++ b :: L) ++ [b] := by simp
      rw [this, List.dropLast_concat]
    · rw [List.concat_eq_append]
      exact (List.perm_append_singleton b L).symm

/-- one iteration of the loop at an index inside the list -/
theorem ownLoop_step {σ : Type} (isOwn : σ → Bool) (dec : σ → σ) (isZero : σ → Bool) (fresh : σ)
    (fuel : Nat) (sc : Int) (pre : List σ) (s : σ) (rest : List σ) (hsc : ¬ ((pre.length : Int) > sc)) :
    ownLoop isOwn dec isZero fresh (fuel + 1) pre.length sc (pre ++ s :: rest) =
      (if isZero (if isOwn s then dec s else s) then
        ownLoop isOwn dec isZero fresh fuel pre.length ((if isOwn s then sc - 1 else sc) - 1)
          (swapRemove (pre ++ (if isOwn s then dec s else s) :: rest) pre.length)
       else ownLoop isOwn dec isZero fresh fuel (pre.length + 1) (if isOwn s then sc - 1 else sc)
          (pre ++ (if isOwn s then dec s else s) :: rest)) := by
  rw [ownLoop]
  simp [hsc]

theorem ownLoop_exit {σ : Type} (isOwn : σ → Bool) (dec : σ → σ) (isZero : σ → Bool) (fresh : σ)
    (fuel i : Nat) (sc : Int) (l r : List σ) (h : (i : Int) > sc)
    (hr : ownLoop isOwn dec isZero fresh fuel i sc l = some r) : r = l := by
  cases fuel with
  | zero => simp [ownLoop] at hr
  | succ n => rw [ownLoop] at hr; simpa [h] using hr.symm

/-! #### the number instance -/

def nOwn (sq0 : String) (ty : NumType) : NumSummand → Bool := fun s => decide (s.sq = sq0 ∧ s.ty = ty)
def nDec : NumSummand → NumSummand := fun s => { s with factor := s.factor - 1 }
def nZero : NumSummand → Bool := fun s => decide (s.factor = 0)
def nFresh (sq0 : String) (ty : NumType) : NumSummand := { sq := sq0, factor := 0, ty := ty }

theorem nOwn_fresh (sq0 : String) (ty : NumType) : nOwn sq0 ty (nFresh sq0 ty) = true := by simp [nOwn, nFresh]
theorem nZero_dec_fresh (sq0 : String) (ty : NumType) : nZero (nDec (nFresh sq0 ty)) = false := by
  simp [nZero, nDec, nFresh]
theorem nZero_false {s : NumSummand} (h : ¬ nZero s = true) : s.factor ≠ 0 := by simpa [nZero] using h
theorem nOwn_iff {sq0 : String} {ty : NumType} {s : NumSummand} :
    nOwn sq0 ty s = true ↔ s.sq = sq0 ∧ s.ty = ty := by simp [nOwn]

/-- pairwise distinct (sq, ty) keys -/
def KN (l : List NumSummand) : Prop := (l.map (fun s => (s.sq, s.ty))).Nodup

theorem KN_remove {pre rest rest' : List NumSummand} {s : NumSummand} (h : KN (pre ++ s :: rest))
    (hp : rest'.Perm rest) : KN (pre ++ rest') := by
  have h1 : (pre ++ rest').Perm (pre ++ rest) := List.Perm.append_left pre hp
  have h2 : List.Sublist (pre ++ rest) (pre ++ s :: rest) :=
    List.Sublist.append_left (List.sublist_cons_self s rest) pre
  exact ((h1.map _).nodup_iff).mpr (List.Nodup.sublist (h2.map _) h)

theorem KN_replace {pre rest : List NumSummand} {s s' : NumSummand} (h : KN (pre ++ s :: rest))
    (hk : s'.sq = s.sq ∧ s'.ty = s.ty) : KN ((pre ++ [s']) ++ rest) := by
  unfold KN at h ⊢
  simpa [hk.1, hk.2] using h

theorem KN_own_rest {sq0 : String} {ty : NumType} {pre rest : List NumSummand} {s : NumSummand}
    (h : KN (pre ++ s :: rest)) (hs : nOwn sq0 ty s = true) : ∀ x ∈ rest, nOwn sq0 ty x = false := by
  intro x hx
  unfold KN at h
  rw [List.map_append, List.map_cons] at h
  have h2 := (List.nodup_cons.mp (List.nodup_append.mp h).2.1).1
  have hs' := nOwn_iff.mp hs
  cases hxo : nOwn sq0 ty x with
  | false => rfl
  | true =>
    have hxo' := nOwn_iff.mp hxo
    exfalso
    apply h2
    rw [hs'.1, hs'.2, ← hxo'.1, ← hxo'.2]
    exact List.mem_map.mpr ⟨x, hx, rfl⟩

theorem KN_append_fresh {sq0 : String} {ty : NumType} {pre : List NumSummand} (h : KN pre)
    (hno : ∀ s ∈ pre, nOwn sq0 ty s = false) : KN (pre ++ [nDec (nFresh sq0 ty)]) := by
  unfold KN at h ⊢
  rw [List.map_append]
  refine List.nodup_append.mpr ⟨h, by simp, ?_⟩
  intro a ha b hb heq
  obtain ⟨x, hx, rfl⟩ := List.mem_map.mp ha
  simp only [List.map_cons, List.map_nil, List.mem_singleton] at hb
  subst hb
  have h1 := hno x hx
  have h2 : nOwn sq0 ty x = true := by
    apply nOwn_iff.mpr
    simp only [nDec, nFresh, Prod.mk.injEq] at heq
    exact heq
  rw [h1] at h2
  cases h2

theorem ownLoop_num_inv (sq0 : String) (ty : NumType) : ∀ (fuel : Nat) (pre post : List NumSummand) (sc : Int)
    (r : List NumSummand), KN (pre ++ post) → (∀ s ∈ pre, s.factor ≠ 0) →
    ((sc = ((pre ++ post).length : Int) ∧ ∀ s ∈ pre, nOwn sq0 ty s = false) ∨
     (sc = ((pre ++ post).length : Int) - 1 ∧ ∀ s ∈ post, nOwn sq0 ty s = false)) →
    ownLoop (nOwn sq0 ty) nDec nZero (nFresh sq0 ty) fuel pre.length sc (pre ++ post) = some r → SumOK r := by
  intro fuel
  induction fuel with
  | zero => intro pre post sc r _ _ _ h; simp [ownLoop] at h
  | succ fuel ih =>
    intro pre post sc r hkn hnz hmode h
    cases post with
    | nil =>
      simp only [List.append_nil] at h hkn hmode
      rcases hmode with ⟨hsc, hno⟩ | ⟨hsc, _⟩
      · -- own variable not met: a fresh summand is appended and decremented to -1
        rw [ownLoop] at h
        subst hsc
        simp [nOwn_fresh, nZero_dec_fresh] at h
        have := ownLoop_exit _ _ _ _ _ _ _ _ _ (by omega) h
        subst this
        refine ⟨KN_append_fresh hkn hno, ?_⟩
        intro s hs
        rcases List.mem_append.mp hs with hs | hs
        · exact hnz s hs
        · simp only [List.mem_singleton] at hs
          subst hs
          simp [nDec, nFresh]
      · have := ownLoop_exit _ _ _ _ _ _ _ _ _ (by omega) h
        subst this
        exact ⟨hkn, hnz⟩
    | cons s rest =>
      have hlen : ((pre ++ s :: rest).length : Int) = pre.length + rest.length + 1 := by
        simp; omega
      rw [ownLoop_step _ _ _ _ _ _ _ _ _ (by rcases hmode with ⟨hsc, _⟩ | ⟨hsc, _⟩ <;> omega)] at h
      by_cases hown : nOwn sq0 ty s = true
      · -- the own summand: only possible before it was met
        rcases hmode with ⟨hsc, hno⟩ | ⟨_, hno⟩
        · simp only [hown, if_true] at h
          by_cases hz : nZero (nDec s) = true
          · simp only [hz, if_true] at h
            obtain ⟨rest', hsw, hperm⟩ := swapRemove_mid pre (nDec s) rest
            rw [hsw] at h
            refine ih pre rest' _ r (KN_remove hkn hperm) hnz (Or.inr ⟨?_, ?_⟩) h
            · have := hperm.length_eq
              simp only [List.length_append]
              omega
            · intro x hx
              exact KN_own_rest hkn hown x (hperm.mem_iff.mp hx)
          · simp only [hz] at h
            have e1 : pre ++ nDec s :: rest = (pre ++ [nDec s]) ++ rest := by simp
            have e2 : pre.length + 1 = (pre ++ [nDec s]).length := by simp
            rw [e1, e2] at h
            refine ih (pre ++ [nDec s]) rest _ r (KN_replace hkn ⟨rfl, rfl⟩) ?_ (Or.inr ⟨?_, KN_own_rest hkn hown⟩) h
            · intro x hx
              rcases List.mem_append.mp hx with hx | hx
              · exact hnz x hx
              · simp only [List.mem_singleton] at hx
                subst hx
                exact nZero_false hz
            · simp only [List.length_append, List.length_cons, List.length_nil]
              omega
        · have := hno s List.mem_cons_self
          rw [this] at hown
          cases hown
      · have hown' : nOwn sq0 ty s = false := by
          cases hh : nOwn sq0 ty s with
          | false => rfl
          | true => exact absurd hh hown
        simp only [hown', Bool.false_eq_true, if_false] at h
        by_cases hz : nZero s = true
        · simp only [hz, if_true] at h
          obtain ⟨rest', hsw, hperm⟩ := swapRemove_mid pre s rest
          rw [hsw] at h
          have hl := hperm.length_eq
          refine ih pre rest' _ r (KN_remove hkn hperm) hnz ?_ h
          rcases hmode with ⟨hsc, hno⟩ | ⟨hsc, hno⟩
          · exact Or.inl ⟨by simp only [List.length_append]; omega, hno⟩
          · refine Or.inr ⟨by simp only [List.length_append]; omega, ?_⟩
            intro x hx
            exact hno x (List.mem_cons_of_mem _ (hperm.mem_iff.mp hx))
        · simp only [hz] at h
          have e1 : pre ++ s :: rest = (pre ++ [s]) ++ rest := by simp
          have e2 : pre.length + 1 = (pre ++ [s]).length := by simp
          rw [e1] at h hkn hmode
          rw [e2] at h
          refine ih (pre ++ [s]) rest _ r hkn ?_ ?_ h
          · intro x hx
            rcases List.mem_append.mp hx with hx | hx
            · exact hnz x hx
            · simp only [List.mem_singleton] at hx
              subst hx
              exact nZero_false hz
          · rcases hmode with ⟨hsc, hno⟩ | ⟨hsc, hno⟩
            · refine Or.inl ⟨hsc, ?_⟩
              intro x hx
              rcases List.mem_append.mp hx with hx | hx
              · exact hno x hx
              · simp only [List.mem_singleton] at hx
                subst hx
                exact hown'
            · exact Or.inr ⟨hsc, fun x hx => hno x (List.mem_cons_of_mem _ hx)⟩

theorem KN_nil : KN [] := List.nodup_nil

/-- the own-variable loop of a number term returns distinct keys and no zero factor -/
theorem numOwn_ok (t : Term) (ty : NumType) (nc r : NumC) (hk : KN nc.sum) (h : numOwn t ty nc = .ok r) :
    r.OK := by
  unfold numOwn runOwnLoop at h
  cases hl : ownLoop (fun (s : NumSummand) => decide (s.sq = t.sq ∧ s.ty = ty))
      (fun s => { s with factor := s.factor - 1 }) (fun s => decide (s.factor = 0))
      { sq := t.sq, factor := 0, ty := ty } (2 * nc.sum.length + 3) 0 nc.sum.length nc.sum with
  | none => rw [hl] at h; cases h
  | some l =>
    rw [hl] at h
    simp only [Outcome.ok.injEq] at h
    subst h
    exact ownLoop_num_inv t.sq ty _ [] nc.sum _ l hk (fun _ hs => absurd hs List.not_mem_nil)
      (Or.inl ⟨rfl, fun _ hs => absurd hs List.not_mem_nil⟩) hl

theorem numAddVar_mem (l : List NumSummand) (sub : String) (ty : NumType) (f : Int) :
    ∀ k ∈ (numAddVar l sub ty f).map (fun s => (s.sq, s.ty)), k ∈ l.map (fun s => (s.sq, s.ty)) ∨ k = (sub, ty) := by
  induction l with
  | nil => intro k hk; simp [numAddVar] at hk; exact Or.inr hk
  | cons s rest ih =>
    intro k hk
    simp only [numAddVar] at hk
    split at hk
    · simp only [List.map_cons, List.mem_cons] at hk ⊢
      rcases hk with hk | hk
      · exact Or.inl (Or.inl hk)
      · rcases ih k hk with h | h
        · exact Or.inl (Or.inr h)
        · exact Or.inr h
    · exact Or.inl hk

theorem numAddVar_KN (l : List NumSummand) (sub : String) (ty : NumType) (f : Int) (h : KN l) :
    KN (numAddVar l sub ty f) := by
  induction l with
  | nil => simp [numAddVar, KN]
  | cons s rest ih =>
    unfold KN at h
    rw [List.map_cons] at h
    obtain ⟨h1, h2⟩ := List.nodup_cons.mp h
    simp only [numAddVar]
    split
    · rename_i hne
      unfold KN
      rw [List.map_cons]
      refine List.nodup_cons.mpr ⟨?_, ih h2⟩
      intro hm
      rcases numAddVar_mem rest sub ty f _ hm with hm | hm
      · exact h1 hm
      · simp only [Prod.mk.injEq] at hm
        rcases hne with hne | hne
        · exact hne hm.1
        · exact hne hm.2
    · exact h

theorem numParts_KN : ∀ (r : List NumPart) (nc nc' : NumC), KN nc.sum → numParts r nc = .ok nc' → KN nc'.sum
  | [], nc, nc', hk, h => by
    simp only [numParts, Outcome.ok.injEq] at h
    subst h; exact hk
  | .num _ _ :: rest, nc, nc', hk, h => by
    simp only [numParts] at h
    exact numParts_KN rest _ nc' (by exact hk) h
  | .var ops v :: rest, nc, nc', hk, h => by
    simp only [numParts] at h
    split at h
    · cases h
    · exact numParts_KN rest _ nc' (numAddVar_KN _ _ _ _ hk) h

theorem numBounds_KN (e : List (List NumPart)) (b : NumC × NumC × Bool × Bool) (h : numBounds e = .ok b) :
    KN b.1.sum ∧ KN b.2.1.sum := by
  unfold numBounds at h
  split at h
  · simp only [Outcome.ok.injEq] at h
    subst h; exact ⟨KN_nil, KN_nil⟩
  · split at h
    · rename_i nc hnc
      simp only [Outcome.ok.injEq] at h
      subst h
      exact ⟨numParts_KN _ _ _ KN_nil hnc, numParts_KN _ _ _ KN_nil hnc⟩
    all_goals cases h
  · split at h
    · rename_i nc0 hnc0
      split at h
      · rename_i nc1 hnc1
        simp only [Outcome.ok.injEq] at h
        subst h
        exact ⟨numParts_KN _ _ _ KN_nil hnc0, numParts_KN _ _ _ KN_nil hnc1⟩
      all_goals cases h
    all_goals cases h
  · cases h

theorem neg_ok (nc : NumC) (h : nc.OK) : nc.neg.OK := by
  constructor
  · have : (nc.neg.sum).map (fun s => (s.sq, s.ty)) = nc.sum.map (fun s => (s.sq, s.ty)) := by
      simp only [NumC.neg, List.map_map]; rfl
    rw [this]; exact h.1
  · intro s' hs'
    obtain ⟨s, hs, rfl⟩ := List.mem_map.mp hs'
    have := h.2 s hs
    show s.factor * -1 ≠ 0
    omega

/-- every number condition of the conjunct is parser-shaped -/
def _root_.Pk.Query.Conj.NumOK (c : Conj) : Prop := ∀ nc, Cond.num nc ∈ c → nc.OK

theorem numEntryFor_ok (t : Term) (b : NumC × NumC × Bool × Bool) (ty : NumType) (conj : Conj)
    (h1 : KN b.1.sum) (h2 : KN b.2.1.sum) (h : numEntryFor t b ty = .ok conj) : Conj.NumOK conj := by
  unfold numEntryFor at h
  split at h
  · rename_i lo hlo
    split at h
    · rename_i hi hhi
      simp only [Outcome.ok.injEq] at h
      subst h
      have olo := neg_ok lo (numOwn_ok t ty _ lo h1 hlo)
      have ohi := numOwn_ok t ty _ hi h2 hhi
      intro nc hnc
      rcases List.mem_append.mp hnc with hnc | hnc
      · split at hnc
        · cases hnc
        · simp only [List.mem_singleton, Cond.num.injEq] at hnc
          subst hnc; exact olo
      · split at hnc
        · cases hnc
        · simp only [List.mem_singleton, Cond.num.injEq] at hnc
          subst hnc; exact ohi
    all_goals cases h
  all_goals cases h

theorem trNums_ok (t : Term) (l : List (List (List NumPart))) (cs : CSet) (h : trNums t l = .ok cs) :
    ∀ c ∈ cs, Conj.NumOK c := by
  unfold trNums at h
  split at h
  · rename_i ll hll
    simp only [Outcome.ok.injEq] at h
    subst h
    intro c hc
    obtain ⟨cs', hcs', hc'⟩ := List.mem_flatten.mp hc
    obtain ⟨e, _, he⟩ := (TermSound.mapOutcome_ok _ _ _ hll).mem_right cs' hcs'
    unfold trNumEntry at he
    split at he
    · rename_i b hb
      obtain ⟨ty, _, hty⟩ := (TermSound.mapOutcome_ok _ _ _ he).mem_right c hc'
      exact numEntryFor_ok t b ty c (numBounds_KN e b hb).1 (numBounds_KN e b hb).2 hty
    all_goals cases he
  all_goals cases h

/-! #### the other term kinds produce no number condition -/

def NoNum (cs : CSet) : Prop := ∀ c ∈ cs, ∀ nc, Cond.num nc ∉ c

theorem NoNum.numOK {cs : CSet} (h : NoNum cs) : ∀ c ∈ cs, Conj.NumOK c :=
  fun c hc nc hnc => absurd hnc (h c hc nc)

theorem noNum_append {a b : CSet} (ha : NoNum a) (hb : NoNum b) : NoNum (a ++ b) := by
  intro c hc
  rcases List.mem_append.mp hc with hc | hc
  · exact ha c hc
  · exact hb c hc

theorem noNum_invert_flag (f : FlagC) : NoNum (Cond.invert (.flag f)) := by
  intro c hc nc hnc
  simp only [Cond.invert, List.mem_singleton] at hc
  subst hc
  obtain ⟨v, _, hv⟩ := List.mem_map.mp hnc
  cases hv

theorem trTags_noNum (t : Term) (names : List String) : NoNum (trTags t names) := by
  intro c hc nc hnc
  obtain ⟨v, _, rfl⟩ := List.mem_map.mp hc
  simp at hnc

theorem trData_noNum (t : Term) (content : String) (vars : List DataVar) : NoNum (trData t content vars) := by
  intro c hc nc hnc
  obtain ⟨v, _, rfl⟩ := List.mem_map.mp hc
  simp at hnc

theorem trProtos_noNum (t : Term) : ∀ (l : List ProtoEntry) (cs : CSet), trProtos t l = .ok cs → NoNum cs
  | [], cs, h => by
    simp only [trProtos, Outcome.ok.injEq] at h
    subst h
    intro c hc; cases hc
  | .var v :: rest, cs, h => by
    simp only [trProtos] at h
    split at h
    · cases h
    · split at h
      · rename_i tl htl
        have ih := trProtos_noNum t rest tl htl
        split at h
        · simp only [Outcome.ok.injEq] at h
          subst h
          exact noNum_append (noNum_invert_flag _) ih
        · simp only [Outcome.ok.injEq] at h
          subst h
          intro c hc nc hnc
          rcases List.mem_cons.mp hc with rfl | hc
          · cases hnc
          · exact ih c hc nc hnc
      · rename_i o hne
        exact (hne cs h).elim
  | .token tok :: rest, cs, h => by
    simp only [trProtos] at h
    split at h
    · cases h
    · split at h
      · rename_i tl htl
        simp only [Outcome.ok.injEq] at h
        subst h
        exact noNum_append (noNum_invert_flag _) (trProtos_noNum t rest tl htl)
      · rename_i o hne
        exact (hne cs h).elim

theorem trHostEntry_noNum (t : Term) (server : Bool) (e : HostEntry) (conj : Conj)
    (h : trHostEntry t server e = .ok conj) : ∀ nc, Cond.num nc ∉ conj := by
  intro nc hnc
  unfold trHostEntry at h
  split at h
  · split at h
    · simp only [Outcome.ok.injEq] at h
      subst h; simp at hnc
    · split at h
      · simp only [Outcome.ok.injEq] at h
        subst h; simp at hnc
      · split at h
        · simp only [Outcome.ok.injEq] at h
          subst h; simp at hnc
        · cases h
  all_goals cases h

theorem trHosts_noNum (t : Term) (l : List HostEntry) (cs : CSet) (h : trHosts t l = .ok cs) : NoNum cs := by
  unfold trHosts at h
  split at h
  · split at h
    · rename_i ll hll
      simp only [Outcome.ok.injEq] at h
      subst h
      intro c hc
      obtain ⟨cs', hcs', hc'⟩ := List.mem_flatten.mp hc
      obtain ⟨server, _, hs⟩ := (TermSound.mapOutcome_ok _ _ _ hll).mem_right cs' hcs'
      obtain ⟨e, _, he⟩ := (TermSound.mapOutcome_ok _ _ _ hs).mem_right c hc'
      exact trHostEntry_noNum t server e c he
    all_goals cases h
  all_goals cases h

theorem trTimeEntry_noNum (t : Term) (ref : Int) (e : List (List TimePart)) (conj : Conj)
    (h : trTimeEntry t ref e = .ok conj) : ∀ nc, Cond.num nc ∉ conj := by
  intro nc hnc
  unfold trTimeEntry at h
  split at h
  · split at h
    · split at h
      · simp only [Outcome.ok.injEq] at h
        subst h
        rcases List.mem_append.mp hnc with hnc | hnc <;> split at hnc <;> simp at hnc
      all_goals cases h
    all_goals cases h
  all_goals cases h

theorem trTimes_noNum (t : Term) (ref : Int) (l : List (List (List TimePart))) (cs : CSet)
    (h : trTimes t ref l = .ok cs) : NoNum cs := by
  intro c hc
  obtain ⟨e, _, he⟩ := (TermSound.mapOutcome_ok _ _ _ h).mem_right c hc
  exact trTimeEntry_noNum t ref e c he

theorem nilIfEmpty_some {l cs : CSet} (h : nilIfEmpty l = some cs) : cs = l := by
  unfold nilIfEmpty at h
  split at h
  · cases h
  · exact (Option.some.inj h).symm

theorem liftSet_some {o : Outcome CSet} {cs : CSet} (h : liftSet o = .ok (some cs)) : o = .ok cs := by
  obtain ⟨l, rfl, hl⟩ := TermSound.liftSet_ok h
  rw [nilIfEmpty_some hl.symm]

theorem trTerm_numOK' (ref : Int) (t : Term) (cs : CSet) (h : trTerm ref t = .ok (some cs)) :
    ∀ c ∈ cs, Conj.NumOK c := by
  unfold trTerm at h
  split at h
  · cases h
  · split at h
    · simp only [Outcome.ok.injEq] at h
      rw [nilIfEmpty_some h]
      exact (trTags_noNum t _).numOK
    · exact (trProtos_noNum t _ cs (liftSet_some h)).numOK
    · exact (trHosts_noNum t _ cs (liftSet_some h)).numOK
    · exact trNums_ok t _ cs (liftSet_some h)
    · exact (trTimes_noNum t ref _ cs (liftSet_some h)).numOK
    · simp only [Outcome.ok.injEq] at h
      rw [nilIfEmpty_some h]
      exact (trData_noNum t _ _).numOK
    · cases h

end Total

/-- every number condition the translation of a term produces has pairwise distinct summand keys and
    no zero factor (all terms, with variables and sub-queries) -/
theorem trNums_numOK (ref : Int) (t : Term) (cs : CSet) (h : trTerm ref t = .ok (some cs)) :
    ∀ c ∈ cs, ∀ nc, Cond.num nc ∈ c → nc.OK := Total.trTerm_numOK' ref t cs h

/-- negating a number condition keeps it parser-shaped -/
theorem invert_num_ok (nc : NumC) (h : nc.OK) : ∀ c ∈ Cond.invert (.num nc), ∀ nc', Cond.num nc' ∈ c → nc'.OK := by
  intro c hc nc' hnc'
  simp only [Cond.invert, List.mem_singleton] at hc
  subst hc
  simp only [List.mem_singleton, Cond.num.injEq] at hnc'
  subst hnc'
  constructor
  · have : (nc.sum.map (fun s => ({ s with factor := -s.factor } : NumSummand))).map (fun s => (s.sq, s.ty)) =
        nc.sum.map (fun s => (s.sq, s.ty)) := by
      rw [List.map_map]; rfl
    show ((nc.sum.map (fun s => ({ s with factor := -s.factor } : NumSummand))).map (fun s => (s.sq, s.ty))).Nodup
    rw [this]; exact h.1
  · intro s' hs'
    obtain ⟨s, hs, rfl⟩ := List.mem_map.mp hs'
    have := h.2 s hs
    show -s.factor ≠ 0
    omega

/-- `Conditions.clean` keeps number conditions parser-shaped, and this call does not reach the
    integer-divide-by-zero site of `cleanNumberConditions` -/
theorem conj_clean_numOK (c : Conj) (h : Conj.NumOK c) :
    Conj.NumOK (Conj.clean c) ∧ ∀ nc ∈ c.filterMap Cond.num?, numNormSite nc = false := by
  have hin : ∀ nc ∈ c.filterMap Cond.num?, nc.OK := by
    intro nc hnc
    obtain ⟨x, hx, hxn⟩ := List.mem_filterMap.mp hnc
    cases x <;> simp only [Cond.num?] at hxn <;> try cases hxn
    exact h _ hx
  refine ⟨?_, fun nc hnc => numNormSite_of_ok nc (hin nc hnc)⟩
  unfold Conj.clean
  split
  · intro nc hnc
    simp [impossibleConj] at hnc
  · split
    · rename_i lcs fcs hcs ncs tcs dcs _ _ _ hn _ _
      intro nc hnc
      simp only [List.mem_append, List.mem_map] at hnc
      have : nc ∈ ncs := by
        rcases hnc with ((((⟨x, _, hx⟩ | ⟨x, _, hx⟩) | ⟨x, _, hx⟩) | ⟨x, hx', hx⟩) | ⟨x, _, hx⟩) | ⟨x, _, hx⟩
        all_goals cases hx
        exact hx'
      exact cleanNumber_ok _ hin ncs hn nc this
    · intro nc hnc
      simp [impossibleConj] at hnc

end Pk.Query
