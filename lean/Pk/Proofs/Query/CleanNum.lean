/-
  Soundness of `cleanNumber` (cleanNumberConditions).
-/
import Pk.Proofs.Query.Basic

namespace Pk.Query

/-! ### value of a summand list -/

@[simp] theorem numSumVal_nil (ρ : Env) : numSumVal ρ [] = 0 := rfl

@[simp] theorem numSumVal_cons (ρ : Env) (s : NumSummand) (l : List NumSummand) :
    numSumVal ρ (s :: l) = s.factor * numVar (ρ s.sq) s.ty + numSumVal ρ l := by
  simp [numSumVal]

theorem numSumVal_perm (ρ : Env) {l₁ l₂ : List NumSummand} (h : l₁.Perm l₂) :
    numSumVal ρ l₁ = numSumVal ρ l₂ := by
  induction h with
  | nil => rfl
  | cons x _ ih => simp [ih]
  | swap x y l => simp only [numSumVal_cons]; omega
  | trans _ _ ih1 ih2 => exact ih1.trans ih2

theorem numVar_nonneg (s : Stream) (ty : NumType) : 0 ≤ numVar s ty := by
  unfold numVar
  split <;> (try split) <;> (try split) <;> (try split) <;> (try split) <;> omega

theorem evalNum_eq (c : NumC) (ρ : Env) : evalNum c ρ = decide (0 ≤ c.n + numSumVal ρ c.sum) := rfl

theorem evalNum_congr (a b : NumC) (ρ : Env) (hn : a.n = b.n)
    (hs : numSumVal ρ a.sum = numSumVal ρ b.sum) : evalNum a ρ = evalNum b ρ := by
  simp [evalNum_eq, hn, hs]

/-! ### the merge loop -/

theorem numMerge_val (ρ : Env) (a : NumSummand) (rest : List NumSummand) :
    numSumVal ρ (numMerge a rest) = numSumVal ρ (a :: rest) := by
  induction rest generalizing a with
  | nil => simp [numMerge]
  | cons b rest ih =>
    simp only [numMerge]
    split
    · rename_i h
      rw [ih]
      simp only [numSumVal_cons]
      rw [h.1, h.2, Int.add_mul]; omega
    · split
      · rename_i h0
        rw [ih]; simp [h0]
      · simp only [numSumVal_cons, ih]

/-- after the merge loop only a single remaining summand can have factor 0 -/
theorem numMerge_head (a : NumSummand) (rest : List NumSummand) :
    (∃ s, numMerge a rest = [s]) ∨ ∃ s0 more, numMerge a rest = s0 :: more ∧ s0.factor ≠ 0 := by
  induction rest generalizing a with
  | nil => exact Or.inl ⟨a, rfl⟩
  | cons b rest ih =>
    simp only [numMerge]
    split
    · exact ih _
    · split
      · exact ih _
      · rename_i h0
        exact Or.inr ⟨a, _, rfl, h0⟩

/-! ### the common-factor loop -/

theorem searchDown_spec (old f d : Nat) (hd : d ≠ 0) :
    searchDown old f d ≠ 0 ∧ searchDown old f d ∣ old ∧ searchDown old f d ∣ f := by
  induction d with
  | zero => exact absurd rfl hd
  | succ d ih =>
    cases d with
    | zero => simp [searchDown]
    | succ d =>
      simp only [searchDown]
      split
      · rename_i h
        exact ⟨by omega, Nat.dvd_of_mod_eq_zero h.1, Nat.dvd_of_mod_eq_zero h.2⟩
      · exact ih (by omega)

theorem cfStep_dvd (cf f : Nat) : cfStep cf f ∣ cf ∧ cfStep cf f ∣ f := by
  unfold cfStep
  split
  · rename_i h; exact ⟨Nat.dvd_refl _, Nat.dvd_of_mod_eq_zero h⟩
  · rename_i h1
    split
    · rename_i h; exact ⟨Nat.dvd_of_mod_eq_zero h, Nat.dvd_refl _⟩
    · rename_i h2
      have hcf : cf - 1 ≠ 0 := by
        intro h
        have : cf = 0 ∨ cf = 1 := by omega
        rcases this with h0 | h0
        · subst h0; exact h2 (Nat.zero_mod f)
        · subst h0; exact h1 (Nat.mod_one f)
      exact (searchDown_spec cf f (cf - 1) hcf).2

theorem cfStep_ne_zero (cf f : Nat) (hcf : cf ≠ 0) : cfStep cf f ≠ 0 := by
  unfold cfStep
  split
  · exact hcf
  · rename_i h1
    split
    · rename_i h
      intro hf; subst hf; simp at h; exact hcf h
    · have : cf - 1 ≠ 0 := by
        intro h
        have : cf = 1 := by omega
        subst this; exact h1 (Nat.mod_one f)
      exact (searchDown_spec cf f (cf - 1) this).1

theorem cfLoop_dvd (cf : Nat) (l : List NumSummand) :
    cfLoop cf l ∣ cf ∧ ∀ s ∈ l, cfLoop cf l ∣ iabs s.factor := by
  induction l generalizing cf with
  | nil => simp [cfLoop]
  | cons s rest ih =>
    simp only [cfLoop]
    split
    · rename_i h1
      exact ⟨Nat.one_dvd _, fun _ _ => Nat.one_dvd _⟩
    · have hs := cfStep_dvd cf (iabs s.factor)
      have hi := ih (cfStep cf (iabs s.factor))
      refine ⟨Nat.dvd_trans hi.1 hs.1, ?_⟩
      intro t ht
      rcases List.mem_cons.mp ht with rfl | ht
      · exact Nat.dvd_trans hi.1 hs.2
      · exact hi.2 t ht

theorem cfLoop_ne_zero (cf : Nat) (l : List NumSummand) (hcf : cf ≠ 0) : cfLoop cf l ≠ 0 := by
  induction l generalizing cf with
  | nil => simpa [cfLoop] using hcf
  | cons s rest ih =>
    simp only [cfLoop]
    split
    · omega
    · exact ih _ (cfStep_ne_zero cf _ hcf)

theorem natCast_dvd_of_dvd_iabs (c : Nat) (x : Int) (h : c ∣ iabs x) : (c : Int) ∣ x :=
  Int.dvd_natAbs.mp (Int.natCast_dvd_natCast.mpr h)

/-- the common-factor loop returns a common divisor of all factors (no side condition needed) -/
theorem common_factor_divides (s0 : NumSummand) (more : List NumSummand) :
    ∀ s ∈ s0 :: more, (cfLoop (iabs s0.factor) more : Int) ∣ s.factor := by
  intro s hs
  have h := cfLoop_dvd (iabs s0.factor) more
  rcases List.mem_cons.mp hs with rfl | hs
  · exact natCast_dvd_of_dvd_iabs _ _ h.1
  · exact natCast_dvd_of_dvd_iabs _ _ (h.2 s hs)

/-! ### dividing by a positive common divisor -/

theorem numSumVal_div (ρ : Env) (d : Int) (hd : d ≠ 0) (sum : List NumSummand)
    (h : ∀ s ∈ sum, d ∣ s.factor) :
    numSumVal ρ sum = d * numSumVal ρ (sum.map (fun s => { s with factor := s.factor.tdiv d })) := by
  induction sum with
  | nil => simp
  | cons s rest ih =>
    obtain ⟨k, hk⟩ := h s (List.mem_cons_self)
    have ih' := ih (fun t ht => h t (List.mem_cons_of_mem _ ht))
    simp only [List.map_cons, numSumVal_cons]
    rw [ih', hk, Int.mul_tdiv_cancel_left _ hd, Int.mul_add, Int.mul_assoc]

theorem mul_nonneg_iff_pos (d x : Int) (hd : 0 < d) : 0 ≤ d * x ↔ 0 ≤ x := by
  constructor
  · intro h
    refine Int.not_lt.mp (fun hx => ?_)
    have := Int.mul_neg_of_pos_of_neg hd hx
    omega
  · intro h; exact Int.mul_nonneg (by omega) h

theorem evalNum_div (ρ : Env) (d : Int) (hd : 0 < d) (sum : List NumSummand) (n : Int)
    (hn : d ∣ n) (h : ∀ s ∈ sum, d ∣ s.factor) :
    evalNum { sum := sum.map (fun s => { s with factor := s.factor.tdiv d }), n := n.tdiv d } ρ =
      evalNum { sum := sum, n := n } ρ := by
  have hd0 : d ≠ 0 := by omega
  obtain ⟨k, hk⟩ := hn
  simp only [evalNum_eq]
  rw [numSumVal_div ρ d hd0 sum h, hk, Int.mul_tdiv_cancel_left _ hd0, ← Int.mul_add]
  exact decide_eq_decide.mpr (mul_nonneg_iff_pos d _ hd).symm

/-! ### per-condition normalisation -/

/-- the site predicate of the Go panic `f % commonFactor` with `commonFactor == 0`, for a whole
    condition: after sorting and merging the first summand has factor 0 -/
def numNormSite (nc : NumC) : Bool :=
  match isort numSumLt nc.sum with
  | [] => false
  | a :: rest => numDivZeroSite (numMerge a rest)

/-- the divisor finally used by `numNorm` is a positive common divisor of `cf` and `f` -/
theorem finalDivisor_spec (cf f : Nat) (h0 : cf ≠ 0) (h1 : cf ≠ 1) :
    (if f % cf ≠ 0 then searchDown cf f (cf - 1) else cf) ≠ 0 ∧
    (if f % cf ≠ 0 then searchDown cf f (cf - 1) else cf) ∣ cf ∧
    (if f % cf ≠ 0 then searchDown cf f (cf - 1) else cf) ∣ f := by
  split
  · exact searchDown_spec cf f (cf - 1) (by omega)
  · rename_i hmod
    exact ⟨h0, Nat.dvd_refl _, Nat.dvd_of_mod_eq_zero (by simpa using hmod)⟩

theorem numNorm_sound (nc : NumC) (ρ : Env) : evalNum (numNorm nc) ρ = evalNum nc ρ := by
  have hperm := numSumVal_perm ρ (isort_perm numSumLt nc.sum)
  unfold numNorm
  generalize isort numSumLt nc.sum = srt at hperm
  cases srt with
  | nil => exact evalNum_congr _ _ ρ rfl (by simpa using hperm)
  | cons a rest =>
    have hval := numMerge_val ρ a rest
    simp only []
    generalize numMerge a rest = merged at hval
    cases merged with
    | nil => exact evalNum_congr _ _ ρ rfl (by rw [← hperm, ← hval])
    | cons s0 more =>
      simp only []
      have horig : evalNum { sum := s0 :: more, n := nc.n } ρ = evalNum nc ρ :=
        evalNum_congr _ _ ρ rfl (by rw [← hperm, ← hval])
      split
      · exact horig
      · rename_i hz
        split
        · exact horig
        · rename_i hcf1
          rw [← horig]
          have hcf0 : cfLoop (iabs s0.factor) more ≠ 0 :=
            cfLoop_ne_zero _ _ (by simp [iabs]; exact hz)
          have hdvd := common_factor_divides s0 more
          generalize cfLoop (iabs s0.factor) more = cf at hcf1 hcf0 hdvd
          have hfd := finalDivisor_spec cf (iabs nc.n) hcf0 hcf1
          generalize (if iabs nc.n % cf ≠ 0 then searchDown cf (iabs nc.n) (cf - 1) else cf) = cf' at hfd
          apply evalNum_div ρ (cf' : Int) (by omega)
          · exact natCast_dvd_of_dvd_iabs _ _ hfd.2.2
          · intro s hs
            exact Int.dvd_trans (Int.natCast_dvd_natCast.mpr hfd.2.1) (hdvd s hs)

/-- corollary kept for callers that were written against the earlier, weaker statement -/
theorem numNorm_sound_partial (nc : NumC) (ρ : Env) (_hsite : numNormSite nc = false ∨ 0 ≤ nc.n) :
    evalNum (numNorm nc) ρ = evalNum nc ρ := numNorm_sound nc ρ

/-! ### first loop -/

theorem CleanNum.optAll_map_cons {α : Type} (ev : α → Bool) (x : α) (o : Option (List α)) :
    optAll ev (o.map (x :: ·)) = (ev x && optAll ev o) := by
  cases o <;> simp

open CleanNum in

theorem numFirst_sound (ncs : List NumC) (ρ : Env) :
    optAll (fun c => evalNum c ρ) (numFirst ncs) = ncs.all (fun c => evalNum c ρ) := by
  induction ncs with
  | nil => simp [numFirst]
  | cons nc rest ih =>
    have ih' := ih
    have hn := numNorm_sound nc ρ
    simp only [numFirst, List.all_cons]
    rw [← hn]
    split
    · rename_i hnil
      have hev : evalNum (numNorm nc) ρ = decide (0 ≤ (numNorm nc).n) := by
        simp [evalNum_eq, hnil]
      split
      · rename_i hneg
        have : evalNum (numNorm nc) ρ = false := by rw [hev]; simp; omega
        simp [this]
      · rename_i hneg
        have : evalNum (numNorm nc) ρ = true := by rw [hev]; simp; omega
        simp [this, ih']
    · rw [optAll_map_cons, ih']

/-! ### sortedness: only the *adjacent* relation is needed -/

namespace CleanNum

/-- `R` holds between neighbours -/
def Adj {α : Type} (R : α → α → Prop) : List α → Prop
  | [] => True
  | [_] => True
  | a :: b :: l => R a b ∧ Adj R (b :: l)

theorem adj_tail {α : Type} {R : α → α → Prop} {a : α} {l : List α} (h : Adj R (a :: l)) : Adj R l := by
  cases l with
  | nil => trivial
  | cons b l => exact h.2

theorem adj_insertBy_aux {α : Type} (lt : α → α → Bool) (R : α → α → Prop)
    (h1 : ∀ a b, lt a b = true → R a b) (h2 : ∀ a b, lt a b = false → R b a) (x : α) (ys : List α) :
    ∀ y, R y x → Adj R (y :: ys) → Adj R (y :: insertBy lt x ys) := by
  induction ys with
  | nil => intro y hyx _; exact ⟨hyx, trivial⟩
  | cons z zs ih =>
    intro y hyx hadj
    simp only [insertBy]
    split
    · rename_i hlt
      exact ⟨hadj.1, ih z (h1 z x hlt) hadj.2⟩
    · rename_i hlt
      exact ⟨hyx, h2 z x (by simpa using hlt), hadj.2⟩

theorem adj_insertBy {α : Type} (lt : α → α → Bool) (R : α → α → Prop)
    (h1 : ∀ a b, lt a b = true → R a b) (h2 : ∀ a b, lt a b = false → R b a) (x : α) (l : List α)
    (h : Adj R l) : Adj R (insertBy lt x l) := by
  cases l with
  | nil => trivial
  | cons y ys =>
    simp only [insertBy]
    split
    · rename_i hlt
      exact adj_insertBy_aux lt R h1 h2 x ys y (h1 y x hlt) h
    · rename_i hlt
      exact ⟨h2 y x (by simpa using hlt), h⟩

theorem adj_isort {α : Type} (lt : α → α → Bool) (R : α → α → Prop)
    (h1 : ∀ a b, lt a b = true → R a b) (h2 : ∀ a b, lt a b = false → R b a) (l : List α) :
    Adj R (isort lt l) := by
  induction l with
  | nil => trivial
  | cons x xs ih =>
    have : isort lt (x :: xs) = insertBy lt x (isort lt xs) := rfl
    rw [this]
    exact adj_insertBy lt R h1 h2 x _ ih

theorem lexCmp_refl {α : Type} (cmp : α → α → Ordering) (h : ∀ a, cmp a a = .eq) (l : List α) :
    lexCmp cmp l l = .eq := by
  induction l with
  | nil => rfl
  | cons a as ih => simp [lexCmp, h a, ih]

end CleanNum

open CleanNum

theorem cmpNumSummand_refl (a : NumSummand) : cmpNumSummand a a = .eq := by
  simp [cmpNumSummand]

/-- neighbours relation established by sorting with `numLt` -/
def numAdjR (a b : NumC) : Prop := a.sum = b.sum → a.n ≤ b.n

theorem numLt_adj_true (a b : NumC) (h : numLt a b = true) : numAdjR a b := by
  intro hs
  unfold numLt at h
  rw [hs, lexCmp_refl _ cmpNumSummand_refl] at h
  simp at h
  omega

theorem numLt_adj_false (a b : NumC) (h : numLt a b = false) : numAdjR b a := by
  intro hs
  unfold numLt at h
  rw [hs, lexCmp_refl _ cmpNumSummand_refl] at h
  simp at h
  omega

theorem numDedup_sound (ρ : Env) (a : NumC) (rest : List NumC) (h : Adj numAdjR (a :: rest)) :
    (numDedup a rest).all (fun c => evalNum c ρ) = (a :: rest).all (fun c => evalNum c ρ) := by
  induction rest generalizing a with
  | nil => simp [numDedup]
  | cons b rest ih =>
    simp only [numDedup]
    split
    · rename_i hs
      have hab : a.n ≤ b.n := h.1 hs
      have hadj : Adj numAdjR (a :: rest) := by
        cases rest with
        | nil => trivial
        | cons c rest' =>
          refine ⟨?_, h.2.2⟩
          intro hac
          have := h.2.1 (hs.symm.trans hac)
          omega
      rw [ih a hadj]
      simp only [List.all_cons]
      have : (evalNum a ρ && evalNum b ρ) = evalNum a ρ := by
        simp only [evalNum_eq, ← hs]
        apply Bool.eq_iff_iff.mpr
        simp only [Bool.and_eq_true, decide_eq_true_eq]
        omega
      rw [← Bool.and_assoc, this]
    · simp only [List.all_cons, ih b h.2]

/-! ### the sign rule -/

theorem numSumVal_nonneg (ρ : Env) (sum : List NumSummand)
    (h : sum.all (fun s => decide (¬ s.factor < 0)) = true) : 0 ≤ numSumVal ρ sum := by
  induction sum with
  | nil => simp
  | cons s rest ih =>
    simp only [List.all_cons, Bool.and_eq_true, decide_eq_true_eq] at h
    have h1 := Int.mul_nonneg (Int.not_lt.mp h.1) (numVar_nonneg (ρ s.sq) s.ty)
    have h2 := ih h.2
    simp only [numSumVal_cons]; omega

theorem numSumVal_nonpos (ρ : Env) (sum : List NumSummand)
    (h : sum.all (fun s => decide (¬ s.factor > 0)) = true) : numSumVal ρ sum ≤ 0 := by
  induction sum with
  | nil => simp
  | cons s rest ih =>
    simp only [List.all_cons, Bool.and_eq_true, decide_eq_true_eq] at h
    have h1 := Int.mul_nonpos_of_nonpos_of_nonneg (Int.not_lt.mp h.1) (numVar_nonneg (ρ s.sq) s.ty)
    have h2 := ih h.2
    simp only [numSumVal_cons]; omega

open CleanNum in
theorem numSigns_sound (ρ : Env) (l : List NumC) :
    optAll (fun c => evalNum c ρ) (numSigns l) = l.all (fun c => evalNum c ρ) := by
  induction l with
  | nil => simp [numSigns]
  | cons nc rest ih =>
    simp only [numSigns, List.all_cons]
    split
    · rename_i hp
      simp only [numAllPositive, Bool.decide_and, Bool.and_eq_true, decide_eq_true_eq] at hp
      have := numSumVal_nonneg ρ nc.sum (by simpa using hp.2)
      have : evalNum nc ρ = true := by simp [evalNum_eq]; omega
      simp [this, ih]
    · split
      · rename_i hn
        simp only [numAllNegative, Bool.decide_and, Bool.and_eq_true, decide_eq_true_eq] at hn
        have := numSumVal_nonpos ρ nc.sum (by simpa using hn.2)
        have : evalNum nc ρ = false := by simp [evalNum_eq]; omega
        simp [this]
      · rw [optAll_map_cons, ih]

/-! ### main theorem -/

theorem cleanNumber_sound (ncs : List NumC) (ρ : Env) :
    optAll (fun c => evalNum c ρ) (cleanNumber ncs) = ncs.all (fun c => evalNum c ρ) := by
  have hf := numFirst_sound ncs ρ
  unfold cleanNumber
  cases hfirst : numFirst ncs with
  | none => rw [hfirst] at hf; simpa using hf
  | some l =>
    rw [hfirst] at hf
    simp only [optAll_some] at hf
    have hadj := adj_isort numLt numAdjR numLt_adj_true numLt_adj_false l
    have hall := all_isort numLt l (fun c => evalNum c ρ)
    simp only []
    generalize isort numLt l = srt at hadj hall
    cases srt with
    | nil => simp only [optAll_some]; rw [← hf, ← hall]
    | cons a rest =>
      simp only []
      rw [numSigns_sound, numDedup_sound ρ a rest hadj, hall, hf]

/-- corollaries kept for callers written against the earlier, weaker statements -/
theorem cleanNumber_sound_partial (ncs : List NumC) (ρ : Env)
    (_hsite : ∀ nc ∈ ncs, numNormSite nc = false ∨ 0 ≤ nc.n) :
    optAll (fun c => evalNum c ρ) (cleanNumber ncs) = ncs.all (fun c => evalNum c ρ) :=
  cleanNumber_sound ncs ρ

theorem cleanNumber_sound_of_noSite (ncs : List NumC) (ρ : Env)
    (_hsite : ∀ nc ∈ ncs, numNormSite nc = false) :
    optAll (fun c => evalNum c ρ) (cleanNumber ncs) = ncs.all (fun c => evalNum c ρ) :=
  cleanNumber_sound ncs ρ

/-! ### parser-shaped conditions: distinct keys, no zero factor -/

/-- what the parser produces: pairwise distinct (sq, ty) keys and no zero factor -/
def NumC.OK (nc : NumC) : Prop :=
  (nc.sum.map (fun s => (s.sq, s.ty))).Nodup ∧ ∀ s ∈ nc.sum, s.factor ≠ 0

/-- the same property of a bare summand list -/
def SumOK (l : List NumSummand) : Prop :=
  (l.map (fun s => (s.sq, s.ty))).Nodup ∧ ∀ s ∈ l, s.factor ≠ 0

theorem NumC.ok_iff (nc : NumC) : nc.OK ↔ SumOK nc.sum := Iff.rfl

theorem sumOK_nil : SumOK [] := ⟨List.nodup_nil, fun _ h => absurd h List.not_mem_nil⟩

theorem sumOK_perm {l₁ l₂ : List NumSummand} (h : l₁.Perm l₂) (h2 : SumOK l₂) : SumOK l₁ :=
  ⟨((h.map _).nodup_iff).mpr h2.1, fun s hs => h2.2 s (h.mem_iff.mp hs)⟩

theorem sumOK_tail {a : NumSummand} {l : List NumSummand} (h : SumOK (a :: l)) : SumOK l :=
  ⟨(List.nodup_cons.mp h.1).2, fun s hs => h.2 s (List.mem_cons_of_mem _ hs)⟩

/-- with distinct keys and no zero factor the merge loop changes nothing -/
theorem numMerge_of_ok (a : NumSummand) (rest : List NumSummand) (h : SumOK (a :: rest)) :
    numMerge a rest = a :: rest := by
  induction rest generalizing a with
  | nil => rfl
  | cons b rest ih =>
    have hkey : ¬ (a.sq = b.sq ∧ a.ty = b.ty) := by
      intro hk
      have hn := (List.nodup_cons.mp h.1).1
      apply hn
      simp only [List.map_cons, List.mem_cons]
      left; rw [hk.1, hk.2]
    have hf : a.factor ≠ 0 := h.2 a List.mem_cons_self
    simp only [numMerge, hkey, hf, if_false]
    rw [ih b (sumOK_tail h)]

/-- the divide-by-zero site is unreachable for parser-shaped conditions -/
theorem numNormSite_of_ok (nc : NumC) (h : nc.OK) : numNormSite nc = false := by
  have hs : SumOK (isort numSumLt nc.sum) := sumOK_perm (isort_perm numSumLt nc.sum) h
  unfold numNormSite
  generalize isort numSumLt nc.sum = srt at hs
  cases srt with
  | nil => rfl
  | cons a rest =>
    simp only []
    rw [numMerge_of_ok a rest hs]
    simp [numDivZeroSite, hs.2 a List.mem_cons_self]

theorem sumOK_div (l : List NumSummand) (d : Int) (hd : d ≠ 0) (h : SumOK l)
    (hdvd : ∀ s ∈ l, d ∣ s.factor) :
    SumOK (l.map (fun s => { s with factor := s.factor.tdiv d })) := by
  constructor
  · have : (l.map (fun s => ({ s with factor := s.factor.tdiv d } : NumSummand))).map (fun s => (s.sq, s.ty))
        = l.map (fun s => (s.sq, s.ty)) := by
      rw [List.map_map]; rfl
    rw [this]; exact h.1
  · intro s' hs'
    obtain ⟨s, hs, rfl⟩ := List.mem_map.mp hs'
    obtain ⟨k, hk⟩ := hdvd s hs
    have hne := h.2 s hs
    show s.factor.tdiv d ≠ 0
    rw [hk, Int.mul_tdiv_cancel_left _ hd]
    intro hk0
    rw [hk0, Int.mul_zero] at hk
    exact hne hk

theorem numNorm_ok (nc : NumC) (h : nc.OK) : (numNorm nc).OK := by
  have hs : SumOK (isort numSumLt nc.sum) := sumOK_perm (isort_perm numSumLt nc.sum) h
  unfold numNorm
  generalize isort numSumLt nc.sum = srt at hs
  cases srt with
  | nil => exact sumOK_nil
  | cons a rest =>
    simp only []
    rw [numMerge_of_ok a rest hs]
    simp only []
    have hz : a.factor ≠ 0 := hs.2 a List.mem_cons_self
    rw [if_neg hz]
    split
    · exact hs
    · rename_i hcf1
      have hcf0 : cfLoop (iabs a.factor) rest ≠ 0 :=
        cfLoop_ne_zero _ _ (by simp [iabs]; exact hz)
      have hdvd := common_factor_divides a rest
      generalize cfLoop (iabs a.factor) rest = cf at hcf1 hcf0 hdvd
      have hfd := finalDivisor_spec cf (iabs nc.n) hcf0 hcf1
      generalize (if iabs nc.n % cf ≠ 0 then searchDown cf (iabs nc.n) (cf - 1) else cf) = cf' at hfd
      exact sumOK_div (a :: rest) (cf' : Int) (by omega) hs
        (fun s hs' => Int.dvd_trans (Int.natCast_dvd_natCast.mpr hfd.2.1) (hdvd s hs'))

theorem numFirst_mem (ncs r : List NumC) (hr : numFirst ncs = some r) :
    ∀ c ∈ r, ∃ nc ∈ ncs, c = numNorm nc := by
  induction ncs generalizing r with
  | nil =>
    simp [numFirst] at hr; subst hr
    intro c hc; exact absurd hc List.not_mem_nil
  | cons nc rest ih =>
    simp only [numFirst] at hr
    split at hr
    · split at hr
      · exact absurd hr (by simp)
      · intro c hc
        obtain ⟨x, hx, hcx⟩ := ih r hr c hc
        exact ⟨x, List.mem_cons_of_mem _ hx, hcx⟩
    · cases hf : numFirst rest with
      | none => rw [hf] at hr; simp at hr
      | some r' =>
        rw [hf] at hr
        simp at hr; subst hr
        intro c hc
        rcases List.mem_cons.mp hc with rfl | hc
        · exact ⟨nc, List.mem_cons_self, rfl⟩
        · obtain ⟨x, hx, hcx⟩ := ih r' hf c hc
          exact ⟨x, List.mem_cons_of_mem _ hx, hcx⟩

theorem numDedup_mem (a : NumC) (rest : List NumC) : ∀ c ∈ numDedup a rest, c ∈ a :: rest := by
  induction rest generalizing a with
  | nil => intro c hc; simpa [numDedup] using hc
  | cons b rest ih =>
    intro c hc
    simp only [numDedup] at hc
    split at hc
    · rcases List.mem_cons.mp (ih a c hc) with h | h
      · exact h ▸ List.mem_cons_self
      · exact List.mem_cons_of_mem _ (List.mem_cons_of_mem _ h)
    · rcases List.mem_cons.mp hc with h | h
      · exact h ▸ List.mem_cons_self
      · exact List.mem_cons_of_mem _ (ih b c h)

theorem numSigns_mem (l r : List NumC) (hr : numSigns l = some r) : ∀ c ∈ r, c ∈ l := by
  induction l generalizing r with
  | nil =>
    simp [numSigns] at hr; subst hr
    intro c hc; exact absurd hc List.not_mem_nil
  | cons nc rest ih =>
    simp only [numSigns] at hr
    split at hr
    · intro c hc; exact List.mem_cons_of_mem _ (ih r hr c hc)
    · split at hr
      · exact absurd hr (by simp)
      · cases hf : numSigns rest with
        | none => rw [hf] at hr; simp at hr
        | some r' =>
          rw [hf] at hr
          simp at hr; subst hr
          intro c hc
          rcases List.mem_cons.mp hc with rfl | hc
          · exact List.mem_cons_self
          · exact List.mem_cons_of_mem _ (ih r' hf c hc)

/-- every condition of the cleaned list is the normal form of an input condition -/
theorem cleanNumber_mem (ncs r : List NumC) (hr : cleanNumber ncs = some r) :
    ∀ c ∈ r, ∃ nc ∈ ncs, c = numNorm nc := by
  unfold cleanNumber at hr
  cases hfirst : numFirst ncs with
  | none => rw [hfirst] at hr; simp at hr
  | some l =>
    rw [hfirst] at hr
    simp only [] at hr
    have hmem := mem_isort numLt l
    generalize isort numLt l = srt at hr hmem
    cases srt with
    | nil =>
      simp at hr; subst hr
      intro c hc; exact absurd hc List.not_mem_nil
    | cons a rest =>
      simp only [] at hr
      intro c hc
      have h1 := numSigns_mem _ r hr c hc
      have h2 := numDedup_mem a rest c h1
      exact numFirst_mem ncs l hfirst c ((hmem c).mp h2)

theorem cleanNumber_ok (ncs : List NumC) (h : ∀ nc ∈ ncs, nc.OK) (r : List NumC)
    (hr : cleanNumber ncs = some r) : ∀ nc ∈ r, nc.OK := by
  intro c hc
  obtain ⟨nc, hnc, rfl⟩ := cleanNumber_mem ncs r hr c hc
  exact numNorm_ok nc (h nc hnc)

end Pk.Query
