/-
  C14 `dnf_size_bound`: the number of conjuncts (and their width) after translation is bounded by
  an explicit function of the expression: sum over OR, product over AND, exponential only under
  negation.  Relative to the width laws `WidthLaws K F` (proved below for K = 4, F = 4) and to a
  bound for single terms (`TermBound`).
-/
import Pk.Proofs.Query.SetLevel

namespace Pk.Query

/-! ### measures -/

/-- weight of a condition: the number of conjuncts its negation produces (at least 1) -/
def Cond.wt (x : Cond) : Nat := max 1 (Cond.invert x).length
/-- width of a conjunct: the sum of the weights, i.e. a bound for the size of its negation -/
def Conj.wt (c : Conj) : Nat := (c.map Cond.wt).sum

@[simp] theorem Conj.wt_nil : Conj.wt [] = 0 := rfl
@[simp] theorem Conj.wt_cons (x : Cond) (c : Conj) : Conj.wt (x :: c) = Cond.wt x + Conj.wt c := by
  simp [Conj.wt]
@[simp] theorem Conj.wt_append (a b : Conj) : Conj.wt (a ++ b) = Conj.wt a + Conj.wt b := by
  simp [Conj.wt, List.sum_append]

theorem Cond.wt_pos (x : Cond) : 1 ≤ Cond.wt x := by unfold Cond.wt; omega

theorem Conj.wt_mem {x : Cond} {c : Conj} (h : x ∈ c) : Cond.wt x ≤ Conj.wt c := by
  induction c with
  | nil => cases h
  | cons y rest ih =>
    rcases List.mem_cons.mp h with rfl | h
    · simp
    · have := ih h; simp only [Conj.wt_cons]; omega

/-- `K`: blow-up of the width by `Conj.clean`; `F`: width of the negation of a single condition -/
structure WidthLaws (K F : Nat) : Prop where
  clean_wt : ∀ c, Conj.OK c → Conj.wt (Conj.clean c) ≤ K * Conj.wt c + 1
  invert_wt : ∀ x, Cond.OK x → ∀ d ∈ Cond.invert x, Conj.wt d ≤ max F (Cond.wt x)

/-- `cs` has at most `p.1` conjuncts, each of width at most `p.2` -/
def Bd (cs : CSet) (p : Nat × Nat) : Prop := cs.length ≤ p.1 ∧ ∀ c ∈ cs, Conj.wt c ≤ p.2

def orB (p q : Nat × Nat) : Nat × Nat := (p.1 + q.1, max p.2 q.2)
def andB (K : Nat) (p q : Nat × Nat) : Nat × Nat := (p.1 * q.1, K * (p.2 + q.2) + 1)
/-- bound for the negation of one conjunct of width ≤ `w` -/
def invB (F w : Nat) : Nat × Nat := (max 1 w, max F w)
def iterB (f : Nat × Nat → Nat × Nat) : Nat → Nat × Nat → Nat × Nat
  | 0, p => p
  | n + 1, p => iterB f n (f p)
/-- bound for the negation of a set with ≤ `p.1` conjuncts of width ≤ `p.2` -/
def notB (K F : Nat) (p : Nat × Nat) : Nat × Nat :=
  iterB (fun acc => andB K acc (invB F p.2)) p.1 (1, 0)

theorem Bd.mono {cs : CSet} {p q : Nat × Nat} (h : Bd cs p) (h1 : p.1 ≤ q.1) (h2 : p.2 ≤ q.2) :
    Bd cs q :=
  ⟨Nat.le_trans h.1 h1, fun c hc => Nat.le_trans (h.2 c hc) h2⟩

theorem Bd_nil (p : Nat × Nat) : Bd [] p := ⟨Nat.zero_le _, fun c hc => by cases hc⟩

theorem Bd_append {a b : CSet} {p q : Nat × Nat} (ha : Bd a p) (hb : Bd b q) :
    Bd (a ++ b) (orB p q) := by
  constructor
  · simp only [List.length_append, orB]; have := ha.1; have := hb.1; omega
  · intro c hc
    simp only [orB]
    rcases List.mem_append.mp hc with h | h
    · have := ha.2 c h; omega
    · have := hb.2 c h; omega

theorem length_andPairs (a b : CSet) : (CSet.andPairs a b).length = a.length * b.length := by
  induction a with
  | nil => simp [CSet.andPairs]
  | cons x xs ih =>
    unfold CSet.andPairs at ih ⊢
    simp only [List.flatMap_cons, List.length_append, List.length_map, ih, List.length_cons,
      Nat.succ_mul]
    omega

theorem Bd_andPairs {K F : Nat} (W : WidthLaws K F) {a b : CSet} {p q : Nat × Nat}
    (oka : CSet.OK a) (okb : CSet.OK b) (ha : Bd a p) (hb : Bd b q) :
    Bd (CSet.andPairs a b) (andB K p q) := by
  constructor
  · rw [length_andPairs]; exact Nat.mul_le_mul ha.1 hb.1
  · intro c hc
    simp only [CSet.andPairs, List.mem_flatMap, List.mem_map] at hc
    obtain ⟨c1, h1, c2, h2, rfl⟩ := hc
    have := W.clean_wt (c1 ++ c2) (Conj.OK_append.mpr ⟨oka c1 h1, okb c2 h2⟩)
    have h3 := ha.2 c1 h1
    have h4 := hb.2 c2 h2
    simp only [Conj.and, andB]
    rw [Conj.wt_append] at this
    have : K * (Conj.wt c1 + Conj.wt c2) ≤ K * (p.2 + q.2) := Nat.mul_le_mul_left _ (by omega)
    omega

theorem andB_left_le {K : Nat} (hK : 1 ≤ K) (p q : Nat × Nat) (hq : 1 ≤ q.1) :
    p.1 ≤ (andB K p q).1 ∧ p.2 ≤ (andB K p q).2 := by
  simp only [andB]
  constructor
  · exact Nat.le_mul_of_pos_right _ hq
  · have : 1 * (p.2 + q.2) ≤ K * (p.2 + q.2) := Nat.mul_le_mul_right _ hK
    omega

theorem andB_right_le {K : Nat} (hK : 1 ≤ K) (p q : Nat × Nat) (hp : 1 ≤ p.1) :
    q.1 ≤ (andB K p q).1 ∧ q.2 ≤ (andB K p q).2 := by
  simp only [andB]
  constructor
  · exact Nat.le_mul_of_pos_left _ hp
  · have : 1 * (p.2 + q.2) ≤ K * (p.2 + q.2) := Nat.mul_le_mul_right _ hK
    omega

theorem Bd_And {K F : Nat} (W : WidthLaws K F) (hK : 1 ≤ K) {a b : GSet} {p q : Nat × Nat}
    (hp : 1 ≤ p.1) (hq : 1 ≤ q.1)
    (oka : CSet.OK a.items) (okb : CSet.OK b.items) (ha : Bd a.items p) (hb : Bd b.items q) :
    Bd (GSet.And a b).items (andB K p q) := by
  unfold GSet.And
  split
  · exact hb.mono (andB_right_le hK p q hp).1 (andB_right_le hK p q hp).2
  · split
    · exact ha.mono (andB_left_le hK p q hq).1 (andB_left_le hK p q hq).2
    · exact Bd_andPairs W oka okb ha hb

/-! ### negation -/

theorem length_flatMap_invert_le (c : Conj) : (c.flatMap Cond.invert).length ≤ Conj.wt c := by
  induction c with
  | nil => simp
  | cons x rest ih =>
    simp only [List.flatMap_cons, List.length_append, Conj.wt_cons]
    have : (Cond.invert x).length ≤ Cond.wt x := by unfold Cond.wt; omega
    omega

theorem wt_impossibleConj : Conj.wt impossibleConj = 1 := by
  simp [impossibleConj, Cond.wt, Cond.invert]

theorem Bd_conj_invert {K F : Nat} (W : WidthLaws K F) (hF : 1 ≤ F) (c : Conj) (ok : Conj.OK c)
    (w : Nat) (hw : Conj.wt c ≤ w) : Bd (Conj.invert c).items (invB F w) := by
  by_cases hc : c = []
  · subst hc
    simp only [Conj.invert, if_true, GSet.items_some, invB]
    constructor
    · simp only [List.length_cons, List.length_nil]; omega
    · intro d hd
      simp only [List.mem_cons, List.not_mem_nil, or_false] at hd
      subst hd
      rw [wt_impossibleConj]; omega
  · rw [conj_invert_items c hc]
    simp only [invB]
    constructor
    · have := length_flatMap_invert_le c; omega
    · intro d hd
      simp only [List.mem_flatMap] at hd
      obtain ⟨x, hx, hdx⟩ := hd
      have h1 := W.invert_wt x (ok x hx) d hdx
      have h2 := Conj.wt_mem hx
      omega

theorem invB_pos (F w : Nat) : 1 ≤ (invB F w).1 := by simp only [invB]; omega

theorem iterB_ge {K : Nat} (hK : 1 ≤ K) (q : Nat × Nat) (hq : 1 ≤ q.1) (n : Nat) (p : Nat × Nat) :
    p.1 ≤ (iterB (fun acc => andB K acc q) n p).1 ∧ p.2 ≤ (iterB (fun acc => andB K acc q) n p).2 := by
  induction n generalizing p with
  | zero => simp [iterB]
  | succ n ih =>
    simp only [iterB]
    have h1 := andB_left_le hK p q hq
    have h2 := ih (andB K p q)
    omega

theorem iterB_pos {K : Nat} (hK : 1 ≤ K) (q : Nat × Nat) (hq : 1 ≤ q.1) (n : Nat) (p : Nat × Nat)
    (hp : 1 ≤ p.1) : 1 ≤ (iterB (fun acc => andB K acc q) n p).1 :=
  Nat.le_trans hp (iterB_ge hK q hq n p).1

theorem notB_pos {K : Nat} (hK : 1 ≤ K) (F : Nat) (p : Nat × Nat) : 1 ≤ (notB K F p).1 :=
  iterB_pos hK _ (invB_pos F p.2) _ _ (Nat.le_refl 1)

theorem Bd_invert_fold (L : Laws) {K F : Nat} (W : WidthLaws K F) (hK : 1 ≤ K) (hF : 1 ≤ F)
    (w : Nat) (cs : CSet) (ok : CSet.OK cs) (hw : ∀ c ∈ cs, Conj.wt c ≤ w)
    (n : Nat) (hn : cs.length ≤ n) (acc : GSet) (p : Nat × Nat) (hp : 1 ≤ p.1)
    (okacc : CSet.OK acc.items) (hacc : Bd acc.items p) :
    let r := cs.foldl (fun conds cc => GSet.And conds (Conj.invert cc)) acc
    CSet.OK r.items ∧ Bd r.items (iterB (fun a => andB K a (invB F w)) n p) := by
  induction cs generalizing acc p n with
  | nil =>
    simp only [List.foldl_nil]
    have := iterB_ge hK (invB F w) (invB_pos F w) n p
    exact ⟨okacc, hacc.mono this.1 this.2⟩
  | cons c rest ih =>
    have ⟨okc, okr⟩ := CSet.OK_cons.mp ok
    cases n with
    | zero => simp at hn
    | succ n =>
      simp only [List.foldl_cons, iterB]
      have hwc := hw c (by simp)
      have h1 := Bd_And W hK hp (invB_pos F w) okacc (conj_invert_ok L c okc) hacc
        (Bd_conj_invert W hF c okc w hwc)
      have h2 := and_ok L acc (Conj.invert c) okacc (conj_invert_ok L c okc)
      have hp' : 1 ≤ (andB K p (invB F w)).1 :=
        Nat.le_trans hp (andB_left_le hK p _ (invB_pos F w)).1
      exact ih okr (fun c hc => hw c (by simp [hc])) n (by simpa using hn) _ _ hp' h2 h1

theorem Bd_invert (L : Laws) {K F : Nat} (W : WidthLaws K F) (hK : 1 ≤ K) (hF : 1 ≤ F)
    (cs : CSet) (ok : CSet.OK cs) (p : Nat × Nat) (h : Bd cs p) :
    CSet.OK (CSet.invert cs).items ∧ Bd (CSet.invert cs).items (notB K F p) := by
  unfold CSet.invert notB
  exact Bd_invert_fold L W hK hF p.2 cs ok h.2 p.1 h.1 (some []) (1, 0) (Nat.le_refl 1)
    CSet.OK_nil (Bd_nil _)

/-! ### THEN -/

def seqB (p q : Nat × Nat) : Nat × Nat := (p.1 * q.1, p.2 + q.2 + 2 * p.2 * q.2)

theorem seqB_left_le (p q : Nat × Nat) (hq : 1 ≤ q.1) :
    p.1 ≤ (seqB p q).1 ∧ p.2 ≤ (seqB p q).2 := by
  simp only [seqB]
  exact ⟨Nat.le_mul_of_pos_right _ hq, by omega⟩

theorem seqB_right_le (p q : Nat × Nat) (hp : 1 ≤ p.1) :
    q.1 ≤ (seqB p q).1 ∧ q.2 ≤ (seqB p q).2 := by
  simp only [seqB]
  exact ⟨Nat.le_mul_of_pos_left _ hp, by omega⟩

namespace Seq

def nd (c : Conj) : Conj := c.filter (fun x => (Cond.data? x).isNone)
def dd (c : Conj) : List DataC := c.filterMap Cond.data?
def dwt (l : List DataC) : Nat := (l.map (fun d => max 1 d.els.length)).sum

@[simp] theorem dwt_nil : dwt [] = 0 := rfl
@[simp] theorem dwt_cons (d : DataC) (l : List DataC) :
    dwt (d :: l) = max 1 d.els.length + dwt l := by simp [dwt]

theorem wt_data' (c : DataC) : Cond.wt (.data c) = max 1 c.els.length := by
  simp [Cond.wt, Cond.invert]

theorem wt_split (c : Conj) : Conj.wt c = Conj.wt (nd c) + dwt (dd c) := by
  induction c with
  | nil => simp [nd, dd]
  | cons x rest ih =>
    unfold nd dd at ih ⊢
    cases x <;> simp [List.filterMap_cons, Cond.data?, ih, wt_data'] <;> omega

theorem wt_map_data (l : List DataC) : Conj.wt (l.map Cond.data) = dwt l := by
  induction l with
  | nil => simp
  | cons a rest ih => simp only [List.map_cons, Conj.wt_cons, wt_data', ih, dwt_cons]

theorem len_le_dwt (l : List DataC) : l.length ≤ dwt l := by
  induction l with
  | nil => simp
  | cons a rest ih => simp only [List.length_cons, dwt_cons]; omega

theorem inner_wt (adc : DataC) (l : Nat) (bdcs : List DataC) :
    Conj.wt (bdcs.map (fun bdc => Cond.data { els := adc.els.take l ++ bdc.els, inv := bdc.inv }))
      ≤ bdcs.length * max 1 adc.els.length + dwt bdcs := by
  induction bdcs with
  | nil => simp
  | cons b rest ih =>
    simp only [List.map_cons, Conj.wt_cons, wt_data', List.length_append, List.length_take,
      List.length_cons, dwt_cons, Nat.succ_mul]
    omega

/-- the data conditions `Conj.seq` produces for one payload chain of the left operand -/
def row (bdcs : List DataC) (adc : DataC) : Conj :=
  let l := if adc.inv then adc.els.length - 1 else adc.els.length
  (if adc.inv then [Cond.data adc] else []) ++
    bdcs.map (fun bdc => Cond.data { els := adc.els.take l ++ bdc.els, inv := bdc.inv })

theorem row_wt (adc : DataC) (bdcs : List DataC) :
    Conj.wt (row bdcs adc)
      ≤ max 1 adc.els.length + bdcs.length * max 1 adc.els.length + dwt bdcs := by
  unfold row
  cases hinv : adc.inv
  · have := inner_wt adc adc.els.length bdcs
    simp only [Bool.false_eq_true, if_false, List.nil_append]
    omega
  · have := inner_wt adc (adc.els.length - 1) bdcs
    simp only [if_true, Conj.wt_append, Conj.wt_cons, wt_data', Conj.wt_nil]
    omega

theorem outer_wt' (adcs bdcs : List DataC) :
    Conj.wt (adcs.flatMap (row bdcs))
      ≤ dwt adcs + bdcs.length * dwt adcs + adcs.length * dwt bdcs := by
  induction adcs with
  | nil => simp
  | cons a rest ih =>
    have := row_wt a bdcs
    rw [List.flatMap_cons, Conj.wt_append]
    simp only [dwt_cons, List.length_cons, Nat.succ_mul, Nat.mul_add]
    omega

theorem outer_wt (adcs bdcs : List DataC) :
    Conj.wt (adcs.flatMap (fun adc =>
      let l := if adc.inv then adc.els.length - 1 else adc.els.length
      (if adc.inv then [Cond.data adc] else []) ++
        bdcs.map (fun bdc => Cond.data { els := adc.els.take l ++ bdc.els, inv := bdc.inv })))
      ≤ dwt adcs + bdcs.length * dwt adcs + adcs.length * dwt bdcs :=
  outer_wt' adcs bdcs

theorem seq_wt (a b : Conj) :
    Conj.wt (Conj.seq a b) ≤ Conj.wt a + Conj.wt b + 2 * Conj.wt a * Conj.wt b := by
  have ha := wt_split a
  have hb := wt_split b
  unfold nd dd at ha hb
  unfold Conj.seq
  simp only
  split
  · simp only [Conj.wt_append, wt_map_data]
    omega
  · have h1 := outer_wt (a.filterMap Cond.data?) (b.filterMap Cond.data?)
    simp only at h1
    have h2 := len_le_dwt (a.filterMap Cond.data?)
    have h3 := len_le_dwt (b.filterMap Cond.data?)
    have h4 : dwt (a.filterMap Cond.data?) ≤ Conj.wt a := by omega
    have h5 : dwt (b.filterMap Cond.data?) ≤ Conj.wt b := by omega
    have h6 : (b.filterMap Cond.data?).length * dwt (a.filterMap Cond.data?)
        ≤ Conj.wt a * Conj.wt b := by
      rw [Nat.mul_comm]; exact Nat.mul_le_mul h4 (by omega)
    have h7 : (a.filterMap Cond.data?).length * dwt (b.filterMap Cond.data?)
        ≤ Conj.wt a * Conj.wt b := Nat.mul_le_mul (by omega) h5
    simp only [Conj.wt_append]
    have h8 : 2 * Conj.wt a * Conj.wt b = Conj.wt a * Conj.wt b + Conj.wt a * Conj.wt b := by
      rw [Nat.mul_assoc, Nat.two_mul]
    omega

theorem mem_dd {c : Conj} {d : DataC} (h : d ∈ c.filterMap Cond.data?) : Cond.data d ∈ c := by
  simp only [List.mem_filterMap] at h
  obtain ⟨x, hx, hxd⟩ := h
  cases x <;> simp [Cond.data?] at hxd
  subst hxd
  exact hx

theorem seq_ok (a b : Conj) (oka : Conj.OK a) (okb : Conj.OK b) : Conj.OK (Conj.seq a b) := by
  unfold Conj.seq
  simp only
  have hres : Conj.OK (a.filter (fun c => (Cond.data? c).isNone) ++
      b.filter (fun c => (Cond.data? c).isNone)) := by
    intro x hx
    rcases List.mem_append.mp hx with hx | hx
    · exact oka x (List.mem_filter.mp hx).1
    · exact okb x (List.mem_filter.mp hx).1
  have hda : Conj.OK ((a.filterMap Cond.data?).map Cond.data) := by
    intro x hx
    simp only [List.mem_map] at hx
    obtain ⟨d, hd, rfl⟩ := hx
    exact oka _ (mem_dd hd)
  have hdb : Conj.OK ((b.filterMap Cond.data?).map Cond.data) := by
    intro x hx
    simp only [List.mem_map] at hx
    obtain ⟨d, hd, rfl⟩ := hx
    exact okb _ (mem_dd hd)
  split
  · exact Conj.OK_append.mpr ⟨Conj.OK_append.mpr ⟨hres, hda⟩, hdb⟩
  · apply Conj.OK_append.mpr ⟨hres, ?_⟩
    intro x hx
    simp only [List.mem_flatMap, List.mem_append, List.mem_map] at hx
    obtain ⟨adc, hadc, hx | ⟨bdc, hbdc, rfl⟩⟩ := hx
    · split at hx
      · simp only [List.mem_cons, List.not_mem_nil, or_false] at hx
        subst hx
        exact oka _ (mem_dd hadc)
      · cases hx
    · have : (Cond.data bdc).OK := okb _ (mem_dd hbdc)
      show DataC.OK _
      simp only [DataC.OK, Cond.OK] at this ⊢
      simp [this]

end Seq

theorem Bd_seq {a b : GSet} {p q : Nat × Nat} (hp : 1 ≤ p.1) (hq : 1 ≤ q.1)
    (oka : CSet.OK a.items) (okb : CSet.OK b.items) (ha : Bd a.items p) (hb : Bd b.items q) :
    CSet.OK (GSet.seq a b).items ∧ Bd (GSet.seq a b).items (seqB p q) := by
  unfold GSet.seq
  split
  · exact ⟨okb, hb.mono (seqB_right_le p q hp).1 (seqB_right_le p q hp).2⟩
  · split
    · exact ⟨oka, ha.mono (seqB_left_le p q hq).1 (seqB_left_le p q hq).2⟩
    · have hitems : ∀ l : CSet, GSet.items (if l = [] then none else some l) = l := by
        intro l; split <;> simp_all
      simp only [hitems]
      refine ⟨?_, ?_, ?_⟩
      · intro c hc
        simp only [List.mem_flatMap, List.mem_map] at hc
        obtain ⟨c1, h1, c2, h2, rfl⟩ := hc
        exact Seq.seq_ok c1 c2 (oka c1 h1) (okb c2 h2)
      · have : ∀ (x y : CSet), (x.flatMap (fun c1 => y.map (fun c2 => Conj.seq c1 c2))).length
            = x.length * y.length := by
          intro x y
          induction x with
          | nil => simp
          | cons c rest ih =>
            simp only [List.flatMap_cons, List.length_append, List.length_map, ih,
              List.length_cons, Nat.succ_mul]
            omega
        rw [this]
        exact Nat.mul_le_mul ha.1 hb.1
      · intro c hc
        simp only [List.mem_flatMap, List.mem_map] at hc
        obtain ⟨c1, h1, c2, h2, rfl⟩ := hc
        have h3 := ha.2 c1 h1
        have h4 := hb.2 c2 h2
        have h5 := Seq.seq_wt c1 c2
        have h6 : Conj.wt c1 * Conj.wt c2 ≤ p.2 * q.2 := Nat.mul_le_mul h3 h4
        simp only [seqB]
        rw [Nat.mul_assoc] at h5 ⊢
        omega

/-! ### the bound of an expression -/

/-- count at least 1 (so that skipping an operand of AND never breaks the bound) -/
def normB (p : Nat × Nat) : Nat × Nat := (max 1 p.1, p.2)

/-- explicit bound (number of conjuncts, width) for the translation of an expression; `tb` bounds
    single terms.  The accumulator versions mirror `translateList`. -/
def dnfBoundWith (K F : Nat) (tb : Term → Nat × Nat) : Expr → Nat × Nat
  | .term t => normB (tb t)
  | .aux => (1, 0)
  | .not e => notB K F (dnfBoundWith K F tb e)
  | .grp e => dnfBoundWith K F tb e
  | .and es => andAll K F tb es (1, 0)
  | .or es => normB (orAll K F tb es (0, 0))
  | .seq es => seqAll K F tb es (1, 0)
where
  andAll (K F : Nat) (tb : Term → Nat × Nat) : List Expr → Nat × Nat → Nat × Nat
    | [], p => p
    | e :: es, p => andAll K F tb es (andB K p (dnfBoundWith K F tb e))
  orAll (K F : Nat) (tb : Term → Nat × Nat) : List Expr → Nat × Nat → Nat × Nat
    | [], p => p
    | e :: es, p => orAll K F tb es (orB p (dnfBoundWith K F tb e))
  seqAll (K F : Nat) (tb : Term → Nat × Nat) : List Expr → Nat × Nat → Nat × Nat
    | [], p => p
    | e :: es, p => seqAll K F tb es (seqB p (dnfBoundWith K F tb e))

/-- what is assumed about single terms: well-shaped conditions, at most `(tb t).1` conjuncts of
    width at most `(tb t).2` -/
def TermBound (ref : Int) (P : Term → Prop) (tb : Term → Nat × Nat) : Prop :=
  ∀ t cs, P t → trTerm ref t = .ok (some cs) → CSet.OK cs ∧ Bd cs (tb t)

/-- result of a translation step: well-shaped and within the bound `p` -/
def BdG (g : GSet) (p : Nat × Nat) : Prop := CSet.OK g.items ∧ Bd g.items p

theorem BdG_none (p : Nat × Nat) : BdG none p := ⟨CSet.OK_nil, Bd_nil p⟩

theorem andAll_pos {K F : Nat} {tb : Term → Nat × Nat} (es : List Expr)
    (h : ∀ e ∈ es, 1 ≤ (dnfBoundWith K F tb e).1) (p : Nat × Nat) (hp : 1 ≤ p.1) :
    1 ≤ (dnfBoundWith.andAll K F tb es p).1 := by
  induction es generalizing p with
  | nil => simpa [dnfBoundWith.andAll] using hp
  | cons e rest ih =>
    simp only [dnfBoundWith.andAll]
    apply ih (fun e he => h e (by simp [he]))
    simp only [andB]
    exact Nat.mul_pos hp (h e (by simp))

theorem seqAll_pos {K F : Nat} {tb : Term → Nat × Nat} (es : List Expr)
    (h : ∀ e ∈ es, 1 ≤ (dnfBoundWith K F tb e).1) (p : Nat × Nat) (hp : 1 ≤ p.1) :
    1 ≤ (dnfBoundWith.seqAll K F tb es p).1 := by
  induction es generalizing p with
  | nil => simpa [dnfBoundWith.seqAll] using hp
  | cons e rest ih =>
    simp only [dnfBoundWith.seqAll]
    apply ih (fun e he => h e (by simp [he]))
    simp only [seqB]
    exact Nat.mul_pos hp (h e (by simp))

theorem dnfBoundWith_pos {K : Nat} (hK : 1 ≤ K) (F : Nat) (tb : Term → Nat × Nat) (e : Expr) :
    1 ≤ (dnfBoundWith K F tb e).1 := by
  induction e using exprInd with
  | term t => simp only [dnfBoundWith, normB]; omega
  | aux => simp [dnfBoundWith]
  | not _ _ => simp only [dnfBoundWith]; exact notB_pos hK F _
  | grp _ ih => simpa [dnfBoundWith] using ih
  | and _ ih => simp only [dnfBoundWith]; exact andAll_pos _ ih _ (Nat.le_refl 1)
  | or _ _ => simp only [dnfBoundWith, normB]; omega
  | seq _ ih => simp only [dnfBoundWith]; exact seqAll_pos _ ih _ (Nat.le_refl 1)

theorem translateList_and_bd (L : Laws) {K F : Nat} (W : WidthLaws K F) (hK : 1 ≤ K) (ref : Int)
    (tb : Term → Nat × Nat) (es : List Expr)
    (ih : ∀ e ∈ es, ∀ g, translate ref e = .ok g → BdG g (dnfBoundWith K F tb e))
    (acc g : GSet) (p : Nat × Nat) (hp : 1 ≤ p.1) (hacc : BdG acc p)
    (h : translateList ref GSet.And es acc = .ok g) :
    BdG g (dnfBoundWith.andAll K F tb es p) := by
  induction es generalizing acc p with
  | nil =>
    simp only [translateList, Outcome.ok.injEq] at h
    subst h
    simpa [dnfBoundWith.andAll] using hacc
  | cons e rest ihl =>
    have ihr : ∀ e ∈ rest, ∀ g, translate ref e = .ok g → BdG g (dnfBoundWith K F tb e) :=
      fun e he => ih e (by simp [he])
    have hq := dnfBoundWith_pos hK F tb e
    have hp' : 1 ≤ (andB K p (dnfBoundWith K F tb e)).1 := by
      simp only [andB]; exact Nat.mul_pos hp hq
    simp only [translateList] at h
    simp only [dnfBoundWith.andAll]
    cases ht : translate ref e with
    | ok g1 =>
      have hg1 := ih e (by simp) g1 ht
      cases g1 with
      | none =>
        simp only [ht] at h
        have hm := andB_left_le hK p (dnfBoundWith K F tb e) hq
        exact ihl ihr acc _ hp' ⟨hacc.1, hacc.2.mono hm.1 hm.2⟩ h
      | some cs =>
        simp only [ht] at h
        refine ihl ihr _ _ hp' ⟨?_, ?_⟩ h
        · exact and_ok L acc (some cs) hacc.1 hg1.1
        · exact Bd_And W hK hp hq hacc.1 hg1.1 hacc.2 hg1.2
    | err m => simp [ht] at h
    | panic m => simp [ht] at h
    | diverged m => simp [ht] at h

theorem translateList_seq_bd {K : Nat} (hK : 1 ≤ K) {F : Nat} (ref : Int)
    (tb : Term → Nat × Nat) (es : List Expr)
    (ih : ∀ e ∈ es, ∀ g, translate ref e = .ok g → BdG g (dnfBoundWith K F tb e))
    (acc g : GSet) (p : Nat × Nat) (hp : 1 ≤ p.1) (hacc : BdG acc p)
    (h : translateList ref GSet.seq es acc = .ok g) :
    BdG g (dnfBoundWith.seqAll K F tb es p) := by
  induction es generalizing acc p with
  | nil =>
    simp only [translateList, Outcome.ok.injEq] at h
    subst h
    simpa [dnfBoundWith.seqAll] using hacc
  | cons e rest ihl =>
    have ihr : ∀ e ∈ rest, ∀ g, translate ref e = .ok g → BdG g (dnfBoundWith K F tb e) :=
      fun e he => ih e (by simp [he])
    have hq := dnfBoundWith_pos hK F tb e
    have hp' : 1 ≤ (seqB p (dnfBoundWith K F tb e)).1 := by
      simp only [seqB]; exact Nat.mul_pos hp hq
    simp only [translateList] at h
    simp only [dnfBoundWith.seqAll]
    cases ht : translate ref e with
    | ok g1 =>
      have hg1 := ih e (by simp) g1 ht
      cases g1 with
      | none =>
        simp only [ht] at h
        have hm := seqB_left_le p (dnfBoundWith K F tb e) hq
        exact ihl ihr acc _ hp' ⟨hacc.1, hacc.2.mono hm.1 hm.2⟩ h
      | some cs =>
        simp only [ht] at h
        exact ihl ihr _ _ hp' (Bd_seq hp hq hacc.1 hg1.1 hacc.2 hg1.2) h
    | err m => simp [ht] at h
    | panic m => simp [ht] at h
    | diverged m => simp [ht] at h

theorem translateList_or_bd {K F : Nat} (ref : Int) (tb : Term → Nat × Nat) (es : List Expr)
    (ih : ∀ e ∈ es, ∀ g, translate ref e = .ok g → BdG g (dnfBoundWith K F tb e))
    (acc g : GSet) (p : Nat × Nat) (hacc : BdG acc p)
    (h : translateList ref GSet.Or es acc = .ok g) :
    BdG g (dnfBoundWith.orAll K F tb es p) := by
  induction es generalizing acc p with
  | nil =>
    simp only [translateList, Outcome.ok.injEq] at h
    subst h
    simpa [dnfBoundWith.orAll] using hacc
  | cons e rest ihl =>
    have ihr : ∀ e ∈ rest, ∀ g, translate ref e = .ok g → BdG g (dnfBoundWith K F tb e) :=
      fun e he => ih e (by simp [he])
    simp only [translateList] at h
    simp only [dnfBoundWith.orAll]
    cases ht : translate ref e with
    | ok g1 =>
      have hg1 := ih e (by simp) g1 ht
      cases g1 with
      | none =>
        simp only [ht] at h
        refine ihl ihr acc _ ⟨hacc.1, hacc.2.mono ?_ ?_⟩ h
        · simp only [orB]; omega
        · simp only [orB]; omega
      | some cs =>
        simp only [ht] at h
        refine ihl ihr _ _ ⟨?_, ?_⟩ h
        · exact or_ok acc (some cs) hacc.1 hg1.1
        · rw [or_items]; exact Bd_append hacc.2 hg1.2
    | err m => simp [ht] at h
    | panic m => simp [ht] at h
    | diverged m => simp [ht] at h

theorem translate_bd (L : Laws) {K F : Nat} (W : WidthLaws K F) (hK : 1 ≤ K) (hF : 1 ≤ F)
    (ref : Int) (P : Term → Prop) (tb : Term → Nat × Nat) (TB : TermBound ref P tb) (e : Expr) :
    TermsOf P e → ∀ (g : GSet), translate ref e = .ok g → BdG g (dnfBoundWith K F tb e) := by
  induction e using exprInd with
  | term t =>
    intro hp g h
    simp only [translate] at h
    cases g with
    | none => exact BdG_none _
    | some cs =>
      cases hp with | term hpt =>
      have := TB t cs hpt h
      refine ⟨this.1, this.2.mono ?_ ?_⟩ <;> simp only [dnfBoundWith, normB] <;> omega
  | aux =>
    intro hp g h
    simp only [translate, Outcome.ok.injEq] at h
    subst h
    exact BdG_none _
  | not e ih =>
    intro hp g h
    cases hp with | not hpe =>
    simp only [translate] at h
    cases ht : translate ref e with
    | ok g1 =>
      have hg1 := ih hpe g1 ht
      cases g1 with
      | none =>
        simp only [ht, Outcome.ok.injEq] at h
        subst h
        exact BdG_none _
      | some cs =>
        simp only [ht, Outcome.ok.injEq] at h
        subst h
        simp only [dnfBoundWith]
        exact Bd_invert L W hK hF cs hg1.1 _ hg1.2
    | err m => simp [ht] at h
    | panic m => simp [ht] at h
    | diverged m => simp [ht] at h
  | grp e ih =>
    intro hp g h
    cases hp with | grp hpe =>
    simp only [translate] at h
    simpa [dnfBoundWith] using ih hpe g h
  | and es ih =>
    intro hp g h
    cases hp with | and hpe =>
    simp only [translate] at h
    simp only [dnfBoundWith]
    exact translateList_and_bd L W hK ref tb es
      (fun e he g hg => ih e he (hpe e he) g hg) none g (1, 0) (Nat.le_refl 1) (BdG_none _) h
  | or es ih =>
    intro hp g h
    cases hp with | or hpe =>
    simp only [translate] at h
    have := translateList_or_bd (K := K) (F := F) ref tb es
      (fun e he g hg => ih e he (hpe e he) g hg) none g (0, 0) (BdG_none _) h
    refine ⟨this.1, this.2.mono ?_ ?_⟩ <;> simp only [dnfBoundWith, normB] <;> omega
  | seq es ih =>
    intro hp g h
    cases hp with | seq hpe =>
    simp only [translate] at h
    simp only [dnfBoundWith]
    exact translateList_seq_bd hK ref tb es
      (fun e he g hg => ih e he (hpe e he) g hg) none g (1, 0) (Nat.le_refl 1) (BdG_none _) h

/-- C14 `dnf_size_bound`, relative to the width laws and a bound for single terms -/
theorem dnf_size_bound_of_laws (L : Laws) {K F : Nat} (W : WidthLaws K F) (hK : 1 ≤ K) (hF : 1 ≤ F)
    (ref : Int) (P : Term → Prop) (tb : Term → Nat × Nat) (TB : TermBound ref P tb) (e : Expr)
    (hp : TermsOf P e) (cs : CSet) (h : translate ref e = .ok (some cs)) :
    cs.length ≤ (dnfBoundWith K F tb e).1 ∧ ∀ c ∈ cs, Conj.wt c ≤ (dnfBoundWith K F tb e).2 :=
  (translate_bd L W hK hF ref P tb TB e hp (some cs) h).2

namespace Width

theorem map_cons_some {α : Type} {o : Option (List α)} {x : α} {r : List α}
    (h : o.map (x :: ·) = some r) : ∃ r', o = some r' ∧ r = x :: r' := by
  cases o with
  | none => simp at h
  | some r' => simp at h; exact ⟨r', rfl, h.symm⟩

/-! tags -/

theorem tagMerge_len (m : List TagC) (lc : TagC) (m' : List TagC) (h : tagMerge m lc = some m') :
    m'.length ≤ m.length + 1 := by
  induction m generalizing m' with
  | nil => simp [tagMerge] at h; subst h; simp
  | cons e es ih =>
    simp only [tagMerge] at h
    split at h
    · split at h
      · cases h
      · simp only [Option.some.injEq] at h; subst h; simp
    · obtain ⟨r', hr, rfl⟩ := map_cons_some h
      have := ih r' hr
      simp only [List.length_cons]; omega

theorem tagFold_len (m l r : List TagC) (h : tagFold m l = some r) :
    r.length ≤ m.length + l.length := by
  induction l generalizing m with
  | nil => simp [tagFold] at h; subst h; simp
  | cons lc rest ih =>
    simp only [tagFold] at h
    split at h
    · cases h
    · split at h
      · cases h
      · next m' hm =>
        have h1 := tagMerge_len m lc m' hm
        have h2 := ih m' h
        simp only [List.length_cons]; omega

theorem cleanTag_len (l r : List TagC) (h : cleanTag l = some r) : r.length ≤ l.length := by
  unfold cleanTag at h
  cases hf : tagFold [] l with
  | none => simp [hf] at h
  | some m =>
    simp only [hf, Option.map_some, Option.some.injEq] at h
    subst h
    have := tagFold_len [] l m hf
    rw [length_isort]; simpa using this

/-! hosts -/

theorem hostFirst_len (l r : List HostC) (h : hostFirst l = some r) : r.length ≤ l.length := by
  induction l generalizing r with
  | nil => simp [hostFirst] at h; subst h; simp
  | cons x rest ih =>
    simp only [hostFirst] at h
    split at h
    · obtain ⟨r', hr, rfl⟩ := map_cons_some h
      have := ih r' hr
      simp only [List.length_cons]; omega
    · split at h
      · cases h
      · have := ih r h
        simp only [List.length_cons]; omega

theorem hostDedup_len (a : HostC) (l r : List HostC) (h : hostDedup a l = some r) :
    r.length ≤ l.length + 1 := by
  induction l generalizing a r with
  | nil => simp [hostDedup] at h; subst h; simp
  | cons b rest ih =>
    simp only [hostDedup] at h
    split at h
    · split at h
      · cases h
      · have := ih a r h
        simp only [List.length_cons]; omega
    · obtain ⟨r', hr, rfl⟩ := map_cons_some h
      have := ih b r' hr
      simp only [List.length_cons]; omega

theorem cleanHost_len (l r : List HostC) (h : cleanHost l = some r) : r.length ≤ l.length := by
  unfold cleanHost at h
  split at h
  · cases h
  · next l' hl =>
    have h1 := hostFirst_len l l' hl
    have h2 := length_isort hostLt l'
    split at h
    · simp only [Option.some.injEq] at h; subst h; simp
    · next a rest hs =>
      have h3 := hostDedup_len a rest r h
      rw [hs] at h2
      simp only [List.length_cons] at h2
      omega

/-! numbers -/

theorem numFirst_len (l r : List NumC) (h : numFirst l = some r) : r.length ≤ l.length := by
  induction l generalizing r with
  | nil => simp [numFirst] at h; subst h; simp
  | cons x rest ih =>
    simp only [numFirst] at h
    split at h
    · split at h
      · cases h
      · have := ih r h
        simp only [List.length_cons]; omega
    · obtain ⟨r', hr, rfl⟩ := map_cons_some h
      have := ih r' hr
      simp only [List.length_cons]; omega

theorem numDedup_len (a : NumC) (l : List NumC) : (numDedup a l).length ≤ l.length + 1 := by
  induction l generalizing a with
  | nil => simp [numDedup]
  | cons b rest ih =>
    simp only [numDedup]
    split
    · have := ih a; simp only [List.length_cons]; omega
    · have := ih b; simp only [List.length_cons]; omega

theorem numSigns_len (l r : List NumC) (h : numSigns l = some r) : r.length ≤ l.length := by
  induction l generalizing r with
  | nil => simp [numSigns] at h; subst h; simp
  | cons x rest ih =>
    simp only [numSigns] at h
    split at h
    · have := ih r h
      simp only [List.length_cons]; omega
    · split at h
      · cases h
      · obtain ⟨r', hr, rfl⟩ := map_cons_some h
        have := ih r' hr
        simp only [List.length_cons]; omega

theorem cleanNumber_len (l r : List NumC) (h : cleanNumber l = some r) : r.length ≤ l.length := by
  unfold cleanNumber at h
  split at h
  · cases h
  · next l' hl =>
    have h1 := numFirst_len l l' hl
    have h2 := length_isort numLt l'
    split at h
    · simp only [Option.some.injEq] at h; subst h; simp
    · next a rest hs =>
      have h3 := numSigns_len _ r h
      have h4 := numDedup_len a rest
      rw [hs] at h2
      simp only [List.length_cons] at h2
      omega

/-! times -/

theorem timeFirst_len (l r : List TimeC) (h : timeFirst l = some r) : r.length ≤ l.length := by
  induction l generalizing r with
  | nil => simp [timeFirst] at h; subst h; simp
  | cons x rest ih =>
    simp only [timeFirst] at h
    have hdrop : ∀ r, timeFirst rest = some r → r.length ≤ (x :: rest).length := by
      intro r hr; have := ih r hr; simp only [List.length_cons]; omega
    have hkeep : ∀ (y : TimeC) r, (timeFirst rest).map (y :: ·) = some r →
        r.length ≤ (x :: rest).length := by
      intro y r hr
      obtain ⟨r', hr', rfl⟩ := map_cons_some hr
      have := ih r' hr'
      simp only [List.length_cons]; omega
    split at h
    · split at h
      · cases h
      · exact hdrop r h
    · split at h
      · exact hkeep _ r h
      · split at h
        · split at h
          · cases h
          · exact hkeep _ r h
        · split at h
          · exact hdrop r h
          · exact hkeep _ r h
    · exact hkeep _ r h

theorem timeDedup_len (a : TimeC) (l : List TimeC) : (timeDedup a l).length ≤ l.length + 1 := by
  induction l generalizing a with
  | nil => simp [timeDedup]
  | cons b rest ih =>
    simp only [timeDedup]
    split
    · have := ih a; simp only [List.length_cons]; omega
    · have := ih b; simp only [List.length_cons]; omega

theorem cleanTime_len (l r : List TimeC) (h : cleanTime l = some r) : r.length ≤ l.length := by
  unfold cleanTime at h
  split at h
  · cases h
  · next l' hl =>
    have h1 := timeFirst_len l l' hl
    have h2 := length_isort timeLt l'
    split at h
    · simp only [Option.some.injEq] at h; subst h; simp
    · next a rest hs =>
      simp only [Option.some.injEq] at h; subst h
      have h4 := timeDedup_len a rest
      rw [hs] at h2
      simp only [List.length_cons] at h2
      omega

/-! data -/

def dataWt (l : List DataC) : Nat := (l.map (fun d => max 1 d.els.length)).sum

@[simp] theorem dataWt_nil : dataWt [] = 0 := rfl
@[simp] theorem dataWt_cons (d : DataC) (l : List DataC) :
    dataWt (d :: l) = max 1 d.els.length + dataWt l := by simp [dataWt]

theorem dataDedup_wt (a : DataC) (l r : List DataC) (h : dataDedup a l = some r) :
    dataWt r ≤ dataWt (a :: l) := by
  induction l generalizing a r with
  | nil => simp [dataDedup] at h; subst h; simp
  | cons b rest ih =>
    simp only [dataDedup] at h
    split at h
    · split at h
      · cases h
      · split at h
        · cases h
        · have := ih b r h
          simp only [dataWt_cons] at this ⊢; omega
    · obtain ⟨r', hr, rfl⟩ := map_cons_some h
      have := ih b r' hr
      simp only [dataWt_cons] at this ⊢; omega

theorem cleanData_wt (l r : List DataC) (h : cleanData l = some r) : dataWt r ≤ dataWt l := by
  unfold cleanData at h
  have hp : dataWt (isort dataLt l) = dataWt l :=
    List.Perm.sum_nat ((isort_perm dataLt l).map _)
  split at h
  · simp only [Option.some.injEq] at h; subst h; simp
  · next a rest hs =>
    have := dataDedup_wt a rest r h
    rw [hs] at hp
    omega

/-! flags -/

def AllOK (infos : List FlagInfo) : Prop := ∀ i ∈ infos, ∀ fc ∈ i.conds, fc.mask < 4

theorem flagInfoAdd_spec (infos : List FlagInfo) (sqs : List String) (fc : FlagC)
    (h : AllOK infos) (hfc : fc.mask < 4) :
    (flagInfoAdd infos sqs fc).length ≤ infos.length + 1 ∧ AllOK (flagInfoAdd infos sqs fc) := by
  induction infos with
  | nil =>
    simp only [flagInfoAdd, List.length_cons, List.length_nil, Nat.le_refl, true_and]
    intro i hi c hc
    simp only [List.mem_cons, List.not_mem_nil, or_false] at hi
    subst hi
    simp only [List.mem_cons, List.not_mem_nil, or_false] at hc
    subst hc
    exact hfc
  | cons i is ih =>
    have hi : ∀ fc ∈ i.conds, fc.mask < 4 := h i (by simp)
    have his : AllOK is := fun j hj => h j (by simp [hj])
    simp only [flagInfoAdd]
    split
    · refine ⟨by simp, ?_⟩
      intro j hj c hc
      rcases List.mem_cons.mp hj with rfl | hj
      · simp only [List.mem_append, List.mem_cons, List.not_mem_nil, or_false] at hc
        rcases hc with hc | rfl
        · exact hi c hc
        · exact hfc
      · exact his j hj c hc
    · have := ih his
      refine ⟨by simp only [List.length_cons]; omega, ?_⟩
      intro j hj c hc
      rcases List.mem_cons.mp hj with rfl | hj
      · exact hi c hc
      · exact this.2 j hj c hc

theorem flagCollect_spec (l : List FlagC) (infos r : List FlagInfo) (h : AllOK infos)
    (hl : ∀ fc ∈ l, fc.mask < 4) (hr : flagCollect infos l = some r) :
    r.length ≤ infos.length + l.length ∧ AllOK r := by
  induction l generalizing infos with
  | nil => simp [flagCollect] at hr; subst hr; exact ⟨by simp, h⟩
  | cons fc rest ih =>
    have hrest : ∀ fc ∈ rest, fc.mask < 4 := fun c hc => hl c (by simp [hc])
    simp only [flagCollect] at hr
    split at hr
    · split at hr
      · cases hr
      · have := ih infos h hrest hr
        exact ⟨by simp only [List.length_cons]; omega, this.2⟩
    · have h1 := flagInfoAdd_spec infos (cancelPairs (isort (fun a b => decide (a < b)) fc.sqs)) fc h
        (hl fc (by simp))
      have := ih _ h1.2 hrest hr
      exact ⟨by simp only [List.length_cons]; omega, this.2⟩

theorem union_fold_lt (l : List FlagC) (hl : ∀ fc ∈ l, fc.mask < 4) (u : Nat) (hu : u < 4) :
    l.foldl (fun u fc => u ||| (fc.mask % 65536)) u < 4 := by
  induction l generalizing u with
  | nil => simpa using hu
  | cons fc rest ih =>
    simp only [List.foldl_cons]
    apply ih (fun c hc => hl c (by simp [hc]))
    have h1 : fc.mask % 65536 < 2 ^ 2 := by
      have := hl fc (by simp); have := Nat.mod_le fc.mask 65536; omega
    have h2 : u < 2 ^ 2 := by omega
    have := Nat.or_lt_two_pow h2 h1
    omega

theorem mask_fold_lt (l : List Nat) (hl : ∀ b ∈ l, b < 2) (m : Nat) (hm : m < 4) :
    l.foldl (fun m b => m ||| 2 ^ b) m < 4 := by
  induction l generalizing m with
  | nil => simpa using hm
  | cons b rest ih =>
    simp only [List.foldl_cons]
    apply ih (fun c hc => hl c (by simp [hc]))
    have hb := hl b (by simp)
    have h1 : 2 ^ b < 2 ^ 2 := Nat.pow_lt_pow_right (by omega) hb
    have h2 : m < 2 ^ 2 := by omega
    have := Nat.or_lt_two_pow h2 h1
    omega

theorem info_mask_lt (i : FlagInfo) (h : ∀ fc ∈ i.conds, fc.mask < 4) : i.mask < 4 := by
  have hu : i.union < 4 := union_fold_lt i.conds h 0 (by omega)
  unfold FlagInfo.mask
  apply mask_fold_lt _ _ 0 (by omega)
  intro b hb
  simp only [List.mem_filter, Bool.and_eq_true] at hb
  by_cases hb2 : b < 2
  · exact hb2
  · exfalso
    have h1 : i.union < 2 ^ b :=
      Nat.lt_of_lt_of_le (by omega : i.union < 2 ^ 2) (Nat.pow_le_pow_right (by omega) (by omega))
    have := Nat.testBit_lt_two_pow h1
    rw [this] at hb
    exact absurd hb.2.1 (by simp)

theorem subMasksDesc_len (m : Nat) (h : m < 4) : (subMasksDesc m).length ≤ 4 := by
  have : m = 0 ∨ m = 1 ∨ m = 2 ∨ m = 3 := by omega
  rcases this with rfl | rfl | rfl | rfl <;> decide

theorem flagEmit_len (infos : List FlagInfo) (r : List FlagC) (h : AllOK infos)
    (hr : flagEmit infos = some r) : r.length ≤ 4 * infos.length := by
  induction infos generalizing r with
  | nil => simp [flagEmit] at hr; subst hr; simp
  | cons i is ih =>
    have his : AllOK is := fun j hj => h j (by simp [hj])
    simp only [flagEmit] at hr
    split at hr
    · split at hr
      · cases hr
      · have := ih r his hr
        simp only [List.length_cons]; omega
    · cases hrest : flagEmit is with
      | none => simp [hrest] at hr
      | some tl =>
        simp only [hrest, Option.map_some, Option.some.injEq] at hr
        subst hr
        have h1 := ih tl his hrest
        have h2 := subMasksDesc_len i.mask (info_mask_lt i (h i (by simp)))
        have h3 := List.length_filter_le i.forbidden (subMasksDesc i.mask)
        simp only [List.length_append, List.length_map, List.length_cons]
        omega

theorem cleanFlag_len (l r : List FlagC) (hl : ∀ fc ∈ l, fc.mask < 4) (h : cleanFlag l = some r) :
    r.length ≤ 4 * l.length := by
  unfold cleanFlag at h
  split at h
  · cases h
  · next infos hc =>
    have h1 := flagCollect_spec l [] infos (fun i hi => by cases hi) hl hc
    cases he : flagEmit infos with
    | none => simp [he] at h
    | some r' =>
      simp only [he, Option.map_some, Option.some.injEq] at h
      subst h
      have h2 := flagEmit_len infos r' h1.2 he
      rw [length_isort]
      simp only [List.length_nil, Nat.zero_add] at h1
      omega

/-! assembling `Conj.clean` -/

@[simp] theorem wt_tag (c : TagC) : Cond.wt (.tag c) = 1 := by simp [Cond.wt, Cond.invert]
@[simp] theorem wt_flag (c : FlagC) : Cond.wt (.flag c) = 1 := by simp [Cond.wt, Cond.invert]
@[simp] theorem wt_host (c : HostC) : Cond.wt (.host c) = 1 := by simp [Cond.wt, Cond.invert]
@[simp] theorem wt_time (c : TimeC) : Cond.wt (.time c) = 1 := by simp [Cond.wt, Cond.invert]
@[simp] theorem wt_num (c : NumC) : Cond.wt (.num c) = 1 := by simp [Cond.wt, Cond.invert]
@[simp] theorem wt_data (c : DataC) : Cond.wt (.data c) = max 1 c.els.length := by
  simp [Cond.wt, Cond.invert]
@[simp] theorem wt_impossible : Cond.wt .impossible = 1 := by simp [Cond.wt, Cond.invert]

theorem wt_map_one {α : Type} (f : α → Cond) (hf : ∀ a, Cond.wt (f a) = 1) (l : List α) :
    Conj.wt (l.map f) = l.length := by
  induction l with
  | nil => simp
  | cons a rest ih => simp only [List.map_cons, Conj.wt_cons, hf, ih, List.length_cons]; omega

theorem wt_map_data (l : List DataC) : Conj.wt (l.map Cond.data) = dataWt l := by
  induction l with
  | nil => simp
  | cons a rest ih => simp only [List.map_cons, Conj.wt_cons, wt_data, ih, dataWt_cons]

theorem wt_split_le (c : Conj) :
    (c.filterMap Cond.tag?).length + (c.filterMap Cond.flag?).length +
      (c.filterMap Cond.host?).length + (c.filterMap Cond.num?).length +
      (c.filterMap Cond.time?).length + dataWt (c.filterMap Cond.data?) ≤ Conj.wt c := by
  induction c with
  | nil => simp
  | cons x rest ih =>
    cases x <;>
      simp [List.filterMap_cons, Cond.tag?, Cond.flag?, Cond.host?, Cond.num?, Cond.time?,
        Cond.data?] <;> omega

theorem flags_ok (c : Conj) (ok : Conj.OK c) : ∀ fc ∈ c.filterMap Cond.flag?, fc.mask < 4 := by
  intro fc hfc
  simp only [List.mem_filterMap] at hfc
  obtain ⟨x, hx, hxf⟩ := hfc
  cases x <;> simp [Cond.flag?] at hxf
  subst hxf
  exact (ok _ hx).1

theorem clean_wt (c : Conj) (ok : Conj.OK c) : Conj.wt (Conj.clean c) ≤ 4 * Conj.wt c + 1 := by
  unfold Conj.clean
  split
  · rw [wt_impossibleConj]; omega
  · split
    · next lcs fcs hcs ncs tcs dcs h1 h2 h3 h4 h5 h6 =>
      have e1 := cleanTag_len _ _ h1
      have e2 := cleanFlag_len _ _ (flags_ok c ok) h2
      have e3 := cleanHost_len _ _ h3
      have e4 := cleanNumber_len _ _ h4
      have e5 := cleanTime_len _ _ h5
      have e6 := cleanData_wt _ _ h6
      have e7 := wt_split_le c
      simp only [Conj.wt_append, wt_map_one Cond.tag wt_tag, wt_map_one Cond.flag wt_flag,
        wt_map_one Cond.host wt_host, wt_map_one Cond.num wt_num, wt_map_one Cond.time wt_time,
        wt_map_data]
      omega
    · rw [wt_impossibleConj]; omega

/-! negation of a single condition -/

theorem filter_disjoint_len {α : Type} (p q : α → Bool) (l : List α)
    (h : ∀ x, ¬ (p x = true ∧ q x = true)) :
    (l.filter p).length + (l.filter q).length ≤ l.length := by
  induction l with
  | nil => simp
  | cons a rest ih =>
    have := h a
    simp only [List.filter_cons]
    cases hp : p a <;> cases hq : q a <;> simp_all <;> omega

theorem flagInvertValues_len (value mask : Nat) (h : mask < 4) :
    (flagInvertValues value mask).length ≤ 4 := by
  unfold flagInvertValues
  simp only [List.length_append]
  have h1 := filter_disjoint_len (fun x => decide (x < value &&& mask))
    (fun x => decide (x > value &&& mask)) (subMasksDesc mask) (by
      intro x; simp only [decide_eq_true_eq]; omega)
  have h2 := subMasksDesc_len mask h
  omega

theorem invert_wt (x : Cond) (ok : Cond.OK x) : ∀ d ∈ Cond.invert x, Conj.wt d ≤ max 4 (Cond.wt x) := by
  intro d hd
  cases x with
  | tag c => simp [Cond.invert] at hd; subst hd; simp
  | flag c =>
    simp only [Cond.invert, List.mem_cons, List.not_mem_nil, or_false] at hd
    subst hd
    rw [wt_map_one _ (fun v => wt_flag _)]
    have := flagInvertValues_len c.value c.mask ok.1
    omega
  | host c => simp [Cond.invert] at hd; subst hd; simp
  | time c => simp [Cond.invert] at hd; subst hd; simp
  | num c => simp [Cond.invert] at hd; subst hd; simp
  | data c =>
    simp only [Cond.invert, List.mem_map, List.mem_range] at hd
    obtain ⟨i, hi, rfl⟩ := hd
    simp only [Conj.wt_cons, wt_data, Conj.wt_nil, List.length_take]
    omega
  | impossible => simp [Cond.invert] at hd; subst hd; simp

end Width

theorem widthLaws : WidthLaws 4 4 := ⟨Width.clean_wt, Width.invert_wt⟩

/-- `dnf_size_bound` with the concrete constants (flag conditions on the two protocol bits:
    `Conj.clean` multiplies the width by at most 4, the negation of a condition has width ≤ 4) -/
theorem dnf_size_bound_tb (L : Laws) (ref : Int) (P : Term → Prop) (tb : Term → Nat × Nat)
    (TB : TermBound ref P tb) (e : Expr) (hp : TermsOf P e) (cs : CSet)
    (h : translate ref e = .ok (some cs)) : cs.length ≤ (dnfBoundWith 4 4 tb e).1 :=
  (dnf_size_bound_of_laws L widthLaws (by omega) (by omega) ref P tb TB e hp cs h).1

/-! ### the size of a single term -/

/-- explicit bound for a single term: number of list entries (times the number of directions for
    the `port`/`host`/`bytes`/`data` shorthands), width ≤ 4 -/
def termBound (t : Term) : Nat × Nat :=
  match t.value with
  | .tags names => (names.length, 1)
  | .protos l => (l.length, 4)
  | .hosts l => (2 * l.length, 1)
  | .nums l => (2 * l.length, 2)
  | .times l => (l.length, 2)
  | .data _ _ => (2, 1)
  | .other => (0, 0)

namespace Width

theorem mapOutcome_spec {α β : Type} (f : α → Outcome β) (l : List α) (ys : List β)
    (h : mapOutcome f l = .ok ys) : ys.length = l.length ∧ ∀ y ∈ ys, ∃ x ∈ l, f x = .ok y := by
  induction l generalizing ys with
  | nil => simp [mapOutcome] at h; subst h; simp
  | cons x xs ih =>
    simp only [mapOutcome] at h
    cases hx : f x with
    | ok y =>
      simp only [hx] at h
      cases hxs : mapOutcome f xs with
      | ok ys' =>
        simp only [hxs, Outcome.ok.injEq] at h
        subst h
        have := ih ys' hxs
        refine ⟨by simp [this.1], ?_⟩
        intro y' hy'
        rcases List.mem_cons.mp hy' with rfl | hy'
        · exact ⟨x, by simp, hx⟩
        · obtain ⟨x', hx', hfx'⟩ := this.2 y' hy'
          exact ⟨x', by simp [hx'], hfx'⟩
      | err m => simp [hxs] at h
      | panic m => simp [hxs] at h
      | diverged m => simp [hxs] at h
    | err m => simp [hx] at h
    | panic m => simp [hx] at h
    | diverged m => simp [hx] at h

theorem flatten_len_le {α : Type} (ll : List (List α)) (m : Nat) (h : ∀ l ∈ ll, l.length ≤ m) :
    ll.flatten.length ≤ ll.length * m := by
  induction ll with
  | nil => simp
  | cons l rest ih =>
    have h1 := h l (by simp)
    have h2 := ih (fun l hl => h l (by simp [hl]))
    simp only [List.flatten_cons, List.length_append, List.length_cons, Nat.succ_mul]
    omega

theorem nilIfEmpty_some {l cs : CSet} (h : nilIfEmpty l = some cs) : l = cs := by
  unfold nilIfEmpty at h
  split at h
  · cases h
  · simpa using h

theorem liftSet_some {o : Outcome CSet} {cs : CSet} (h : liftSet o = .ok (some cs)) : o = .ok cs := by
  cases o with
  | ok l =>
    simp only [liftSet, Outcome.ok.injEq] at h
    rw [nilIfEmpty_some h]
  | err m => simp [liftSet] at h
  | panic m => simp [liftSet] at h
  | diverged m => simp [liftSet] at h

theorem hostTypes_len (key : String) : (hostTypes key).length ≤ 2 := by
  unfold hostTypes
  repeat' split
  all_goals simp

theorem numKeyTypes_len (key : String) : (numKeyTypes key).length ≤ 2 := by
  unfold numKeyTypes
  repeat' split
  all_goals simp

theorem dataFlags_len (key : String) : (dataFlags key).length ≤ 2 := by
  unfold dataFlags
  repeat' split
  all_goals simp

theorem invert_flag_wt (fc : FlagC) (hm : fc.mask < 4) :
    ∀ d ∈ Cond.invert (.flag fc), Conj.wt d ≤ 4 := by
  intro d hd
  simp only [Cond.invert, List.mem_cons, List.not_mem_nil, or_false] at hd
  subst hd
  rw [wt_map_one _ (fun v => wt_flag _)]
  exact flagInvertValues_len fc.value fc.mask hm

theorem trProtos_bd (t : Term) (l : List ProtoEntry) (cs : CSet) (h : trProtos t l = .ok cs) :
    Bd cs (l.length, 4) := by
  induction l generalizing cs with
  | nil => simp [trProtos] at h; subst h; exact Bd_nil _
  | cons e rest ih =>
    have hflag : ∀ (fc : FlagC), fc.mask < 4 → ∀ (tl : CSet), Bd tl (rest.length, 4) →
        Bd (Cond.invert (.flag fc) ++ tl) ((e :: rest).length, 4) := by
      intro fc hm tl htl
      constructor
      · have := htl.1
        simp only [Cond.invert, List.length_append, List.length_cons, List.length_nil]; omega
      · intro c hc
        rcases List.mem_append.mp hc with hc | hc
        · exact invert_flag_wt fc hm c hc
        · exact htl.2 c hc
    have hskip : ∀ (tl : CSet), Bd tl (rest.length, 4) → Bd ([] :: tl) ((e :: rest).length, 4) := by
      intro tl htl
      constructor
      · have := htl.1
        simp only [List.length_cons]; omega
      · intro c hc
        rcases List.mem_cons.mp hc with rfl | hc
        · simp
        · exact htl.2 c hc
    cases e with
    | var v =>
      simp only [trProtos] at h
      split at h
      · cases h
      · cases hr : trProtos t rest with
        | ok tl =>
          simp only [hr] at h
          split at h
          · simp only [Outcome.ok.injEq] at h; subst h
            exact hflag _ (by simp) tl (ih tl hr)
          · simp only [Outcome.ok.injEq] at h; subst h
            exact hskip tl (ih tl hr)
        | err m => simp [hr] at h
        | panic m => simp [hr] at h
        | diverged m => simp [hr] at h
    | token tok =>
      simp only [trProtos] at h
      split at h
      · cases h
      · cases hr : trProtos t rest with
        | ok tl =>
          simp only [hr, Outcome.ok.injEq] at h; subst h
          exact hflag _ (by simp) tl (ih tl hr)
        | err m => simp [hr] at h
        | panic m => simp [hr] at h
        | diverged m => simp [hr] at h

theorem trHostEntry_wt (t : Term) (server : Bool) (e : HostEntry) (c : Conj)
    (h : trHostEntry t server e = .ok c) : Conj.wt c ≤ 1 := by
  unfold trHostEntry at h
  split at h
  · split at h
    · simp only [Outcome.ok.injEq] at h; subst h; simp
    · split at h
      · simp only [Outcome.ok.injEq] at h; subst h; simp
      · split at h
        · simp only [Outcome.ok.injEq] at h; subst h; simp
        · cases h
  all_goals cases h

theorem trHosts_bd (t : Term) (l : List HostEntry) (cs : CSet) (h : trHosts t l = .ok cs) :
    Bd cs (2 * l.length, 1) := by
  unfold trHosts at h
  split at h
  · split at h
    · next ll hll =>
      simp only [Outcome.ok.injEq] at h; subst h
      have h1 := mapOutcome_spec _ _ ll hll
      have hrow : ∀ row ∈ ll, row.length ≤ l.length ∧ ∀ c ∈ row, Conj.wt c ≤ 1 := by
        intro row hrow
        obtain ⟨server, _, hs⟩ := h1.2 row hrow
        have h2 := mapOutcome_spec _ _ row hs
        refine ⟨by omega, ?_⟩
        intro c hc
        obtain ⟨e, _, he⟩ := h2.2 c hc
        exact trHostEntry_wt t server e c he
      constructor
      · have := flatten_len_le ll l.length (fun row hr => (hrow row hr).1)
        have h3 := hostTypes_len t.key
        have : ll.length * l.length ≤ 2 * l.length := Nat.mul_le_mul_right _ (by omega)
        simp only; omega
      · intro c hc
        simp only [List.mem_flatten] at hc
        obtain ⟨row, hr, hcr⟩ := hc
        exact (hrow row hr).2 c hcr
    all_goals cases h
  all_goals cases h

theorem numEntryFor_wt (t : Term) (b : NumC × NumC × Bool × Bool) (ty : NumType) (c : Conj)
    (h : numEntryFor t b ty = .ok c) : Conj.wt c ≤ 2 := by
  unfold numEntryFor at h
  split at h
  · split at h
    · simp only [Outcome.ok.injEq] at h; subst h
      simp only [Conj.wt_append]
      split <;> split <;> simp
    all_goals cases h
  all_goals cases h

theorem trNums_bd (t : Term) (l : List (List (List NumPart))) (cs : CSet)
    (h : trNums t l = .ok cs) : Bd cs (2 * l.length, 2) := by
  unfold trNums at h
  split at h
  · next ll hll =>
    simp only [Outcome.ok.injEq] at h; subst h
    have h1 := mapOutcome_spec _ _ ll hll
    have hrow : ∀ row ∈ ll, row.length ≤ 2 ∧ ∀ c ∈ row, Conj.wt c ≤ 2 := by
      intro row hrow
      obtain ⟨ranges, _, hs⟩ := h1.2 row hrow
      unfold trNumEntry at hs
      split at hs
      · next b _ =>
        have h2 := mapOutcome_spec _ _ row hs
        have h3 := numKeyTypes_len t.key
        refine ⟨by omega, ?_⟩
        intro c hc
        obtain ⟨ty, _, he⟩ := h2.2 c hc
        exact numEntryFor_wt t b ty c he
      all_goals cases hs
    constructor
    · have := flatten_len_le ll 2 (fun row hr => (hrow row hr).1)
      simp only; omega
    · intro c hc
      simp only [List.mem_flatten] at hc
      obtain ⟨row, hr, hcr⟩ := hc
      exact (hrow row hr).2 c hcr
  all_goals cases h

theorem trTimeEntry_wt (t : Term) (ref : Int) (ranges : List (List TimePart)) (c : Conj)
    (h : trTimeEntry t ref ranges = .ok c) : Conj.wt c ≤ 2 := by
  unfold trTimeEntry at h
  split at h
  · split at h
    · split at h
      · simp only [Outcome.ok.injEq] at h; subst h
        simp only [Conj.wt_append]
        split <;> split <;> simp
      all_goals cases h
    all_goals cases h
  all_goals cases h

theorem trTimes_bd (t : Term) (ref : Int) (l : List (List (List TimePart))) (cs : CSet)
    (h : trTimes t ref l = .ok cs) : Bd cs (l.length, 2) := by
  unfold trTimes at h
  have h1 := mapOutcome_spec _ _ cs h
  refine ⟨by simp only; omega, ?_⟩
  intro c hc
  obtain ⟨r, _, hr⟩ := h1.2 c hc
  exact trTimeEntry_wt t ref r c hr

theorem termBound_size (ref : Int) (t : Term) (cs : CSet) (h : trTerm ref t = .ok (some cs)) :
    Bd cs (termBound t) := by
  unfold trTerm at h
  split at h
  · cases h
  · unfold termBound
    split at h
    · next names hv =>
      simp only [Outcome.ok.injEq] at h
      have := nilIfEmpty_some h
      subst this
      simp only [hv]
      refine ⟨by simp [trTags], ?_⟩
      intro c hc
      simp only [trTags, List.mem_map] at hc
      obtain ⟨v, _, rfl⟩ := hc
      simp
    · next l hv => simp only [hv]; exact trProtos_bd t l cs (liftSet_some h)
    · next l hv => simp only [hv]; exact trHosts_bd t l cs (liftSet_some h)
    · next l hv => simp only [hv]; exact trNums_bd t l cs (liftSet_some h)
    · next l hv => simp only [hv]; exact trTimes_bd t ref l cs (liftSet_some h)
    · next content vars hv =>
      simp only [Outcome.ok.injEq] at h
      have := nilIfEmpty_some h
      subst this
      simp only [hv]
      refine ⟨by simpa [trData] using dataFlags_len t.key, ?_⟩
      intro c hc
      simp only [trData, List.mem_map] at hc
      obtain ⟨v, _, rfl⟩ := hc
      simp
    · cases h

end Width

/-! ### C14 `dnf_size_bound` -/

/-- the explicit bound (number of conjuncts, width of a conjunct) of an expression:
    * a term: its number of list entries (×2 for the client/server shorthands), width ≤ 4;
    * OR: the sum of the counts, the maximum of the widths;
    * AND: the product of the counts, width `4·(w₁+w₂)+1`;
    * THEN: the product of the counts, width `w₁+w₂+2·w₁·w₂`;
    * NOT of `n` conjuncts of width `w`: `n`-fold AND of sets with `max 1 w` conjuncts of width
      `max 4 w`, i.e. at most `(max 1 w)^n` conjuncts. -/
def dnfBound (e : Expr) : Nat × Nat := dnfBoundWith 4 4 termBound e

/-- the only thing assumed about single terms: their conditions are well-shaped (`Cond.OK`) -/
def TermOK (ref : Int) (P : Term → Prop) : Prop :=
  ∀ t cs, P t → trTerm ref t = .ok (some cs) → CSet.OK cs

theorem TermOK_of_TermLaw (ref : Int) (P : Term → Prop) (T : TermLaw ref P) : TermOK ref P := by
  intro t cs hp h
  obtain ⟨cs', h1, _, h3, _⟩ := T t (some cs) wfEnv hp wfEnv_wf h
  cases h1
  exact h3

/-- C14: the number of conjuncts after translation is at most `(dnfBound e).1` (and every conjunct
    has width at most `(dnfBound e).2`), for every expression of the grammar. -/
theorem dnf_size_bound (L : Laws) (ref : Int) (P : Term → Prop) (hok : TermOK ref P) (e : Expr)
    (hp : TermsOf P e) (cs : CSet) (h : translate ref e = .ok (some cs)) :
    cs.length ≤ (dnfBound e).1 :=
  dnf_size_bound_tb L ref P termBound
    (fun t cs hpt ht => ⟨hok t cs hpt ht, Width.termBound_size ref t cs ht⟩) e hp cs h

theorem dnf_width_bound (L : Laws) (ref : Int) (P : Term → Prop) (hok : TermOK ref P) (e : Expr)
    (hp : TermsOf P e) (cs : CSet) (h : translate ref e = .ok (some cs)) :
    ∀ c ∈ cs, Conj.wt c ≤ (dnfBound e).2 :=
  (dnf_size_bound_of_laws L widthLaws (by omega) (by omega) ref P termBound
    (fun t cs hpt ht => ⟨hok t cs hpt ht, Width.termBound_size ref t cs ht⟩) e hp cs h).2

/-- the count bound at a glance (sanity checks of the shape of `dnfBound`) -/
theorem dnfBound_or2 (a b : Expr) :
    (dnfBound (.or [a, b])).1 = max 1 ((dnfBound a).1 + (dnfBound b).1) := by
  simp [dnfBound, dnfBoundWith, dnfBoundWith.orAll, orB, normB]

theorem dnfBound_and2 (a b : Expr) :
    (dnfBound (.and [a, b])).1 = (dnfBound a).1 * (dnfBound b).1 := by
  simp [dnfBound, dnfBoundWith, dnfBoundWith.andAll, andB]

end Pk.Query
