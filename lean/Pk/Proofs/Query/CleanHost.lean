/-
  `cleanHost` (cleanHostConditions) preserves the meaning of a conjunction of host conditions,
  for conditions with a single source and a constant host (`HostC.WF1`).
-/
import Pk.Proofs.Query.Basic

namespace Pk.Query

/-- what the translation of a host filter without variables produces -/
def HostC.WF1 (h : HostC) : Prop :=
  h.srcs.length = 1 ∧ (h.host.length = 4 ∨ h.host.length = 16) ∧ h.m4.length = 4 ∧ h.m6.length = 16

theorem CleanHost.length_andBytes (a m : List Nat) : (andBytes a m).length = min a.length m.length := by
  induction a generalizing m with
  | nil => simp [andBytes]
  | cons x xs ih =>
    cases m with
    | nil => simp [andBytes]
    | cons y ys => simp [andBytes, ih]

open CleanHost

theorem CleanHost.and_xor_and (a m b : Nat) : ((a &&& m) ^^^ b) &&& m = (a ^^^ b) &&& m := by
  rw [Nat.and_xor_distrib_right, Nat.and_xor_distrib_right, Nat.and_assoc, Nat.and_self]

theorem CleanHost.andBytes_xor_and (a m b : List Nat) :
    andBytes (xorBytes (andBytes a m) b) m = andBytes (xorBytes a b) m := by
  induction a generalizing m b with
  | nil => simp [andBytes, xorBytes]
  | cons x xs ih =>
    cases m with
    | nil => simp [andBytes]
    | cons y ys =>
      cases b with
      | nil => simp [andBytes, xorBytes]
      | cons z zs => simp [andBytes, xorBytes, ih, and_xor_and]

theorem CleanHost.hostNorm_wf1 (h : HostC) (hw : h.WF1) :
    hostNorm h = { h with host := if h.host.length = 4 then andBytes h.host h.m4 else andBytes h.host h.m6 } := by
  obtain ⟨hs, hh, h4, h6⟩ := hw
  unfold hostNorm
  match hsr : h.srcs, hs with
  | [s], _ =>
    have h1 : isort hcsLess [s] = [s] := rfl
    have h2 : hostSrcLoop 1 1 [s] = [s] := by simp [hostSrcLoop]
    simp only [h1, List.length_singleton, h2]
    rcases hh with hh | hh <;> simp [hh]

theorem CleanHost.hostNorm_wf (h : HostC) (hw : h.WF1) : (hostNorm h).WF1 := by
  rw [hostNorm_wf1 h hw]
  obtain ⟨hs, hh, h4, h6⟩ := hw
  refine ⟨hs, ?_, h4, h6⟩
  rcases hh with hh | hh <;> simp [hh, length_andBytes, h4, h6]

theorem CleanHost.evalHost_one (c : HostC) (ρ : Env) (s : HostSrc) (hs : c.srcs = [s]) (hne : c.host ≠ []) :
    evalHost c ρ =
      if (srcHost ρ s).length = c.host.length then
        ((andBytes (xorBytes c.host (srcHost ρ s)) (if c.host.length = 16 then c.m6 else c.m4)).all
          (· = 0)) != c.inv
      else c.inv := by
  unfold evalHost hostOperands
  simp [hs, hne]

theorem CleanHost.evalHost_norm (h : HostC) (ρ : Env) (hw : h.WF1) : evalHost (hostNorm h) ρ = evalHost h ρ := by
  have hw' := hostNorm_wf h hw
  have hn := hostNorm_wf1 h hw
  obtain ⟨hs, hh, h4, h6⟩ := hw
  match hsr : h.srcs, hs with
  | [s], _ =>
    have hne : h.host ≠ [] := by
      intro e; rw [e] at hh; simp at hh
    have hne' : (hostNorm h).host ≠ [] := by
      intro e; have := hw'.2.1; rw [e] at this; simp at this
    have hsr' : (hostNorm h).srcs = [s] := by rw [hn]; exact hsr
    rw [evalHost_one _ ρ s hsr' hne', evalHost_one _ ρ s hsr hne]
    rw [hn]
    rcases hh with hh | hh
    · simp [hh, length_andBytes, h4, andBytes_xor_and]
    · simp [hh, length_andBytes, h6, andBytes_xor_and]

theorem CleanHost.hostFirst_wf (hcs : List HostC) (hwf : ∀ h ∈ hcs, h.WF1) :
    hostFirst hcs = some (hcs.map hostNorm) := by
  induction hcs with
  | nil => rfl
  | cons h rest ih =>
    have hw := hostNorm_wf h (hwf h (by simp))
    have hne : (hostNorm h).srcs ≠ [] := by
      intro e; have := hw.1; rw [e] at this; simp at this
    simp only [hostFirst, hne, ne_eq, not_false_eq_true, if_true,
      ih (fun x hx => hwf x (by simp [hx])), Option.map_some, List.map_cons]

/-! ### dedup -/

theorem CleanHost.cmpHostSrc_eq (a b : HostSrc) (h : cmpHostSrc a b = .eq) : a = b := by
  unfold cmpHostSrc at h
  split at h
  · cases h
  · split at h
    · cases h
    · rename_i h1 h2
      unfold hcsLess at h1 h2
      by_cases hsq : a.sq = b.sq
      · simp only [hsq, ne_eq, not_true_eq_false, if_false] at h1 h2
        cases a with | mk asq asv => cases b with | mk bsq bsv =>
        simp only at hsq h1 h2
        subst hsq
        cases asv <;> cases bsv <;> simp_all
      · have hsq' : ¬ b.sq = a.sq := fun e => hsq e.symm
        simp only [ne_eq, hsq, hsq', not_false_eq_true, if_true, decide_eq_true_eq] at h1 h2
        exact absurd (String.le_antisymm (String.not_lt.mp h2) (String.not_lt.mp h1)) hsq

theorem CleanHost.lexCmp_hostSrc_eq (a b : List HostSrc) (h : lexCmp cmpHostSrc a b = .eq) : a = b := by
  induction a generalizing b with
  | nil => cases b <;> simp_all [lexCmp]
  | cons x xs ih =>
    cases b with
    | nil => simp [lexCmp] at h
    | cons y ys =>
      simp only [lexCmp] at h
      cases hc : cmpHostSrc x y with
      | eq =>
        rw [hc] at h
        rw [cmpHostSrc_eq x y hc, ih ys h]
      | lt => rw [hc] at h; cases h
      | gt => rw [hc] at h; cases h

theorem CleanHost.hostC_ext (a b : HostC) (h1 : a.srcs = b.srcs) (h2 : a.host = b.host) (h3 : a.m4 = b.m4)
    (h4 : a.m6 = b.m6) (h5 : a.inv = b.inv) : a = b := by
  cases a; cases b; simp_all

theorem CleanHost.evalHost_flip (c : HostC) (ρ : Env) : evalHost { c with inv := !c.inv } ρ = !evalHost c ρ := by
  unfold evalHost
  have : hostOperands { c with inv := !c.inv } ρ = hostOperands c ρ := rfl
  rw [this]
  split
  · simp
  · split <;> simp

theorem CleanHost.optAll_map_cons {α : Type} (ev : α → Bool) (a : α) (o : Option (List α)) :
    optAll ev (o.map (a :: ·)) = (ev a && optAll ev o) := by
  cases o <;> simp

theorem CleanHost.hostDedup_sound (ρ : Env) (a : HostC) (rest : List HostC) :
    optAll (fun c => evalHost c ρ) (hostDedup a rest) = (a :: rest).all (fun c => evalHost c ρ) := by
  induction rest generalizing a with
  | nil => simp [hostDedup]
  | cons b rest ih =>
    simp only [hostDedup]
    split
    · rename_i hk
      simp only [hostSameKey, decide_eq_true_eq] at hk
      obtain ⟨_, h1, h2, h3, h4⟩ := hk
      have h1' := lexCmp_hostSrc_eq _ _ h1
      split
      · rename_i hi
        have : b = { a with inv := !a.inv } := by
          refine hostC_ext _ _ h1'.symm h2.symm h3.symm h4.symm ?_
          cases ha : a.inv <;> cases hb : b.inv <;> simp_all
        rw [this]
        simp only [optAll_none, List.all_cons, evalHost_flip]
        cases evalHost a ρ <;> simp
      · rename_i hi
        have : b = a := by
          refine hostC_ext _ _ h1'.symm h2.symm h3.symm h4.symm ?_
          cases ha : a.inv <;> cases hb : b.inv <;> simp_all
        rw [ih a, this]
        simp only [List.all_cons]
        cases evalHost a ρ <;> simp
    · rw [optAll_map_cons, ih b]
      simp

theorem cleanHost_sound_partial (hcs : List HostC) (ρ : Env) (hwf : ∀ h ∈ hcs, h.WF1) :
    optAll (fun c => evalHost c ρ) (cleanHost hcs) = hcs.all (fun c => evalHost c ρ) := by
  have hall : (hcs.map hostNorm).all (fun c => evalHost c ρ) = hcs.all (fun c => evalHost c ρ) := by
    induction hcs with
    | nil => rfl
    | cons x xs ih =>
      simp only [List.map_cons, List.all_cons, evalHost_norm x ρ (hwf x (by simp)),
        ih (fun y hy => hwf y (by simp [hy]))]
  unfold cleanHost
  rw [hostFirst_wf hcs hwf, ← hall, ← all_isort hostLt (hcs.map hostNorm)]
  simp only
  split
  · rename_i h; rw [h]; simp
  · rename_i a rest h
    rw [h]
    exact hostDedup_sound ρ a rest

/-! ### two sources without a constant (`host:@sub:host`) -/

/-- what the translation of a host filter with a variable produces -/
def HostC.WF2 (h : HostC) : Prop := h.srcs.length = 2 ∧ h.host = []

/-- per-condition soundness of the first loop -/
def CleanHost.NormOK (ρ : Env) (h : HostC) : Prop :=
  ((hostNorm h).srcs ≠ [] → evalHost (hostNorm h) ρ = evalHost h ρ) ∧
  ((hostNorm h).srcs = [] → evalHost h ρ = (hostZero (hostNorm h) != (hostNorm h).inv))

theorem CleanHost.normOK_wf1 (ρ : Env) (h : HostC) (hw : h.WF1) : NormOK ρ h := by
  have hw' := hostNorm_wf h hw
  have hne : (hostNorm h).srcs ≠ [] := by
    intro e; have := hw'.1; rw [e] at this; simp at this
  exact ⟨fun _ => evalHost_norm h ρ hw, fun e => absurd e hne⟩

theorem CleanHost.xorBytes_comm (a b : List Nat) : xorBytes a b = xorBytes b a := by
  induction a generalizing b with
  | nil => cases b <;> simp [xorBytes]
  | cons x xs ih =>
    cases b with
    | nil => simp [xorBytes]
    | cons y ys => simp [xorBytes, ih ys, Nat.xor_comm]

theorem CleanHost.andBytes_xor_self (a m : List Nat) : (andBytes (xorBytes a a) m).all (· = 0) = true := by
  induction a generalizing m with
  | nil => simp [xorBytes, andBytes]
  | cons x xs ih =>
    cases m with
    | nil => simp [xorBytes, andBytes]
    | cons y ys => simp [xorBytes, andBytes, ih ys]

theorem CleanHost.evalHost_two (c : HostC) (ρ : Env) (x y : HostSrc) (hs : c.srcs = [x, y]) (hh : c.host = []) :
    evalHost c ρ =
      if (srcHost ρ y).length = (srcHost ρ x).length then
        ((andBytes (xorBytes (srcHost ρ x) (srcHost ρ y)) (if (srcHost ρ x).length = 16 then c.m6 else c.m4)).all
          (· = 0)) != c.inv
      else c.inv := by
  unfold evalHost hostOperands
  simp [hs, hh]

theorem CleanHost.evalHost_two_swap (c d : HostC) (ρ : Env) (x y : HostSrc)
    (hc : c.srcs = [x, y]) (hd : d.srcs = [y, x]) (hch : c.host = []) (hdh : d.host = [])
    (h4 : c.m4 = d.m4) (h6 : c.m6 = d.m6) (hi : c.inv = d.inv) :
    evalHost c ρ = evalHost d ρ := by
  rw [evalHost_two c ρ x y hc hch, evalHost_two d ρ y x hd hdh, h4, h6, hi]
  by_cases hl : (srcHost ρ y).length = (srcHost ρ x).length
  · rw [if_pos hl, if_pos hl.symm, xorBytes_comm, hl]
  · rw [if_neg hl, if_neg (fun e => hl e.symm)]

theorem CleanHost.normOK_wf2 (ρ : Env) (h : HostC) (hw : h.WF2) : NormOK ρ h := by
  obtain ⟨hs, hh⟩ := hw
  match hsr : h.srcs, hs with
  | [a, b], _ =>
    have hhost : (hostNorm h).host = [] := by
      unfold hostNorm; simp [hh]
    have hm4 : (hostNorm h).m4 = h.m4 := rfl
    have hm6 : (hostNorm h).m6 = h.m6 := rfl
    have hinv : (hostNorm h).inv = h.inv := rfl
    have hsrcs : (hostNorm h).srcs = hostSrcLoop 2 1 (isort hcsLess [a, b]) := by
      unfold hostNorm; simp [hsr, length_isort]
    have hsort : isort hcsLess [a, b] = if hcsLess b a then [b, a] else [a, b] := rfl
    by_cases hab : a = b
    · subst hab
      have hnil : (hostNorm h).srcs = [] := by
        rw [hsrcs, hsort]; simp [hostSrcLoop]
      refine ⟨fun hne => absurd hnil hne, fun _ => ?_⟩
      rw [evalHost_two h ρ a a hsr hh]
      simp [andBytes_xor_self, hostZero, hhost, hinv]
    · by_cases hlt : hcsLess b a = true
      · have hsw : (hostNorm h).srcs = [b, a] := by
          rw [hsrcs, hsort, if_pos hlt]
          have : ¬ b = a := fun e => hab e.symm
          simp [hostSrcLoop, this]
        refine ⟨fun _ => ?_, fun e => by rw [hsw] at e; cases e⟩
        exact (evalHost_two_swap h (hostNorm h) ρ a b hsr hsw hh hhost hm4.symm hm6.symm hinv.symm).symm
      · have hsw : (hostNorm h).srcs = [a, b] := by
          rw [hsrcs, hsort, if_neg hlt]
          simp [hostSrcLoop, hab]
        refine ⟨fun _ => ?_, fun e => by rw [hsw] at e; cases e⟩
        rw [evalHost_two h ρ a b hsr hh, evalHost_two (hostNorm h) ρ a b hsw hhost, hm4, hm6, hinv]

theorem CleanHost.hostFirst_sound (ρ : Env) (hcs : List HostC) (hok : ∀ h ∈ hcs, NormOK ρ h) :
    optAll (fun c => evalHost c ρ) (hostFirst hcs) = hcs.all (fun c => evalHost c ρ) := by
  induction hcs with
  | nil => rfl
  | cons h rest ih =>
    have ih' := ih (fun x hx => hok x (by simp [hx]))
    obtain ⟨h1, h2⟩ := hok h (by simp)
    simp only [hostFirst, List.all_cons]
    by_cases hne : (hostNorm h).srcs = []
    · have hev := h2 hne
      simp only [hne, ne_eq, not_true_eq_false, if_false]
      by_cases hz : hostZero (hostNorm h) = (hostNorm h).inv
      · rw [if_pos hz, hev, hz]; simp
      · rw [if_neg hz, ih', hev]
        have : (hostZero (hostNorm h) != (hostNorm h).inv) = true := by simpa using hz
        rw [this]; simp
    · simp only [ne_eq, hne, not_false_eq_true, if_true]
      rw [optAll_map_cons, ih', h1 hne]

/-- generic form: every condition is handled soundly by the first loop -/
theorem CleanHost.cleanHost_sound_of_normOK (hcs : List HostC) (ρ : Env) (hok : ∀ h ∈ hcs, NormOK ρ h) :
    optAll (fun c => evalHost c ρ) (cleanHost hcs) = hcs.all (fun c => evalHost c ρ) := by
  rw [← hostFirst_sound ρ hcs hok]
  unfold cleanHost
  cases hostFirst hcs with
  | none => rfl
  | some l =>
    simp only [optAll_some]
    rw [← all_isort hostLt l]
    split
    · rename_i h; rw [h]; simp
    · rename_i a rest h
      rw [h]
      exact hostDedup_sound ρ a rest

/-- host filters with a constant (`WF1`) or with a variable (`WF2`) -/
theorem cleanHost_sound_partial2 (hcs : List HostC) (ρ : Env) (hwf : ∀ h ∈ hcs, h.WF1 ∨ h.WF2) :
    optAll (fun c => evalHost c ρ) (cleanHost hcs) = hcs.all (fun c => evalHost c ρ) := by
  apply cleanHost_sound_of_normOK
  intro h hh
  rcases hwf h hh with hw | hw
  · exact normOK_wf1 ρ h hw
  · exact normOK_wf2 ρ h hw

/-! ### the invariant `HostC.OK` (Basic.lean) -/

theorem HostC.OK.wf {h : HostC} (hk : h.OK) : h.WF1 ∨ h.WF2 := by
  obtain ⟨hs, h4, h6⟩ := hk
  rcases hs with ⟨h1, h2⟩ | ⟨h1, h2⟩
  · exact Or.inl ⟨h1, h2, h4, h6⟩
  · exact Or.inr ⟨h1, h2⟩

theorem cleanHost_sound_ok (hcs : List HostC) (ρ : Env) (hwf : ∀ h ∈ hcs, h.OK) :
    optAll (fun c => evalHost c ρ) (cleanHost hcs) = hcs.all (fun c => evalHost c ρ) :=
  cleanHost_sound_partial2 hcs ρ (fun h hh => (hwf h hh).wf)

theorem CleanHost.hostNorm_masks (h : HostC) : (hostNorm h).m4 = h.m4 ∧ (hostNorm h).m6 = h.m6 := ⟨rfl, rfl⟩

theorem CleanHost.hostNorm_wf2_shape (h : HostC) (hw : h.WF2) :
    (hostNorm h).host = [] ∧ ((hostNorm h).srcs = [] ∨ (hostNorm h).srcs.length = 2) := by
  obtain ⟨hs, hh⟩ := hw
  match hsr : h.srcs, hs with
  | [a, b], _ =>
    have hhost : (hostNorm h).host = [] := by
      unfold hostNorm; simp [hh]
    have hsrcs : (hostNorm h).srcs = hostSrcLoop 2 1 (isort hcsLess [a, b]) := by
      unfold hostNorm; simp [hsr, length_isort]
    have hsort : isort hcsLess [a, b] = if hcsLess b a then [b, a] else [a, b] := rfl
    refine ⟨hhost, ?_⟩
    rw [hsrcs, hsort]
    by_cases hab : a = b
    · subst hab; left; simp [hostSrcLoop]
    · right
      have : ¬ b = a := fun e => hab e.symm
      by_cases hlt : hcsLess b a = true
      · rw [if_pos hlt]; simp [hostSrcLoop, this]
      · rw [if_neg hlt]; simp [hostSrcLoop, hab]

/-- a condition kept by the first loop satisfies the invariant again -/
theorem CleanHost.hostNorm_ok (h : HostC) (hk : h.OK) (hne : (hostNorm h).srcs ≠ []) : (hostNorm h).OK := by
  have hm := hostNorm_masks h
  rcases hk.wf with hw | hw
  · obtain ⟨w1, w2, w3, w4⟩ := hostNorm_wf h hw
    exact ⟨Or.inl ⟨w1, w2⟩, w3, w4⟩
  · obtain ⟨s1, s2⟩ := hostNorm_wf2_shape h hw
    rcases s2 with s2 | s2
    · exact absurd s2 hne
    · exact ⟨Or.inr ⟨s2, s1⟩, by rw [hm.1]; exact hk.2.1, by rw [hm.2]; exact hk.2.2⟩

theorem CleanHost.hostFirst_mem (hcs : List HostC) :
    ∀ l, hostFirst hcs = some l → ∀ x ∈ l, ∃ h ∈ hcs, x = hostNorm h ∧ (hostNorm h).srcs ≠ [] := by
  induction hcs with
  | nil => intro l hl x hx; simp only [hostFirst, Option.some.injEq] at hl; subst hl; cases hx
  | cons h rest ih =>
    intro l hl x hx
    simp only [hostFirst] at hl
    by_cases hne : (hostNorm h).srcs = []
    · simp only [hne, ne_eq, not_true_eq_false, if_false] at hl
      split at hl
      · cases hl
      · obtain ⟨y, hy, e⟩ := ih l hl x hx
        exact ⟨y, by simp [hy], e⟩
    · simp only [ne_eq, hne, not_false_eq_true, if_true] at hl
      cases hr : hostFirst rest with
      | none => rw [hr] at hl; cases hl
      | some tl =>
        rw [hr] at hl
        simp only [Option.map_some, Option.some.injEq] at hl
        subst hl
        rcases List.mem_cons.mp hx with e | e
        · exact ⟨h, by simp, e, hne⟩
        · obtain ⟨y, hy, e'⟩ := ih tl hr x e
          exact ⟨y, by simp [hy], e'⟩

theorem CleanHost.hostDedup_subset (a : HostC) (rest : List HostC) :
    ∀ r, hostDedup a rest = some r → ∀ x ∈ r, x ∈ a :: rest := by
  induction rest generalizing a with
  | nil => intro r hr x hx; simp only [hostDedup, Option.some.injEq] at hr; subst hr; exact hx
  | cons b rest ih =>
    intro r hr x hx
    simp only [hostDedup] at hr
    split at hr
    · split at hr
      · cases hr
      · have := ih a r hr x hx
        rcases List.mem_cons.mp this with e | e
        · simp [e]
        · simp [e]
    · cases hd : hostDedup b rest with
      | none => rw [hd] at hr; cases hr
      | some tl =>
        rw [hd] at hr
        simp only [Option.map_some, Option.some.injEq] at hr
        subst hr
        rcases List.mem_cons.mp hx with e | e
        · simp [e]
        · have := ih b tl hd x e
          exact List.mem_cons_of_mem _ this

/-- the output of `cleanHost` satisfies the invariant again -/
theorem cleanHost_ok (hcs : List HostC) (h : ∀ x ∈ hcs, x.OK) (r : List HostC)
    (hr : cleanHost hcs = some r) : ∀ x ∈ r, x.OK := by
  unfold cleanHost at hr
  cases hf : hostFirst hcs with
  | none => rw [hf] at hr; cases hr
  | some l =>
    rw [hf] at hr
    simp only at hr
    have hl : ∀ x ∈ isort hostLt l, x.OK := by
      intro x hx
      obtain ⟨y, hy, e, hne⟩ := hostFirst_mem hcs l hf x ((mem_isort _ _ _).mp hx)
      rw [e]; exact hostNorm_ok y (h y hy) hne
    intro x hx
    split at hr
    · simp only [Option.some.injEq] at hr; subst hr; cases hx
    · rename_i a rest hs
      rw [hs] at hl
      exact hl x (hostDedup_subset a rest r hr x hx)

end Pk.Query
