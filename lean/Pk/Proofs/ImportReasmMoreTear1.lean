/-
  Helper lemmas for Pk/Props/C05More.lean, target (1) (teardown of a single conversation):
  one packet of the only connection through `tcpPacket`, whatever its flags (`convStep`);
  the assembler does not look at the TCP state machine of the stream.
-/
import Pk.Proofs.ImportReasmConv5

namespace Pk.Proofs.ImportReasm
open Pk.Import

/-! ### the assembler and the FSM / Complete fields of the stream -/

theorem addData_fsm (st : Stream) (f : Fsm) (r : PRef) (b : Bytes) :
    ({ st with fsm := f } : Stream).addData r b = { st.addData r b with fsm := f } := by
  unfold Stream.addData
  simp only
  split <;> rfl

theorem sendToConnection_fsm (st : Stream) (f : Fsm) (h : Half) (s : Nat) (b : Bytes) (r : PRef) (fin : Bool) :
    sendToConnection { st with fsm := f } h s b r fin =
      ({ (sendToConnection st h s b r fin).1 with fsm := f }, (sendToConnection st h s b r fin).2) := by
  unfold sendToConnection
  simp only
  split
  · rfl
  · split
    · simp only [addData_fsm]
    · rfl

theorem phase2_fsm (st : Stream) (f : Fsm) (g : Half) (seq : Nat) (queue : Bool) (p : Pkt) :
    phase2 { st with fsm := f } g seq queue p =
      ({ (phase2 st g seq queue p).1 with fsm := f }, (phase2 st g seq queue p).2) := by
  unfold phase2
  cases queue with
  | true => simp only [if_true]
  | false =>
    simp only [Bool.false_eq_true, if_false]
    split
    · simp only [sendToConnection_fsm]
    · rfl

/-- `assembleHalf` neither reads nor writes the TCP state of the stream -/
theorem assembleHalf_fsm (st : Stream) (f : Fsm) (h : Half) (p : Pkt) :
    assembleHalf { st with fsm := f } h p =
      ({ (assembleHalf st h p).1 with fsm := f }, (assembleHalf st h p).2) := by
  rw [assembleHalf_eq, assembleHalf_eq]
  split
  · rfl
  · rw [phase2_fsm]

theorem assembleHalf_closed (st : Stream) (h : Half) (p : Pkt) (hc : h.closed = true) :
    assembleHalf st h p = (st, h) := by
  unfold assembleHalf
  simp [hc]

/-! ### one packet of the only connection -/

/-- what `tcpPacket` does to the connection `c` and its stream `st` for a packet of direction `dir`
    (`true` = server → client) once the connection is found: `lastSeen`, `Stream.Accept`
    (record the packet, TCP state check), the assembler on the sender's half if the packet was
    accepted, `ReassemblyComplete` when both halves are closed -/
def convStep (st : Stream) (c : TcpConn) (p : Pkt) (dir : Bool) : Stream × TcpConn :=
  let half := touch (if dir then c.s2c else c.c2s) p.ts
  let st1 := st.addPkt p.ref dir
  let chk := st1.fsm.check p dir
  let st2 : Stream := { st1 with fsm := chk.1 }
  let res := if chk.2 then assembleHalf st2 half p else (st2, half)
  let c' : TcpConn := if dir then { c with s2c := res.2 } else { c with c2s := res.2 }
  (if c'.c2s.closed ∧ c'.s2c.closed then { res.1 with complete := true } else res.1, c')

/-- `p` is a packet of the conversation `e` travelling in direction `dir` -/
def DirPkt (e : Endpoints) (p : Pkt) (dir : Bool) : Prop :=
  (dir = false ∧ isC2S e p) ∨ (dir = true ∧ isS2C e p)

theorem DirPkt.pdir {e : Endpoints} (hd : e.Distinct) {p : Pkt} {dir : Bool} (h : DirPkt e p dir) :
    pdir e p = dir := by
  rcases h with ⟨rfl, h⟩ | ⟨rfl, h⟩
  · exact pdir_c2s hd h
  · exact pdir_s2c h

theorem DirPkt.udp {e : Endpoints} {p : Pkt} {dir : Bool} (h : DirPkt e p dir) : p.udp = false := by
  rcases h with ⟨_, h⟩ | ⟨_, h⟩ <;> exact h.1

/-- any packet of the only connection, when nothing is older than the timeout -/
theorem tcpPacket_one (e : Endpoints) (hd : e.Distinct) (c : TcpConn) (st : Stream) (ud : List UdpConn) (u : Bool)
    (p : Pkt) (dir : Bool) (hc : ConnOf e c) (hp : DirPkt e p dir) (hfresh : Fresh c p.ts) :
    ∃ u', tcpPacket { streams := #[st], tcp := [c], udp := ud, unmodelled := u } p =
      { streams := #[(convStep st c p dir).1], tcp := [(convStep st c p dir).2], udp := ud, unmodelled := u' } := by
  have hstream : c.stream = 0 := hc.2.2.2.2
  refine ⟨u || decide (p.payload.length > 1900), ?_⟩
  unfold tcpPacket
  rcases hp with ⟨rfl, hp⟩ | ⟨rfl, hp⟩
  · simp only [tcpFlush_single (assemblerIndex p) p.ts c st u hstream hfresh.1 hfresh.2.1 hfresh.2.2,
      tcpFind_c2s e c p hc hp]
    simp [hstream, convStep, touch]
  · simp only [tcpFlush_single (assemblerIndex p) p.ts c st u hstream hfresh.1 hfresh.2.1 hfresh.2.2,
      tcpFind_s2c e c p hc hd hp]
    simp [hstream, convStep, touch]

theorem touch_frame (h : Half) (ts : Nat) :
    (touch h ts).queue = h.queue ∧ (touch h ts).closed = h.closed ∧ (touch h ts).nextSeq = h.nextSeq ∧
    h.lastSeen ≤ (touch h ts).lastSeen := by
  unfold touch
  split
  · exact ⟨rfl, rfl, rfl, by simp only; omega⟩
  · exact ⟨rfl, rfl, rfl, Nat.le_refl _⟩

/-- the sender's half after `convStep`: pages queued afterwards were queued before or belong to this
    packet; `lastSeen` does not decrease -/
theorem convStep_fresh (st : Stream) (c : TcpConn) (p : Pkt) (dir : Bool) (t0 : Nat) (ht : t0 ≤ p.ts)
    (hls : t0 ≤ c.c2s.lastSeen) (hqc : ∀ pg ∈ c.c2s.queue, t0 ≤ pg.ref.ts) (hqs : ∀ pg ∈ c.s2c.queue, t0 ≤ pg.ref.ts) :
    t0 ≤ (convStep st c p dir).2.c2s.lastSeen ∧ (∀ pg ∈ (convStep st c p dir).2.c2s.queue, t0 ≤ pg.ref.ts) ∧
    (∀ pg ∈ (convStep st c p dir).2.s2c.queue, t0 ≤ pg.ref.ts) := by
  have key : ∀ (h : Half) (s : Stream) (b : Bool), (∀ pg ∈ h.queue, t0 ≤ pg.ref.ts) →
      (∀ pg ∈ (if b then assembleHalf s (touch h p.ts) p else (s, touch h p.ts)).2.queue, t0 ≤ pg.ref.ts) ∧
      h.lastSeen ≤ (if b then assembleHalf s (touch h p.ts) p else (s, touch h p.ts)).2.lastSeen := by
    intro h s b hq
    obtain ⟨t1, _, _, t4⟩ := touch_frame h p.ts
    cases b with
    | false => simp only [Bool.false_eq_true, if_false]; exact ⟨by rw [t1]; exact hq, t4⟩
    | true =>
      simp only [if_true]
      have := assembleHalf_refs (fun r => t0 ≤ r.ts) s (touch h p.ts) p (by rw [t1]; exact hq) ht
      exact ⟨this.1, by rw [this.2]; exact t4⟩
  unfold convStep
  cases dir with
  | false =>
    simp only [Bool.false_eq_true, if_false]
    have := key c.c2s { st.addPkt p.ref false with fsm := ((st.addPkt p.ref false).fsm.check p false).1 }
      (((st.addPkt p.ref false).fsm.check p false).2) hqc
    exact ⟨Nat.le_trans hls this.2, this.1, hqs⟩
  | true =>
    simp only [if_true]
    have := key c.s2c { st.addPkt p.ref true with fsm := ((st.addPkt p.ref true).fsm.check p true).1 }
      (((st.addPkt p.ref true).fsm.check p true).2) hqs
    exact ⟨hls, hqc, this.1⟩

theorem convStep_conn (e : Endpoints) (st : Stream) (c : TcpConn) (p : Pkt) (dir : Bool) (hc : ConnOf e c) :
    ConnOf e (convStep st c p dir).2 := by
  unfold convStep
  cases dir <;> exact hc

/-! ### selectors by direction (`true` = server → client) -/

def halfOf (c : TcpConn) (d : Bool) : Half := if d then c.s2c else c.c2s
def setHalf (c : TcpConn) (d : Bool) (h : Half) : TcpConn := if d then { c with s2c := h } else { c with c2s := h }

/-- a packet that the TCP state machine rejects, or whose sender's half is closed: it is recorded
    (packet list, state machine), nothing else happens -/
theorem convStep_inert (st : Stream) (c : TcpConn) (p : Pkt) (dir : Bool)
    (h : (st.fsm.check p dir).2 = false ∨ (halfOf c dir).closed = true) :
    convStep st c p dir =
      (let st2 : Stream := { st.addPkt p.ref dir with fsm := (st.fsm.check p dir).1 }
       let c' : TcpConn := setHalf c dir (touch (halfOf c dir) p.ts)
       (if c'.c2s.closed ∧ c'.s2c.closed then { st2 with complete := true } else st2, c')) := by
  have hres : (if ((st.addPkt p.ref dir).fsm.check p dir).2 then
        assembleHalf { st.addPkt p.ref dir with fsm := ((st.addPkt p.ref dir).fsm.check p dir).1 }
          (touch (if dir then c.s2c else c.c2s) p.ts) p
      else ({ st.addPkt p.ref dir with fsm := ((st.addPkt p.ref dir).fsm.check p dir).1 },
            touch (if dir then c.s2c else c.c2s) p.ts)) =
      ({ st.addPkt p.ref dir with fsm := (st.fsm.check p dir).1 }, touch (if dir then c.s2c else c.c2s) p.ts) := by
    have hf : (st.addPkt p.ref dir).fsm = st.fsm := rfl
    rw [hf]
    rcases h with h | h
    · rw [h]; simp
    · split
      · rw [assembleHalf_closed _ _ _ (by rw [(touch_frame _ _).2.1]; exact h)]
      · rfl
  unfold convStep
  simp only [hres]
  cases dir <;> simp [setHalf, halfOf]

end Pk.Proofs.ImportReasm
