/-
  Helper lemmas for Pk/Props/C05More.lean, target (1): vocabulary of the teardown of a single
  conversation (phases, well-formed packets of each phase), the state skeleton shared by all phases,
  the generic step through `reasmPacket`.
-/
import Pk.Proofs.ImportReasmMoreTear2

namespace Pk.Proofs.ImportReasm
open Pk.Import

/-! ### selectors by direction (`true` = server → client) -/

/-- first data sequence number of direction `d` -/
def ConvParams.isnOf (cp : ConvParams) (d : Bool) : Nat := if d then cp.isn else cp.icn
/-- byte string sent in direction `d` -/
def ConvParams.BOf (cp : ConvParams) (d : Bool) : Bytes := if d then cp.Bs else cp.Bc
def cntOf (cc cs : Nat) (d : Bool) : Nat := if d then cs else cc

theorem halfOf_setHalf (c : TcpConn) (d : Bool) (h : Half) : halfOf (setHalf c d h) d = h := by
  cases d <;> rfl
theorem halfOf_setHalf_ne (c : TcpConn) (d : Bool) (h : Half) : halfOf (setHalf c d h) (!d) = halfOf c (!d) := by
  cases d <;> rfl

theorem setHalf_closed (c : TcpConn) (d : Bool) (h : Half) :
    ((setHalf c d h).c2s.closed = true ∧ (setHalf c d h).s2c.closed = true) ↔
      (h.closed = true ∧ (halfOf c (!d)).closed = true) := by
  cases d <;> simp [setHalf, halfOf, and_comm]

/-! ### accepted packets -/

/-- a packet that the TCP state machine accepts: the assembler runs on the sender's half
    (`feed`), the state machine moves to `f'` -/
theorem convStep_accept (st : Stream) (c : TcpConn) (p : Pkt) (dir : Bool) (f' : Fsm)
    (h : st.fsm.check p dir = (f', true)) :
    convStep st c p dir =
      (let res := feed dir (st, touch (halfOf c dir) p.ts) p
       let c' := setHalf c dir res.2
       (if c'.c2s.closed ∧ c'.s2c.closed then { res.1 with fsm := f', complete := true } else { res.1 with fsm := f' }, c')) := by
  have hf : (st.addPkt p.ref dir).fsm = st.fsm := rfl
  unfold convStep
  simp only [hf, h, if_true, assembleHalf_fsm]
  rfl

/-! ### the stream of the conversation -/

/-- the handshake stream with another TCP state and `Complete` flag -/
def hsWith (hs : Stream) (f : Fsm) (k : Bool) : Stream := { hs with fsm := f, complete := k }

theorem hsWith_self (hs : Stream) : hsWith hs hs.fsm hs.complete = hs := rfl

theorem convStream_inert (cp : ConvParams) (hs : Stream) (f f' : Fsm) (k : Bool) (done : List Pkt)
    (chunks : List (Nat × Bytes)) (p : Pkt) :
    ({ (convStream cp (hsWith hs f k) done chunks).addPkt p.ref (pdir cp.e p) with fsm := f' } : Stream) =
      convStream cp (hsWith hs f' k) (done ++ [p]) chunks := by
  simp [convStream, hsWith, Stream.addPkt, Nat.add_assoc]

theorem convStream_data (cp : ConvParams) (hs : Stream) (f f' : Fsm) (k : Bool) (done : List Pkt)
    (chunks : List (Nat × Bytes)) (p : Pkt) (b : Bytes) :
    ({ Stream.record (convStream cp (hsWith hs f k) done chunks) p.ref (pdir cp.e p) b with fsm := f' } : Stream) =
      convStream cp (hsWith hs f' k) (done ++ [p]) ((hs.npkts + done.length, b) :: chunks) := by
  simp [convStream, hsWith, Stream.record, Nat.add_assoc]

theorem convStream_complete (cp : ConvParams) (hs : Stream) (f : Fsm) (k : Bool) (done : List Pkt)
    (chunks : List (Nat × Bytes)) :
    ({ convStream cp (hsWith hs f k) done chunks with complete := true } : Stream) =
      convStream cp (hsWith hs f true) done chunks := rfl

/-! ### vocabulary: packets of a conversation -/

/-- a packet of the conversation travelling in direction `dir`, not before `t0` and at most the
    inactivity timeout after it -/
def ConvPkt (cp : ConvParams) (p : Pkt) (dir : Bool) : Prop :=
  DirPkt cp.e p dir ∧ cp.t0 ≤ p.ts ∧ p.ts ≤ cp.t0 + timeout

/-- a segment without SYN/FIN/RST (data, retransmission, re-segmentation, pure ACK) of direction `d` -/
def SegOf (cp : ConvParams) (p : Pkt) (d : Bool) : Prop :=
  ConvPkt cp p d ∧ SegPkt (cp.isnOf d) (cp.BOf d) p

/-- offset `x` of direction `d` was carried by one of the packets `done` -/
def Carried (cp : ConvParams) (done : List Pkt) (d : Bool) (x : Nat) : Prop :=
  ∃ q ∈ done, DirPkt cp.e q d ∧ pOff (cp.isnOf d) q ≤ x ∧ x < pEnd (cp.isnOf d) q

/-- the FIN segment of direction `d` (`FinPkt`: it carries the last bytes of the direction, possibly
    none), arriving after everything before it has arrived: every byte in front of it was carried
    by an earlier packet -/
def FinOf (cp : ConvParams) (done : List Pkt) (p : Pkt) (d : Bool) : Prop :=
  ConvPkt cp p d ∧ FinPkt (cp.isnOf d) (cp.BOf d) p ∧ ∀ x, x < pOff (cp.isnOf d) p → Carried cp done d x

/-- an RST segment of direction `d` -/
def RstOf (cp : ConvParams) (p : Pkt) (d : Bool) : Prop :=
  ConvPkt cp p d ∧ RstPkt (cp.isnOf d) (cp.BOf d) p

theorem bodyPkt_iff (cp : ConvParams) (p : Pkt) : BodyPkt cp p ↔ SegOf cp p false ∨ SegOf cp p true := by
  unfold BodyPkt SegOf ConvPkt DirPkt
  constructor
  · rintro ⟨h | h, t⟩
    · exact Or.inl ⟨⟨Or.inl ⟨rfl, h.1⟩, t⟩, h.2⟩
    · exact Or.inr ⟨⟨Or.inr ⟨rfl, h.1⟩, t⟩, h.2⟩
  · rintro (⟨⟨h, t⟩, s⟩ | ⟨⟨h, t⟩, s⟩)
    · rcases h with ⟨_, h⟩ | ⟨h0, _⟩
      · exact ⟨Or.inl ⟨h, s⟩, t⟩
      · cases h0
    · rcases h with ⟨h0, _⟩ | ⟨_, h⟩
      · cases h0
      · exact ⟨Or.inr ⟨h, s⟩, t⟩

/-! ### the state skeleton shared by all phases -/

/-- the reassembler holds exactly the conversation: one stream — handshake packets, then the packets
    `done` with their directions, the delivered `chunks`, TCP state `f`, `Complete` flag `k` — and
    its connection `c`, nothing of which is older than `t0`; the chunks cut `Bc[0..cc)` and
    `Bs[0..cs)` into pieces attributed to packets that carried them (`Chunks2`) -/
structure TSkel (cp : ConvParams) (hs : Stream) (done : List Pkt) (r : RState) (f : Fsm) (k : Bool)
    (c : TcpConn) (cc cs : Nat) (chunks : List (Nat × Bytes)) : Prop where
  st : ∃ u, r = { streams := #[convStream cp (hsWith hs f k) done chunks], tcp := [c], udp := [], unmodelled := u }
  conn : ConnOf cp.e c
  ls : cp.t0 ≤ c.c2s.lastSeen
  qc : ∀ pg ∈ c.c2s.queue, cp.t0 ≤ pg.ref.ts
  qs : ∀ pg ∈ c.s2c.queue, cp.t0 ≤ pg.ref.ts
  ch : Chunks2 cp hs.npkts done cc cs chunks

/-- any packet of the conversation: `reasmPacket` is `convStep` on the stream and the connection -/
theorem skel_step {cp : ConvParams} {hs : Stream} (hd : cp.e.Distinct) {done : List Pkt} {r : RState} {f : Fsm} {k : Bool}
    {c : TcpConn} {cc cs : Nat} {chunks : List (Nat × Bytes)} (h : TSkel cp hs done r f k c cc cs chunks)
    {p : Pkt} {dir : Bool} (hp : ConvPkt cp p dir)
    {f' : Fsm} {k' : Bool} {c' : TcpConn} {cc' cs' : Nat} {chunks' : List (Nat × Bytes)}
    (heq : convStep (convStream cp (hsWith hs f k) done chunks) c p dir =
      (convStream cp (hsWith hs f' k') (done ++ [p]) chunks', c'))
    (hch : Chunks2 cp hs.npkts (done ++ [p]) cc' cs' chunks') :
    TSkel cp hs (done ++ [p]) (reasmPacket r p) f' k' c' cc' cs' chunks' := by
  obtain ⟨⟨u, hr⟩, hconn, hls, hqc, hqs, _⟩ := h
  obtain ⟨hdir, ht0, ht1⟩ := hp
  have hfresh : Fresh c p.ts := by
    refine ⟨?_, ?_, by omega⟩
    · intro pg hm; have := hqc pg hm; omega
    · intro pg hm; have := hqs pg hm; omega
  obtain ⟨u', hstep⟩ := tcpPacket_one cp.e hd c (convStream cp (hsWith hs f k) done chunks) [] u p dir hconn hdir hfresh
  have hfr := convStep_fresh (convStream cp (hsWith hs f k) done chunks) c p dir cp.t0 ht0 hls hqc hqs
  have hcn := convStep_conn cp.e (convStream cp (hsWith hs f k) done chunks) c p dir hconn
  rw [heq] at hstep hfr hcn
  refine ⟨⟨u', ?_⟩, hcn, hfr.1, hfr.2.1, hfr.2.2, hch⟩
  subst hr
  unfold reasmPacket
  rw [if_neg (by simp [hdir.udp]), hstep]

/-! ### phases in which nothing is assembled any more -/

/-- nothing can be assembled any more: the TCP state machine is in `reset` (it rejects every
    packet) or both half-connections are closed; `Complete` is set iff both halves are closed -/
def DeadCore (f : Fsm) (k : Bool) (c : TcpConn) : Prop :=
  k = (c.c2s.closed && c.s2c.closed) ∧ (f.state = .reset ∨ k = true)

theorem touch_closed (h : Half) (ts : Nat) : (touch h ts).closed = h.closed := (touch_frame h ts).2.1

/-- in such a phase every further packet of the conversation is recorded in the packet list of the
    stream (and seen by the state machine); no data is attributed to it, nothing else changes -/
theorem dead_step {cp : ConvParams} {hs : Stream} (hd : cp.e.Distinct) {done : List Pkt} {r : RState} {f : Fsm} {k : Bool}
    {c : TcpConn} {cc cs : Nat} {chunks : List (Nat × Bytes)} (h : TSkel cp hs done r f k c cc cs chunks)
    (hdead : DeadCore f k c) {p : Pkt} {dir : Bool} (hp : ConvPkt cp p dir) :
    ∃ f' c', TSkel cp hs (done ++ [p]) (reasmPacket r p) f' k c' cc cs chunks ∧ DeadCore f' k c' ∧
      (f.state = .reset → f'.state = .reset) ∧ c'.c2s.closed = c.c2s.closed ∧ c'.s2c.closed = c.s2c.closed := by
  obtain ⟨hk, hor⟩ := hdead
  have hpd := hp.1.pdir hd
  subst hpd
  have hinert : ((convStream cp (hsWith hs f k) done chunks).fsm.check p (pdir cp.e p)).2 = false ∨
      (halfOf c (pdir cp.e p)).closed = true := by
    rcases hor with h1 | h1
    · left
      show (f.check p (pdir cp.e p)).2 = false
      unfold Fsm.check; rw [h1]
    · right
      rw [h1] at hk
      have : c.c2s.closed = true ∧ c.s2c.closed = true := by simpa using hk.symm
      cases pdir cp.e p <;> simp [halfOf, this.1, this.2]
  have hcl : (setHalf c (pdir cp.e p) (touch (halfOf c (pdir cp.e p)) p.ts)).c2s.closed = c.c2s.closed ∧
      (setHalf c (pdir cp.e p) (touch (halfOf c (pdir cp.e p)) p.ts)).s2c.closed = c.s2c.closed := by
    cases pdir cp.e p <;> simp [setHalf, halfOf, touch_closed]
  obtain ⟨e1, e2⟩ := hcl
  have hgoal : convStep (convStream cp (hsWith hs f k) done chunks) c p (pdir cp.e p) =
      (convStream cp (hsWith hs (f.check p (pdir cp.e p)).1 k) (done ++ [p]) chunks,
       setHalf c (pdir cp.e p) (touch (halfOf c (pdir cp.e p)) p.ts)) := by
    rw [convStep_inert _ c p _ hinert]
    simp only [e1, e2]
    by_cases hb : c.c2s.closed = true ∧ c.s2c.closed = true
    · have hkt : k = true := by rw [hk, hb.1, hb.2]; rfl
      rw [if_pos hb, hkt]
      simp [convStream, hsWith, Stream.addPkt, Nat.add_assoc]
    · rw [if_neg hb]
      simp [convStream, hsWith, Stream.addPkt, Nat.add_assoc]
  refine ⟨(f.check p (pdir cp.e p)).1, setHalf c (pdir cp.e p) (touch (halfOf c (pdir cp.e p)) p.ts),
    skel_step hd h hp hgoal (h.ch.mono [p]), ⟨?_, ?_⟩, ?_, e1, e2⟩
  · rw [hk, e1, e2]
  · rcases hor with h1 | h1
    · left; unfold Fsm.check; rw [h1]; exact h1
    · exact Or.inr h1
  · intro h1; unfold Fsm.check; rw [h1]; exact h1

end Pk.Proofs.ImportReasm
