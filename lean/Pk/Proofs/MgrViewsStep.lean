/-
  C10 helper lemmas: case analysis of `step` into frame steps and releases; preservation of the
  import job's captured `next` and of the file list captured by a view.
-/
import Pk.Proofs.MgrViewsFrame
namespace Pk.Proofs.MgrViews
open Pk.Mgr

theorem frame_step_other (s : St) (e : Ev) (st : Started)
    (h1 : ∀ a b c d e' f, e ≠ .importDone a b c d e' f) (h2 : ∀ a b, e ≠ .tagDone a b)
    (h3 : ∀ m, e ≠ .mergeDone m) (h4 : e ≠ .convertDone) (h5 : ∀ k, e ≠ .viewRelease k) :
    Frame s (step s e st).1 := by
  cases e with
  | nop => exact frame_step_nop _ _
  | importPcaps n => exact frame_step_importPcaps _ _ _
  | importDone a b c d e' f => exact absurd rfl (h1 a b c d e' f)
  | tagDone a b => exact absurd rfl (h2 a b)
  | mergeDone m => exact absurd rfl (h3 m)
  | convertDone => exact absurd rfl h4
  | addTag a b c d => exact frame_step_addTag _ _ _ _ _ _
  | updQuery a b c => exact frame_step_updQuery _ _ _ _ _
  | updColor a b => exact frame_step_updColor _ _ _ _
  | updName a b => exact frame_step_updName _ _ _ _
  | updConv a b => exact frame_step_updConv _ _ _ _
  | markAdd a b => exact frame_step_markAdd _ _ _ _
  | markDel a b => exact frame_step_markDel _ _ _ _
  | delTag a => exact frame_step_delTag _ _ _
  | viewOpen k => exact frame_step_viewOpen _ _ _
  | viewRelease k => exact absurd rfl (h5 k)

/-! ### release leaves everything but `used` and `files` alone -/
theorem release_idx (s : St) (fs : List Nat) : (release s fs).idx = s.idx := by rw [release_eta]
theorem release_next (s : St) (fs : List Nat) : (release s fs).next = s.next := by rw [release_eta]
theorem release_views (s : St) (fs : List Nat) : (release s fs).views = s.views := by rw [release_eta]
theorem release_jImport (s : St) (fs : List Nat) : (release s fs).jImport = s.jImport := by rw [release_eta]

/-! ### the import job's captured `next` -/
def JInv (s : St) : Prop := ∀ jn held, s.jImport = some (jn, held) → jn = s.next

theorem jinv_frame {s s' : St} (h : Frame s s') (hi : JInv s) : JInv s' := by
  intro jn held hj
  rcases h.jImport with h' | ⟨fs, h'⟩
  · rw [h'] at hj; rw [h.next]; exact hi jn held hj
  · rw [h'] at hj; rw [h.next]; cases hj; rfl

theorem jinv_release {s : St} (fs : List Nat) (hi : JInv s) : JInv (release s fs) := by
  intro jn held hj
  rw [release_jImport] at hj; rw [release_next]; exact hi jn held hj

theorem jinv_importBase (s : St) (jn : Nat) (held : List Nat) (un : Nat) (cr : List (Nat × List Nat))
    (u r a : IdSet) : JInv (importBase s jn held un cr u r a) := by
  intro jn' held' hj
  have : (importBase s jn held un cr u r a).jImport = none := by
    unfold importBase; dsimp only; split <;> simp [release_jImport]
  rw [this] at hj; cases hj

theorem jinv_mergeBase {s : St} (off : Nat) (held : List Nat) (m : List (Nat × List Nat))
    (hi : JInv s) : JInv (mergeBase s off held m) := by
  unfold mergeBase; dsimp only
  split
  · exact hi
  · intro jn held' hj
    simp only [release_jImport, release_next] at hj ⊢
    exact hi jn held' hj

theorem jinv_step (s : St) (e : Ev) (st : Started) (h : JInv s) : JInv (step s e st).1 := by
  cases e with
  | importDone a b c d e' f =>
    exact step_importDone s st a b c d e' f JInv h
      (fun jn held fin _ hf => jinv_frame hf (jinv_importBase _ _ _ _ _ _ _ _))
  | tagDone a b =>
    exact step_tagDone s st a b JInv (fun s' hf => jinv_frame hf h)
      (fun _ _ held mid _ hf => jinv_release held (jinv_frame hf h))
  | mergeDone m =>
    exact step_mergeDone s st m JInv h
      (fun off held mid _ hf => jinv_release held (jinv_frame hf (jinv_mergeBase off held m h)))
  | convertDone =>
    exact step_convertDone s st JInv (fun s' hf => jinv_frame hf h)
      (fun _ held mid _ hf => jinv_release held (jinv_frame hf h))
  | viewRelease k =>
    simp -zeta only [step]
    split
    · exact h
    · exact jinv_release _ h
  | _ => exact jinv_frame (frame_step_other s _ st (by simp) (by simp) (by simp) (by simp) (by simp)) h

/-! ### views -/
theorem views_importBase (s : St) (jn : Nat) (held : List Nat) (un : Nat) (cr : List (Nat × List Nat))
    (u r a : IdSet) : (importBase s jn held un cr u r a).views = s.views := by
  unfold importBase; dsimp only; split <;> simp [release_views]

theorem views_mergeBase (s : St) (off : Nat) (held : List Nat) (m : List (Nat × List Nat)) :
    (mergeBase s off held m).views = s.views := by
  unfold mergeBase; dsimp only; split <;> simp [release_views]

theorem views_step (s : St) (e : Ev) (st : Started) (k : Nat) (fs : List Nat)
    (hv : nget s.views k = some fs) (hne : e ≠ .viewRelease k) :
    nget (step s e st).1.views k = some fs := by
  cases e with
  | importDone a b c d e' f =>
    refine step_importDone s st a b c d e' f (fun s' => nget s'.views k = some fs) hv
      (fun jn held fin _ hf => hf.views k fs ?_)
    rw [views_importBase]; exact hv
  | tagDone a b =>
    refine step_tagDone s st a b (fun s' => nget s'.views k = some fs) (fun s' hf => hf.views k fs hv)
      (fun _ _ held mid _ hf => ?_)
    rw [release_views]; exact hf.views k fs hv
  | mergeDone m =>
    refine step_mergeDone s st m (fun s' => nget s'.views k = some fs) hv
      (fun off held mid _ hf => ?_)
    rw [release_views]; refine hf.views k fs ?_
    rw [views_mergeBase]; exact hv
  | convertDone =>
    refine step_convertDone s st (fun s' => nget s'.views k = some fs) (fun s' hf => hf.views k fs hv)
      (fun _ held mid _ hf => ?_)
    rw [release_views]; exact hf.views k fs hv
  | viewRelease k' =>
    have hk : k ≠ k' := fun h => hne (by rw [h])
    simp -zeta only [step]
    split
    · exact hv
    · rw [release_views]; simp only [nget_ndel, hk, if_false]; exact hv
  | _ => exact (frame_step_other s _ st (by simp) (by simp) (by simp) (by simp) (by simp)).views k fs hv

end Pk.Proofs.MgrViews
