/-
  C15 helper lemmas: the varbytes codec (content-type bitmasks) and strings.
-/
import Pk.Model.CacheFile
import Pk.Proofs.CacheFile

namespace Pk.Proofs.CacheFile
open Pk.CacheFile

/-! ### varbytes: the writer keeps the upper `wf` bits of the last byte `p`, the reader its lower `8 - wf` bits -/

theorem or_shl (a b k : Nat) (h : a < 2 ^ k) : a ||| (b <<< k) = a + b * 2 ^ k := by
  rw [Nat.or_comm, ← Nat.shiftLeft_add_eq_or_of_lt h, Nat.shiftLeft_eq, Nat.add_comm]

/-- one reader step, `|||` replaced by `+` -/
theorem rvb_cons (b : Nat) (bs : List Nat) (buf filled : Nat) (h : buf < 2 ^ filled) :
    readVarBytesAux (b :: bs) buf filled =
      if filled + 7 ≥ 8 then
        if b < 128 then some ([(buf + b % 128 * 2 ^ filled) % 65536 % 256], bs)
        else (readVarBytesAux bs ((buf + b % 128 * 2 ^ filled) % 65536 / 256) (filled + 7 - 8)).map
          fun r => ((buf + b % 128 * 2 ^ filled) % 65536 % 256 :: r.1, r.2)
      else
        if b < 128 then some ([], bs) else readVarBytesAux bs ((buf + b % 128 * 2 ^ filled) % 65536) (filled + 7) := by
  rw [readVarBytesAux, or_shl _ _ _ h]

theorem wvb_cons (b : Nat) (bs : List Nat) (buf filled : Nat) (h : buf < 2 ^ filled) :
    writeVarBytesAux (b :: bs) buf filled =
      (vbEmit 3 ((buf + b * 2 ^ filled) % 65536) (filled + 8)).1 ++
        writeVarBytesAux bs (vbEmit 3 ((buf + b * 2 ^ filled) % 65536) (filled + 8)).2.1
          (vbEmit 3 ((buf + b * 2 ^ filled) % 65536) (filled + 8)).2.2 := by
  rw [writeVarBytesAux, or_shl _ _ _ h]

theorem vb_finish {bs rest : List Nat} {A A' B B' C p b k r : Nat}
    (ih : readVarBytesAux (writeVarBytesAux bs A' k ++ rest) B' r = some (b :: bs, rest))
    (hA : A = A') (hB : B = B') (hC : C = p) :
    Option.map (fun x : List Nat × List Nat => (C :: x.1, x.2))
      (readVarBytesAux (writeVarBytesAux bs A k ++ rest) B r) = some (p :: b :: bs, rest) := by
  subst hA hB hC; rw [ih]; rfl

theorem vb_step : ∀ (data : List Nat) (wf p : Nat) (rest : List Nat), 1 ≤ wf → wf ≤ 7 → p < 256 →
    (∀ b ∈ data, b < 256) →
    readVarBytesAux (writeVarBytesAux data (p / 2 ^ (8 - wf)) wf ++ rest) (p % 2 ^ (8 - wf)) (8 - wf)
      = some (p :: data, rest) := by
  intro data
  induction data with
  | nil =>
    intro wf p rest h1 h7 hp _
    obtain rfl | rfl | rfl | rfl | rfl | rfl | rfl : wf = 1 ∨ wf = 2 ∨ wf = 3 ∨ wf = 4 ∨ wf = 5 ∨ wf = 6 ∨ wf = 7 := by omega
    all_goals
      simp only [writeVarBytesAux, List.cons_append, List.nil_append, Nat.reduceSub, Nat.reducePow, ne_eq,
        Nat.reduceEqDiff, not_false_eq_true, if_true]
      rw [rvb_cons _ _ _ _ (by omega)]
      simp only [Nat.reduceAdd, Nat.reducePow, ge_iff_le, Nat.reduceLeDiff, if_true]
      rw [if_pos (by omega)]
      congr 3; omega
  | cons b bs ih =>
    intro wf p rest h1 h7 hp hb
    have hb' : b < 256 := hb b (by simp)
    have hbs : ∀ x ∈ bs, x < 256 := fun x hx => hb x (by simp [hx])
    obtain rfl | rfl | rfl | rfl | rfl | rfl | rfl : wf = 1 ∨ wf = 2 ∨ wf = 3 ∨ wf = 4 ∨ wf = 5 ∨ wf = 6 ∨ wf = 7 := by omega
    case inr.inr.inr.inr.inr.inr =>
      rw [wvb_cons _ _ _ _ (by omega)]
      simp only [vbEmit, Nat.reduceAdd, Nat.reduceSub, Nat.reducePow, Nat.reduceLeDiff, if_true, if_false,
        List.cons_append, List.nil_append]
      rw [rvb_cons _ _ _ _ (by omega)]
      simp only [Nat.reduceAdd, Nat.reducePow, ge_iff_le, Nat.reduceLeDiff, if_true, Nat.reduceSub]
      rw [if_neg (by omega)]
      rw [rvb_cons _ _ _ _ (by omega)]
      simp only [Nat.reduceAdd, Nat.reducePow, ge_iff_le, Nat.reduceLeDiff, if_false, Nat.reduceSub]
      rw [if_neg (by omega)]
      have := ih 1 b rest (by omega) (by omega) hb' hbs
      simp only [Nat.reduceSub, Nat.reducePow] at this
      refine vb_finish this ?_ ?_ ?_ <;> omega
    all_goals
      rw [wvb_cons _ _ _ _ (by omega)]
      simp only [vbEmit, Nat.reduceAdd, Nat.reduceSub, Nat.reducePow, Nat.reduceLeDiff, if_true,
        List.cons_append, List.nil_append]
      rw [rvb_cons _ _ _ _ (by omega)]
      simp only [Nat.reduceAdd, Nat.reducePow, ge_iff_le, Nat.reduceLeDiff, if_true, Nat.reduceSub]
      rw [if_neg (by omega)]
      first
      | (have := ih 2 b rest (by omega) (by omega) hb' hbs
         simp only [Nat.reduceSub, Nat.reducePow] at this
         refine vb_finish this ?_ ?_ ?_ <;> omega)
      | (have := ih 3 b rest (by omega) (by omega) hb' hbs
         simp only [Nat.reduceSub, Nat.reducePow] at this
         refine vb_finish this ?_ ?_ ?_ <;> omega)
      | (have := ih 4 b rest (by omega) (by omega) hb' hbs
         simp only [Nat.reduceSub, Nat.reducePow] at this
         refine vb_finish this ?_ ?_ ?_ <;> omega)
      | (have := ih 5 b rest (by omega) (by omega) hb' hbs
         simp only [Nat.reduceSub, Nat.reducePow] at this
         refine vb_finish this ?_ ?_ ?_ <;> omega)
      | (have := ih 6 b rest (by omega) (by omega) hb' hbs
         simp only [Nat.reduceSub, Nat.reducePow] at this
         refine vb_finish this ?_ ?_ ?_ <;> omega)
      | (have := ih 7 b rest (by omega) (by omega) hb' hbs
         simp only [Nat.reduceSub, Nat.reducePow] at this
         refine vb_finish this ?_ ?_ ?_ <;> omega)

theorem varbytes_rt (data rest : List Nat) (h : ∀ b ∈ data, b < 256) :
    readVarBytes (writeVarBytes data ++ rest) = some (data, rest) := by
  cases data with
  | nil => simp [writeVarBytes, readVarBytes_zero]
  | cons b bs =>
    have hb' : b < 256 := h b (by simp)
    have hbs : ∀ x ∈ bs, x < 256 := fun x hx => h x (by simp [hx])
    unfold writeVarBytes readVarBytes
    simp only [reduceCtorEq, if_false]
    rw [wvb_cons _ _ _ _ (by omega)]
    simp only [vbEmit, Nat.reduceAdd, Nat.reduceSub, Nat.reducePow, Nat.reduceLeDiff, if_true,
      List.cons_append, List.nil_append]
    rw [rvb_cons _ _ _ _ (by omega)]
    simp only [Nat.reduceAdd, Nat.reducePow, ge_iff_le, Nat.reduceLeDiff, if_false, Nat.reduceSub]
    rw [if_neg (by omega)]
    have := vb_step bs 1 b rest (by omega) (by omega) hb' hbs
    simp only [Nat.reduceSub, Nat.reducePow] at this
    rw [← this]
    have e1 : (0 + b * 1) % 65536 / 128 = b / 128 := by omega
    have e2 : (0 + (128 + (0 + b * 1) % 65536 % 128) % 128 * 1) % 65536 = b % 128 := by omega
    rw [e1, e2]

theorem readString_rt (s rest : List Nat) (h : s.length < 2 ^ 64) :
    readString (writeString s ++ rest) = some (s, rest) := by
  unfold readString writeString
  rw [List.append_assoc, varint_roundtrip _ _ h]
  simp

end Pk.Proofs.CacheFile
