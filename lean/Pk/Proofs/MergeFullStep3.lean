/-
  One `AddIndex`: the assembled statement.
-/
import Pk.Proofs.MergeFullStep2

namespace Pk.Index
open Pk Pk.Bytes

theorem All₂.nil_right {α β : Type} {R : α → β → Prop} {as : List α} (h : All₂ R as []) : as = [] := by
  cases h; rfl

theorem All₂.mem_right {α β : Type} {R : α → β → Prop} {as : List α} {bs : List β} (h : All₂ R as bs) {b : β} (hb : b ∈ bs) :
    ∃ a ∈ as, R a b := by
  induction h with
  | nil => simp at hb
  | cons hr _ ih =>
    simp at hb
    rcases hb with rfl | hb
    · exact ⟨_, by simp, hr⟩
    · obtain ⟨a, ha, hra⟩ := ih hb
      exact ⟨a, by simp [ha], hra⟩

theorem All₂.map_right {α β γ : Type} {R : α → β → Prop} {R' : α → γ → Prop} (f : β → γ) {as : List α} {bs : List β}
    (h : All₂ R as bs) (hi : ∀ a b, a ∈ as → R a b → R' a (f b)) : All₂ R' as (bs.map f) := by
  induction h with
  | nil => exact All₂.nil
  | cons hr _ ih =>
    exact All₂.cons (hi _ _ (by simp) hr) (ih (fun a b ha => hi a b (by simp [ha])))

/-- what a copied stream looks like after `AddIndex` -/
def NewOk (r : Reader) (w' : Writer) (s s' : StreamRec) : Prop :=
  s'.id = s.id ∧ TimeOk w'.ref s' ∧ ∃ v, r.view s = some v ∧ WView w' s' v

theorem addIndex_step_aux (w w' : Writer) (r : Reader) (b : Bool) (hw : WInv w) (hr : r.WF)
    (h : w.addIndex r = .ok (w', b)) (hfit : w'.Fits) :
    WInv w' ∧
    (∀ (j : Nat) (s : StreamRec) (v : StreamView), w.streams[j]? = some s → WView w s v →
      ∃ s', w'.streams[j]? = some s' ∧ s'.id = s.id ∧ WView w' s' v) ∧
    ∃ olds new, w'.streams = olds ++ new ∧ olds.length = w.streams.length ∧
      All₂ (NewOk r w') (r.f.streams.filter fun s => !(w.streams.map (·.id)).contains s.id) new := by
  obtain ⟨acc, hc, hcase⟩ := addIndex_unfold w w' r b h
  obtain ⟨hpg1, hpg2, hpg3, hpg4, hpg5⟩ := placeGroups_spec r.hostGroups hr.hosts w.hostGroups hw.groups
  obtain ⟨⟨extra, hmi1, hmi1'⟩, hmi2, hmi3, hmi4⟩ := mergeImports_spec w.imports r.imports
  rcases hcase with ⟨hemp, rfl⟩ | ⟨hne, hW⟩
  · -- no new streams
    obtain ⟨new0, h1, h2⟩ := copyStreams_spec _ _ _ _ _ _ _ hc
    simp only [List.nil_append] at h1
    rw [← h1, hemp] at h2
    have hfil := h2.nil_right
    have hext : GroupsExt w.hostGroups ((placeGroups r.hostGroups w.hostGroups).1.take w.hostGroups.length) :=
      GroupsExt_take _ _ hpg2
    refine ⟨⟨take_inv _ hpg1 _, hw.dataLen, hw.importsNodup, hw.importsNoNul, hw.ref, ?_⟩, ?_, ?_⟩
    · intro s hs
      obtain ⟨ht, k, hl, hk⟩ := hw.streams s hs
      exact ⟨ht, k, hl.groups hext, hk⟩
    · intro j s v hj hv
      exact ⟨s, hj, rfl, WView.groups (w := w) (w' := { w with hostGroups := (placeGroups r.hostGroups w.hostGroups).1.take w.hostGroups.length }) rfl rfl rfl hext rfl hv⟩
    · exact ⟨w.streams, [], by simp, rfl, by rw [hfil]; exact All₂.nil⟩
  · -- new streams
    have hfp := hfit.packets
    have hfi := hfit.imports
    have hfg := hfit.groups
    rw [hW] at hfp hfi hfg
    simp only at hfp hfi hfg
    -- the remap tables
    have hmap : ∀ i, i < r.imports.length →
        (mergeImports w.imports r.imports).1[(mergeImports w.imports r.imports).2.getD i 0]? = r.imports[i]? := by
      intro i hi
      obtain ⟨j, hj1, hj2⟩ := hmi4 hfi i r.imports[i] (List.getElem?_eq_getElem hi)
      rw [List.getD_eq_getElem?_getD, hj1, List.getElem?_eq_getElem hi]
      exact hj2
    have ctx : CopyCtx r (mergeImports w.imports r.imports).1.length (mergeImports w.imports r.imports).2
        (placeGroups r.hostGroups w.hostGroups).1 (placeGroups r.hostGroups w.hostGroups).2 := by
      refine ⟨hr, hmi2, ?_, hpg3, ?_⟩
      · intro i hi
        have := hmap i hi
        rw [List.getElem?_eq_getElem hi] at this
        exact getElem?_lt' this
      · intro k rg m h1 h2
        obtain ⟨g', hg', _, hx⟩ := hpg5 hfg k rg m h1 h2
        exact ⟨hpg4 k rg m h1 h2, g', hg', hx⟩
    obtain ⟨⟨X, hX⟩, ⟨Y, hY⟩, hdl, new0, hnew, hall⟩ :=
      copyStreams_full ctx (w.streams.map (·.id)) r.f.streams (fun s hs => hs) _ acc hw.dataLen hc hfp
    simp only [List.nil_append] at hX hY hnew
    -- the new reference second
    have hmin := copyStreams_minFirst r _ _ _ r.f.streams (fun s hs => (hr.times s hs).1) r.f.streams (fun s hs => hs) _ acc
      (Or.inl ⟨rfl, rfl⟩) hc
    have href : newRefOf w r acc.minFirst * 1000000000 < 2 ^ 63 := by
      rcases hmin with ⟨he, _⟩ | ⟨s, hs, hm⟩
      · exact absurd he hne
      · exact newRef_ok w r _ hw.ref s (hr.times s hs) hm
    have eg : w'.hostGroups = (placeGroups r.hostGroups w.hostGroups).1 := by rw [hW]
    have ei : w'.imports = (mergeImports w.imports r.imports).1 := by rw [hW]
    have ep : w'.packets = acc.packets := by rw [hW]
    have eb : w'.blobs = acc.blobs := by rw [hW]
    have ed : w'.dataLen = acc.dataLen := by rw [hW]
    have er : w'.ref = newRefOf w r acc.minFirst := by rw [hW]
    have es : w'.streams = w.streams.map (shiftRec (mul64 (sub64 w.ref w'.ref) 1000000000)) ++
                          acc.streams.map (shiftRec (mul64 (sub64 r.f.ref w'.ref) 1000000000)) := by rw [hW]
    have href' : w'.ref * 1000000000 < 2 ^ 63 := by rw [er]; exact href
    -- old streams
    have hold : ∀ (s : StreamRec) (v : StreamView), s ∈ w.streams → WView w s v →
        WView w' (shiftRec (mul64 (sub64 w.ref w'.ref) 1000000000) s) v ∧
        TimeOk w'.ref (shiftRec (mul64 (sub64 w.ref w'.ref) 1000000000) s) := by
      intro s v hs hv
      exact WView.old ⟨extra, by rw [ei, hmi1]⟩ ⟨X, by rw [ep, hX]⟩ ⟨Y.flatten, by rw [eb, hY]; simp⟩
        (by rw [eg]; exact hpg2) href' (hw.streams s hs).1 hv
    -- new streams
    have hnewok : All₂ (NewOk r w') (r.f.streams.filter fun s => !(w.streams.map (·.id)).contains s.id)
        (acc.streams.map (shiftRec (mul64 (sub64 r.f.ref w'.ref) 1000000000))) := by
      rw [hnew]
      refine hall.map_right _ ?_
      intro s s0 hs hn
      have hs' : s ∈ r.f.streams := (List.mem_filter.mp hs).1
      have hn' : NewRel r w'.imports.length w'.packets w'.blobs.flatten w'.hostGroups (mergeImports w.imports r.imports).2 s s0 := by
        rw [ei, ep, eb, eg]; exact hn
      exact WView.new hr hmi2 (by rw [ei]; exact hmap) href' hs' hn'
    refine ⟨⟨by rw [eg]; exact hpg1, by rw [ed, eb]; exact hdl, by rw [ei]; exact hmi3 hw.importsNodup, ?_, href', ?_⟩, ?_, ?_⟩
    · rw [ei, hmi1]
      intro k hk
      simp only [List.mem_append] at hk
      rcases hk with hk | hk
      · exact hw.importsNoNul k hk
      · exact hr.importsNoNul k (hmi1' k hk)
    · intro s' hs'
      rw [es] at hs'
      simp only [List.mem_append, List.mem_map] at hs'
      rcases hs' with ⟨s, hs, rfl⟩ | ⟨s0, hs0, rfl⟩
      · obtain ⟨ht, k, hl, hk⟩ := hw.streams s hs
        obtain ⟨⟨k', hl', hk', _⟩, ht'⟩ := hold s _ hs ⟨k, hl, hk, rfl⟩
        exact ⟨ht', k', hl', hk'⟩
      · obtain ⟨s, _, _, ht', v, _, k', hl', hk', _⟩ := hnewok.mem_right (List.mem_map_of_mem (f := shiftRec _) hs0)
        exact ⟨ht', k', hl', hk'⟩
    · intro j s v hj hv
      refine ⟨shiftRec (mul64 (sub64 w.ref w'.ref) 1000000000) s, ?_, shiftRec_id _ _, (hold s v (List.mem_of_getElem? hj) hv).1⟩
      rw [es, List.getElem?_append_left (by simpa using getElem?_lt' hj)]
      simp [hj]
    · exact ⟨_, _, es, by simp, hnewok⟩

end Pk.Index
