/-
  MgrTruthCex2 — the facts contract `EvFeatOK` (Pk/Props/C06ReachSpec.lean: a definition that references a tag
  reports the feature bit `fTags = 64`) cannot be dropped.

  Witness: the state `cex2S0` reached from the initial state by `importPcaps ["a.pcap"]`,
  `importDone 1 2 [(0,[0,1])] [] [] [0,1]`, `addTag mark/m "id:0"`: mark/m = "id:0" matches exactly stream 0,
  no job in flight.  History:
    1. `addTag tag/x "tag:m"` with facts `main = [mark/m]`, `mfeat = 0` (VIOLATES `FeatRefOK`: the reference
       is not reported in the features); the tagging job for tag/x starts;
    2. `markDel mark/m [0]` (mark/m is now empty, so tag/x matches nothing; the touched stream is recorded in
       `rst`);
    3. `tagDone tag/x [0]` (the search result is the truth at job start).
  Every other contract holds for all three events (`Good` of the start state, `PayloadOK`, `ImportAddsNew`,
  `TruthStep`, `ResultOK`, `JobTextOK`), but `rst` is not applied to tag/x at the completion (its definition
  claims to look at ids only), so afterwards tag/x has `mat = [0]`, `unc = []` although stream 0 does not
  match.
-/
import Pk.Props.C06ReachSpec
namespace Pk.Props.C06Reach
open Pk.Mgr Pk.Props.MgrReach Pk.Proofs.MgrTruth Pk.Proofs.MgrTags

/-- `StepOK` without the facts contract `EvFeatOK` -/
structure StepOK' (s : St) (T g : Truth) (e : Ev) (st : Started) (T' : Truth) : Prop where
  payload : PayloadOK s e
  addsNew : ImportAddsNew s e
  truth : TruthStep s e T T'
  result : ResultOK s e g
  jobText : JobTextOK s e st T T'

/-- `RunOK` without `EvFeatOK` -/
def RunOK' (s : St) (T g : Truth) : Hist → Prop
  | [] => True
  | (e, st, T') :: rest => StepOK' s T g e st T' ∧ RunOK' (step s e st).1 T' (ghostNext s e T' g) rest

/-! ## the witness -/

/-- mark/m in the start state -/
def cex2M0 : Tag :=
  { defn := "id:0", mainT := [], subT := [], mfeat := 1, sfeat := 0, isMarkDef := true, mat := [0],
    refBy := [], gen := 0 }
/-- mark/m once tag/x references it -/
def cex2M : Tag :=
  { defn := "id:0", mainT := [], subT := [], mfeat := 1, sfeat := 0, isMarkDef := true, mat := [0],
    refBy := ["tag/x"], gen := 0 }
/-- mark/m after the mark update -/
def cex2M1 : Tag :=
  { defn := "id:-1", mainT := [], subT := [], mfeat := 1, sfeat := 0, isMarkDef := true, mat := [],
    refBy := ["tag/x"], gen := 0 }
/-- tag/x while its job is in flight (also the job's snapshot): the reference is NOT reported in `mfeat` -/
def cex2X : Tag :=
  { defn := "tag:m", mainT := ["mark/m"], subT := [], mfeat := 0, sfeat := 0, unc := [0, 1], gen := 1 }
/-- tag/x after the completion -/
def cex2X2 : Tag :=
  { defn := "tag:m", mainT := ["mark/m"], subT := [], mfeat := 0, sfeat := 0, mat := [0], unc := [], gen := 1 }

/-- the start state -/
def cex2S0 : St :=
  { tags := [("mark/m", cex2M0)], idx := [0], files := [(0, [0, 1])], used := [(0, 1)],
    next := 2, all := 2, nrec := 2, pcaps := ["a.pcap"], ngen := 1 }
/-- after `addTag tag/x "tag:m"` (the job for tag/x is in flight) -/
def cex2S1 : St :=
  { tags := [("mark/m", cex2M), ("tag/x", cex2X)], idx := [0], files := [(0, [0, 1])], used := [(0, 2)],
    next := 2, all := 2, nrec := 2, pcaps := ["a.pcap"], ngen := 2, tag := true,
    jTag := some ("tag/x", cex2X, [0]) }
/-- after `markDel mark/m [0]` -/
def cex2S2 : St :=
  { tags := [("mark/m", cex2M1), ("tag/x", cex2X)], idx := [0], files := [(0, [0, 1])], used := [(0, 2)],
    next := 2, all := 2, nrec := 2, pcaps := ["a.pcap"], ngen := 2, tag := true, rst := [0],
    jTag := some ("tag/x", cex2X, [0]) }
/-- after `tagDone tag/x [0]` -/
def cex2S3 : St :=
  { tags := [("mark/m", cex2M1), ("tag/x", cex2X2)], idx := [0], files := [(0, [0, 1])], used := [(0, 1)],
    next := 2, all := 2, nrec := 2, pcaps := ["a.pcap"], ngen := 2, tag := false, rst := [0], jTag := none }

/-- the facts of event 1: a reference to mark/m, but no feature bit -/
def cex2F : Facts := {err := false, main := ["mark/m"], sub := [], mfeat := 0, sfeat := 0, idsok := false, ids := []}

def cex2E1 : Ev := .addTag "tag/x" "" "tag:m" cex2F
def cex2E2 : Ev := .markDel "mark/m" [0]
def cex2E3 : Ev := .tagDone "tag/x" [0]

/-- the tagging choice of event 1 -/
def cex2St1 : Started := { tag := some "tag/x" }

/-- the truth before event 2 (and the ghost: the truth when the job for tag/x started): stream 0 -/
def cex2T : Truth := fun _ id => decide (id = 0)
/-- the truth after event 2: mark/m is empty, so nothing matches -/
def cex2T1 : Truth := fun _ _ => false

/-- the history -/
def cex2H : Hist := [(cex2E1, cex2St1, cex2T), (cex2E2, {}, cex2T1), (cex2E3, {}, cex2T1)]

theorem cex2_markName : isMarkName "mark/m" = true := by simp [isMarkName]
theorem cex2_tagName : isMarkName "tag/x" = false := by simp [isMarkName]

/-! ## `parseTagName` on the name of the new tag -/

theorem cex2_split : "tag/x".splitOn "/" = ["tag", "x"] := by
  simp only [String.splitOn]
  rw [if_neg (by decide)]
  iterate 6 (rw [String.splitOnAux]; simp (decide := true) only [↓reduceIte])
theorem cex2_parse : parseTagName "tag/x" = ("tag", "x", false) := by
  unfold parseTagName
  rw [cex2_split]
  decide

/-! ## the model's transitions -/

theorem cex2_step1 : step cex2S0 cex2E1 cex2St1 = (cex2S1, .ok) := by
  unfold cex2E1
  rw [step_addTag_eq, cex2_parse]
  rfl

/-- the result code of event 1 (`TruthStep` looks at the result code with the default tagging choice) -/
theorem cex2_res1 : (step cex2S0 cex2E1 {}).2 = .ok := by
  unfold cex2E1
  rw [step_addTag_eq, cex2_parse]
  rfl

theorem cex2_step2 : step cex2S1 cex2E2 {} = (cex2S2, .ok) := by
  unfold cex2E2
  rw [step_markDel_eq]
  have hg : ("mark/m".startsWith "mark/" || "mark/m".startsWith "generated/") = true := by simp
  rw [hg]
  rfl

theorem cex2_step3 : step cex2S2 cex2E3 {} = (cex2S3, .none) := rfl

/-! ## lookups in the literal tables -/

theorem cex2_sget0 {n : String} {t : Tag} (h : sget cex2S0.tags n = some t) : n = "mark/m" ∧ t = cex2M0 := by
  have h' : sget [("mark/m", cex2M0)] n = some t := h
  rw [sget_cons] at h'
  split at h'
  · next hn => exact ⟨(by simpa using hn.symm), (Option.some.inj h').symm⟩
  · simp [sget] at h'

theorem cex2_mem0 {nt : String × Tag} (h : nt ∈ cex2S0.tags) : nt = ("mark/m", cex2M0) := by
  have h' : nt ∈ [("mark/m", cex2M0)] := h
  simpa using h'

theorem cex2_sget1 {n : String} {t : Tag} (h : sget cex2S1.tags n = some t) :
    (n = "mark/m" ∧ t = cex2M) ∨ (n = "tag/x" ∧ t = cex2X) := by
  have h' : sget [("mark/m", cex2M), ("tag/x", cex2X)] n = some t := h
  rw [sget_cons] at h'
  split at h'
  · next hn => exact Or.inl ⟨(by simpa using hn.symm), (Option.some.inj h').symm⟩
  · rw [sget_cons] at h'
    split at h'
    · next hn => exact Or.inr ⟨(by simpa using hn.symm), (Option.some.inj h').symm⟩
    · simp [sget] at h'

theorem cex2_job1 {jn : String} {snap : Tag} {held : List Nat} (h : cex2S1.jTag = some (jn, snap, held)) :
    jn = "tag/x" ∧ snap = cex2X ∧ held = [0] := by
  have : ("tag/x", cex2X, [0]) = (jn, snap, held) := Option.some.inj h
  cases this
  exact ⟨rfl, rfl, rfl⟩

theorem cex2_job2 {jn : String} {snap : Tag} {held : List Nat} (h : cex2S2.jTag = some (jn, snap, held)) :
    jn = "tag/x" ∧ snap = cex2X ∧ held = [0] := by
  have : ("tag/x", cex2X, [0]) = (jn, snap, held) := Option.some.inj h
  cases this
  exact ⟨rfl, rfl, rfl⟩

theorem cex2_nojob0 {jn : String} {snap : Tag} {held : List Nat} (h : cex2S0.jTag = some (jn, snap, held)) : False := by
  have h' : (none : Option (String × Tag × List Nat)) = some (jn, snap, held) := h
  cases h'

theorem cex2_sgetM1 : sget cex2S1.tags "mark/m" = some cex2M := rfl
theorem cex2_sgetX1 : sget cex2S1.tags "tag/x" = some cex2X := rfl

/-! ## the start state satisfies all invariants -/

theorem cex2_reach : Reach cex2S0 := by
  refine ⟨?_, ?_, ?_, ?_, ?_, ?_, ?_, ?_, ?_, ?_, ?_, ?_, ?_, ?_, ?_, ?_⟩
  · show List.Pairwise (· < ·) ["mark/m"]
    simp
  · simp [C09.JobsWF, cex2S0]
  · refine ⟨fun f => ?_, fun f => ?_, fun f => ?_, ?_, ?_, ?_, ?_, ?_⟩
    · by_cases hf : f = 0
      · subst hf; rfl
      · have h0 : (0 == f) = false := by simpa using fun h => hf h.symm
        simp [C13.holders, C13.viewHeld, C13.jobHeld, cex2S0, nget, h0, List.count_cons]
    · by_cases hf : f = 0
      · subst hf; simp [cex2S0, nget]
      · have h0 : (0 == f) = false := by simpa using fun h => hf h.symm
        simp [cex2S0, nget, h0]
    · by_cases hf : f = 0
      · subst hf; rfl
      · have h0 : (0 == f) = false := by simpa using fun h => hf h.symm
        simp [cex2S0, nget, h0]
    · simp [cex2S0]
    · simp [cex2S0]
    · simp [cex2S0]
    · simp [cex2S0]
    · simp [cex2S0]
  · intro jn held h; cases h
  · intro id hid
    refine ⟨0, List.mem_singleton.2 rfl, ?_⟩
    have hid' : id < 2 := hid
    show id ∈ [0, 1]
    simp only [List.mem_cons, List.not_mem_nil, or_false]
    omega
  · exact Nat.le_refl _
  · exact Nat.le_refl _
  · intro n t h id hid
    obtain ⟨_, rfl⟩ := cex2_sget0 h
    cases hid
  · refine ⟨fun _ _ _ h => (cex2_nojob0 h).elim, fun _ h => (by cases h), fun _ h => (by cases h),
      fun _ h => (by cases h), fun _ h => (by cases h), fun _ _ h => (by cases h)⟩
  · refine ⟨fun nt h id hid => ?_, fun n snap held h => (cex2_nojob0 h).elim⟩
    show id < 2
    rw [cex2_mem0 h] at hid
    have : id ∈ [0] := hid
    simp only [List.mem_cons, List.not_mem_nil, or_false] at this
    omega
  · intro n t h c hc
    obtain ⟨_, rfl⟩ := cex2_sget0 h
    cases hc
  · intro n t h c hc
    obtain ⟨_, rfl⟩ := cex2_sget0 h
    cases hc
  · refine ⟨fun _ _ _ _ hj => (cex2_nojob0 hj).elim, ?_, ?_, fun _ _ _ hj => (cex2_nojob0 hj).elim,
      fun _ _ _ hj => (cex2_nojob0 hj).elim⟩
    · intro n t h _
      obtain ⟨_, rfl⟩ := cex2_sget0 h
      exact ⟨rfl, rfl⟩
    · intro n1 t1 n2 t2 h1 _ hm1 _ _
      obtain ⟨rfl, _⟩ := cex2_sget0 h1
      rw [cex2_markName] at hm1; cases hm1
  · intro nt h r hr
    rw [cex2_mem0 h] at hr
    cases hr
  · intro nt h r hr
    rw [cex2_mem0 h] at hr
    cases hr
  · refine ⟨?_, fun c hc => (by cases hc)⟩
    rintro ⟨nt, h, he⟩
    rw [cex2_mem0 h] at he
    cases he

theorem cex2_acyclic : C09.Acyclic cex2S0 := rfl

theorem cex2_gens : GenInv cex2S0 := by
  refine ⟨fun n t h => ?_, fun _ _ _ h => (cex2_nojob0 h).elim, fun n1 t1 n2 t2 h1 h2 _ => ?_⟩
  · obtain ⟨_, rfl⟩ := cex2_sget0 h
    show 0 < 1
    decide
  · rw [(cex2_sget0 h1).1, (cex2_sget0 h2).1]

theorem cex2_feats : TagFeatInv cex2S0 := by
  refine ⟨fun n t h => ?_, fun _ _ _ h => (cex2_nojob0 h).elim⟩
  obtain ⟨_, rfl⟩ := cex2_sget0 h
  exact ⟨fun h => absurd rfl h, fun h => absurd rfl h⟩

theorem cex2_inv : C06.Inv cex2S0 cex2T := by
  intro n t h id hid hnu
  obtain ⟨_, rfl⟩ := cex2_sget0 h
  show id ∈ [0] ↔ decide (id = 0) = true
  simp

theorem cex2_jobInv : JobInv cex2S0 cex2T cex2T := fun _ _ _ _ _ hj => (cex2_nojob0 hj).elim

theorem cex2_good : Good cex2S0 cex2T cex2T :=
  ⟨cex2_reach, cex2_acyclic, cex2_gens, cex2_feats, cex2_inv, cex2_jobInv⟩

/-! ## event 1: `addTag tag/x "tag:m"` satisfies every contract but `EvFeatOK` -/

theorem cex2_payload1 : PayloadOK cex2S0 cex2E1 := by
  refine ⟨trivial, trivial, ?_, trivial, ?_, ?_, ?_, ?_⟩
  · intro id hid; cases hid
  · intro n snap held hj
    exact (cex2_nojob0 hj).elim
  · intro m t h hd
    obtain ⟨_, rfl⟩ := cex2_sget0 h
    exact absurd hd (by decide)
  · intro h; cases h
  · show isMarkName "tag/x" = true ↔ _
    rw [cex2_parse, cex2_tagName]
    constructor
    · intro h; cases h
    · intro h
      rcases h with h | h <;> exact absurd h (by decide)

theorem cex2_truth1 : TruthStep cex2S0 cex2E1 cex2T cex2T := by
  refine ⟨fun h => ?_, fun _ => ?_⟩
  · rw [cex2_res1] at h; cases h
  · show (∀ n, n ≠ "tag/x" → SameAt cex2S0 cex2T cex2T n) ∧
      ((parseTagName "tag/x").2.2 = true → ∀ id, id < cex2S0.next → (cex2T "tag/x" id = true ↔ id ∈ cex2F.ids))
    refine ⟨fun n _ t _ id _ => rfl, fun h => ?_⟩
    rw [cex2_parse] at h; cases h

theorem cex2_jobText1 : JobTextOK cex2S0 cex2E1 cex2St1 cex2T cex2T :=
  fun _ _ _ hj => (cex2_nojob0 hj).elim

theorem cex2_stepOK1 : StepOK' cex2S0 cex2T cex2T cex2E1 cex2St1 cex2T :=
  ⟨cex2_payload1, trivial, cex2_truth1, trivial, cex2_jobText1⟩

/-- the witness does violate the contract that is being dropped -/
theorem cex2_not_featOK : ¬ EvFeatOK cex2E1 := by
  intro h
  have h' : FeatRefOK cex2F := h
  exact h'.1 (by intro h; cases h) (by decide)

/-! ## event 2: `markDel mark/m [0]` satisfies every contract -/

theorem cex2_payload2 : PayloadOK cex2S1 cex2E2 := ⟨trivial, trivial, trivial, trivial, trivial⟩

theorem cex2_truth2 : TruthStep cex2S1 cex2E2 cex2T cex2T1 := by
  refine ⟨fun h => ?_, fun _ => ?_⟩
  · rw [cex2_step2] at h; cases h
  · show if [0] = [] then SameOn cex2S1 cex2T cex2T1 else
      ∀ t, sget cex2S1.tags "mark/m" = some t →
        (∀ id, id < cex2S1.next → (cex2T1 "mark/m" id = true ↔ (id ∈ t.mat ∧ id ∉ [0]))) ∧
        ChangesIn cex2S1 cex2S1.next
          (fun n id => n = "mark/m" ∧ id < cex2S1.next ∧ cex2T1 "mark/m" id ≠ cex2T "mark/m" id) cex2T cex2T1
    rw [if_neg (by simp)]
    intro t ht
    rw [cex2_sgetM1] at ht
    cases ht
    refine ⟨fun id _ => ?_, ?_⟩
    · show false = true ↔ id ∈ [0] ∧ id ∉ [0]
      constructor
      · intro h; cases h
      · intro h; exact absurd h.1 h.2
    · intro n t ht id hid hne
      have h0 : id = 0 := by
        have : false ≠ decide (id = 0) := hne
        simpa using this
      subst h0
      have hb : Dep cex2S1.tags cex2S1.next
          (fun n id => n = "mark/m" ∧ id < cex2S1.next ∧ cex2T1 "mark/m" id ≠ cex2T "mark/m" id) "mark/m" 0 :=
        Dep.base ⟨rfl, hid, by decide⟩
      rcases cex2_sget1 ht with ⟨rfl, _⟩ | ⟨rfl, _⟩
      · exact hb
      · exact Dep.main cex2_sgetX1 (List.mem_singleton.2 rfl) hb

/-- the mark tag is not the incarnation the job was started for (identity 0 against 1) -/
theorem cex2_jobText2 : JobTextOK cex2S1 cex2E2 {} cex2T cex2T1 := by
  intro jn snap held hj
  obtain ⟨_, rfl, _⟩ := cex2_job1 hj
  show ∀ t, sget cex2S1.tags "mark/m" = some t → t.gen = cex2X.gen → _
  intro t ht hg
  rw [cex2_sgetM1] at ht
  cases ht
  exact absurd hg (by decide)

theorem cex2_stepOK2 : StepOK' cex2S1 cex2T cex2T cex2E2 {} cex2T1 :=
  ⟨cex2_payload2, trivial, cex2_truth2, trivial, cex2_jobText2⟩

/-! ## event 3: `tagDone tag/x [0]` satisfies every contract -/

theorem cex2_ghost1 : ghostNext cex2S0 cex2E1 cex2T cex2T = cex2T := rfl
theorem cex2_ghost2 : ghostNext cex2S1 cex2E2 cex2T1 cex2T = cex2T := rfl

theorem cex2_payload3 : PayloadOK cex2S2 cex2E3 := by
  refine ⟨trivial, ?_, ?_, trivial, trivial⟩
  · intro jn snap held hj
    exact (cex2_job2 hj).1
  · intro id hid
    show id < 2
    have : id ∈ [0] := hid
    simp only [List.mem_cons, List.not_mem_nil, or_false] at this
    omega

theorem cex2_truth3 : TruthStep cex2S2 cex2E3 cex2T1 cex2T1 :=
  ⟨fun _ _ _ _ _ _ => rfl, fun _ _ _ _ _ _ => rfl⟩

theorem cex2_result3 : ResultOK cex2S2 cex2E3 cex2T := by
  intro snap held hj id
  obtain ⟨_, rfl, _⟩ := cex2_job2 hj
  show id ∈ [0] ↔ id ∈ [0, 1] ∧ decide (id = 0) = true
  simp only [List.mem_cons, List.not_mem_nil, or_false, decide_eq_true_eq]
  omega

theorem cex2_stepOK3 : StepOK' cex2S2 cex2T1 cex2T cex2E3 {} cex2T1 :=
  ⟨cex2_payload3, trivial, cex2_truth3, cex2_result3, fun _ _ _ _ => trivial⟩

/-! ## the run -/

theorem cex2_runOK : RunOK' cex2S0 cex2T cex2T cex2H := by
  have e1 : (step cex2S0 cex2E1 cex2St1).1 = cex2S1 := by rw [cex2_step1]
  have e2 : (step cex2S1 cex2E2 {}).1 = cex2S2 := by rw [cex2_step2]
  refine ⟨cex2_stepOK1, ?_⟩
  rw [e1, cex2_ghost1]
  refine ⟨cex2_stepOK2, ?_⟩
  rw [e2, cex2_ghost2]
  exact ⟨cex2_stepOK3, trivial⟩

theorem cex2_runSt : runSt cex2S0 cex2H = cex2S3 := by
  show runSt (step cex2S0 cex2E1 cex2St1).1 _ = _
  rw [cex2_step1]
  show runSt (step cex2S1 cex2E2 {}).1 _ = _
  rw [cex2_step2]
  show runSt (step cex2S2 cex2E3 {}).1 _ = _
  rw [cex2_step3]
  rfl

theorem cex2_runT : runT cex2T cex2H = cex2T1 := rfl

/-- the final state decides stream 0 for tag/x wrongly -/
theorem cex2_not_inv : ¬ C06.Inv cex2S3 cex2T1 := by
  intro h
  have h1 : sget cex2S3.tags "tag/x" = some cex2X2 := rfl
  have h2 : (0 : Nat) < cex2S3.next := by decide
  have := (h "tag/x" cex2X2 h1 0 h2 (by intro h; cases h)).1 (List.mem_singleton.2 rfl)
  cases this

/-- without the facts contract `EvFeatOK` "decided ⇒ correct" is not preserved along histories: a tag whose
    definition references a mark tag but whose facts do not report the tag-reference feature is created, its
    job starts, the mark tag is updated (the touched stream goes to `rst`), and the completion does not apply
    `rst` to the tag because its definition claims to look at ids only -/
theorem featRefOK_counterexample :
    ¬ (∀ (s : St) (T g : Truth) (h : Hist), Good s T g → RunOK' s T g h → C06.Inv (runSt s h) (runT T h)) := by
  intro h
  have := h cex2S0 cex2T cex2T cex2H cex2_good cex2_runOK
  rw [cex2_runSt, cex2_runT] at this
  exact cex2_not_inv this

end Pk.Props.C06Reach
