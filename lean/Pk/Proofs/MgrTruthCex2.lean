/-
  MgrTruthCex2 — the added side condition `MarkRefOK` (Pk/Props/C06ReachSpec.lean) cannot be dropped.

  Witness: the state reached from the initial state by `importPcaps ["a.pcap"]`,
  `importDone 1 2 [(0,[0,1])] [] [] [0,1]`, `addTag mark/m "id:0"`, `addTag tag/x "tag:m"` (the tagging job
  for tag/x starts): mark/m = "id:0" matches exactly stream 0, tag/x = "tag:m" (mainT = [mark/m], mfeat = 0)
  has both streams pending and its job in flight.  Event 1: `markDel mark/m [0]` (mark/m is now empty, so
  tag/x matches nothing; the touched stream is recorded in `rst`).  Event 2: `tagDone tag/x [0]` (the search
  result is the truth at job start).  Every other contract holds for both events (`Good`, `PayloadOK`,
  `ImportAddsNew`, `TruthStep`, `ResultOK`, `JobTextOK`), but `rst` is not applied to tag/x (its definition
  looks at ids only), so afterwards tag/x has `mat = [0]`, `unc = []` although stream 0 does not match.
-/
import Pk.Props.C06ReachSpec
namespace Pk.Props.C06Reach
open Pk.Mgr Pk.Props.MgrReach Pk.Proofs.MgrTruth Pk.Proofs.MgrTags

/-- `StepOK` without `MarkRefOK` -/
structure StepOK' (s : St) (T g : Truth) (e : Ev) (st : Started) (T' : Truth) : Prop where
  payload : PayloadOK s e
  addsNew : ImportAddsNew s e
  truth : TruthStep s e T T'
  result : ResultOK s e g
  jobText : JobTextOK s e st T T'

/-! ## the witness -/

/-- mark/m before the mark update -/
def cex2M : Tag :=
  { defn := "id:0", mainT := [], subT := [], mfeat := 1, sfeat := 0, isMarkDef := true, mat := [0],
    refBy := ["tag/x"] }
/-- mark/m after the mark update -/
def cex2M1 : Tag :=
  { defn := "id:-1", mainT := [], subT := [], mfeat := 1, sfeat := 0, isMarkDef := true, mat := [],
    refBy := ["tag/x"] }
/-- tag/x while its job is in flight (also the job's snapshot) -/
def cex2X : Tag := { defn := "tag:m", mainT := ["mark/m"], subT := [], mfeat := 0, sfeat := 0, unc := [0, 1] }
/-- tag/x after the completion -/
def cex2X2 : Tag :=
  { defn := "tag:m", mainT := ["mark/m"], subT := [], mfeat := 0, sfeat := 0, mat := [0], unc := [] }

/-- the start state -/
def cexS : St :=
  { tags := [("mark/m", cex2M), ("tag/x", cex2X)], idx := [0], files := [(0, [0, 1])], used := [(0, 2)],
    next := 2, all := 2, nrec := 2, pcaps := ["a.pcap"], tag := true, jTag := some ("tag/x", cex2X, [0]) }
/-- after `markDel mark/m [0]` -/
def cexS1 : St :=
  { tags := [("mark/m", cex2M1), ("tag/x", cex2X)], idx := [0], files := [(0, [0, 1])], used := [(0, 2)],
    next := 2, all := 2, nrec := 2, pcaps := ["a.pcap"], tag := true, rst := [0],
    jTag := some ("tag/x", cex2X, [0]) }
/-- after `tagDone tag/x [0]` -/
def cexS2 : St :=
  { tags := [("mark/m", cex2M1), ("tag/x", cex2X2)], idx := [0], files := [(0, [0, 1])], used := [(0, 1)],
    next := 2, all := 2, nrec := 2, pcaps := ["a.pcap"], tag := false, rst := [0], jTag := none }

def cexE1 : Ev := .markDel "mark/m" [0]
def cexE2 : Ev := .tagDone "tag/x" [0]

/-- the truth before event 1 (and the ghost: the truth when the job for tag/x started): stream 0 -/
def cex2T : Truth := fun _ id => decide (id = 0)
/-- the truth after event 1: mark/m is empty, so nothing matches -/
def cex2T1 : Truth := fun _ _ => false

theorem cex2_markName : isMarkName "mark/m" = true := by simp [isMarkName]
theorem cex2_tagName : isMarkName "tag/x" = false := by simp [isMarkName]

/-- the model's transition for event 1 -/
theorem cex2_step1 : step cexS cexE1 {} = (cexS1, .ok) := by
  unfold cexE1
  rw [step_markDel_eq]
  have hg : ("mark/m".startsWith "mark/" || "mark/m".startsWith "generated/") = true := by simp
  rw [hg]
  rfl

/-- the model's transition for event 2 -/
theorem cex2_step2 : step cexS1 cexE2 {} = (cexS2, .none) := rfl

/-! ## lookups in the literal tables -/

theorem cex2_sget {n : String} {t : Tag} (h : sget cexS.tags n = some t) :
    (n = "mark/m" ∧ t = cex2M) ∨ (n = "tag/x" ∧ t = cex2X) := by
  have h' : sget [("mark/m", cex2M), ("tag/x", cex2X)] n = some t := h
  rw [sget_cons] at h'
  split at h'
  · next hn => exact Or.inl ⟨(by simpa using hn.symm), (Option.some.inj h').symm⟩
  · rw [sget_cons] at h'
    split at h'
    · next hn => exact Or.inr ⟨(by simpa using hn.symm), (Option.some.inj h').symm⟩
    · simp [sget] at h'

theorem cex2_mem {nt : String × Tag} (h : nt ∈ cexS.tags) : nt = ("mark/m", cex2M) ∨ nt = ("tag/x", cex2X) := by
  have h' : nt ∈ [("mark/m", cex2M), ("tag/x", cex2X)] := h
  simpa using h'

theorem cex2_sget1 {n : String} {t : Tag} (h : sget cexS1.tags n = some t) :
    (n = "mark/m" ∧ t = cex2M1) ∨ (n = "tag/x" ∧ t = cex2X) := by
  have h' : sget [("mark/m", cex2M1), ("tag/x", cex2X)] n = some t := h
  rw [sget_cons] at h'
  split at h'
  · next hn => exact Or.inl ⟨(by simpa using hn.symm), (Option.some.inj h').symm⟩
  · rw [sget_cons] at h'
    split at h'
    · next hn => exact Or.inr ⟨(by simpa using hn.symm), (Option.some.inj h').symm⟩
    · simp [sget] at h'

theorem cex2_job {jn : String} {snap : Tag} {held : List Nat} (h : cexS.jTag = some (jn, snap, held)) :
    jn = "tag/x" ∧ snap = cex2X ∧ held = [0] := by
  have : ("tag/x", cex2X, [0]) = (jn, snap, held) := Option.some.inj h
  cases this
  exact ⟨rfl, rfl, rfl⟩

theorem cex2_job1 {jn : String} {snap : Tag} {held : List Nat} (h : cexS1.jTag = some (jn, snap, held)) :
    jn = "tag/x" ∧ snap = cex2X ∧ held = [0] := by
  have : ("tag/x", cex2X, [0]) = (jn, snap, held) := Option.some.inj h
  cases this
  exact ⟨rfl, rfl, rfl⟩

/-! ## the start state satisfies all invariants -/

theorem cex2_refsM : cex2M.refs = [] := rfl
theorem cex2_refsX : cex2X.refs = ["mark/m"] := rfl
theorem cex2_sgetM : sget cexS.tags "mark/m" = some cex2M := rfl
theorem cex2_sgetX : sget cexS.tags "tag/x" = some cex2X := rfl

theorem cex2_reach : Reach cexS := by
  refine ⟨?_, ?_, ?_, ?_, ?_, ?_, ?_, ?_, ?_, ?_, ?_, ?_, ?_, ?_, ?_, ?_⟩
  · show List.Pairwise (· < ·) ["mark/m", "tag/x"]
    simp only [List.pairwise_cons, List.mem_cons, List.not_mem_nil, or_false, forall_eq, false_imp_iff, implies_true,
      List.Pairwise.nil, and_true]
    decide
  · simp [C09.JobsWF, cexS]
  · refine ⟨fun f => ?_, fun f => ?_, fun f => ?_, ?_, ?_, ?_, ?_, ?_⟩
    · by_cases hf : f = 0
      · subst hf; rfl
      · have h0 : (0 == f) = false := by simpa using fun h => hf h.symm
        simp [C13.holders, C13.viewHeld, C13.jobHeld, cexS, nget, h0, List.count_cons]
    · by_cases hf : f = 0
      · subst hf; simp [cexS, nget]
      · have h0 : (0 == f) = false := by simpa using fun h => hf h.symm
        simp [cexS, nget, h0]
    · by_cases hf : f = 0
      · subst hf; rfl
      · have h0 : (0 == f) = false := by simpa using fun h => hf h.symm
        simp [cexS, nget, h0]
    · simp [cexS]
    · simp [cexS]
    · simp [cexS]
    · simp [cexS]
    · simp [cexS]
  · intro jn held h; cases h
  · intro id hid
    refine ⟨0, List.mem_singleton.2 rfl, ?_⟩
    have hid' : id < 2 := hid
    show id ∈ [0, 1]
    simp only [List.mem_cons, List.not_mem_nil, or_false]
    omega
  · exact Nat.le_refl _
  · exact Nat.le_refl _
  · intro n t h id hid
    show id < 2
    rcases cex2_sget h with ⟨_, rfl⟩ | ⟨_, rfl⟩
    · cases hid
    · have : id ∈ [0, 1] := hid
      simp only [List.mem_cons, List.not_mem_nil, or_false] at this
      omega
  · refine ⟨?_, fun _ h => (by cases h), fun _ h => (by cases h), fun _ h => (by cases h),
      fun _ h => (by cases h), fun _ _ h => (by cases h)⟩
    intro n snap held h id hid
    obtain ⟨_, rfl, _⟩ := cex2_job h
    show id < 2
    have : id ∈ [0, 1] := hid
    simp only [List.mem_cons, List.not_mem_nil, or_false] at this
    omega
  · refine ⟨fun nt h id hid => ?_, fun n snap held h id hid => ?_⟩
    · show id < 2
      rcases cex2_mem h with rfl | rfl
      · have : id ∈ [0] := hid
        simp only [List.mem_cons, List.not_mem_nil, or_false] at this
        omega
      · cases hid
    · obtain ⟨_, rfl, _⟩ := cex2_job h
      cases hid
  · intro n t h c hc
    rcases cex2_sget h with ⟨_, rfl⟩ | ⟨_, rfl⟩ <;> cases hc
  · intro n t h c hc
    rcases cex2_sget h with ⟨_, rfl⟩ | ⟨_, rfl⟩ <;> cases hc
  · refine ⟨?_, ?_, ?_, ?_, ?_⟩
    · intro n snap held ot hj hot _
      obtain ⟨rfl, rfl, _⟩ := cex2_job hj
      rcases cex2_sget hot with ⟨hn, _⟩ | ⟨_, rfl⟩
      · exact absurd hn (by decide)
      · exact ⟨rfl, rfl⟩
    · intro n t h hm
      rcases cex2_sget h with ⟨_, rfl⟩ | ⟨rfl, _⟩
      · exact ⟨rfl, rfl⟩
      · rw [cex2_tagName] at hm; cases hm
    · intro n1 t1 n2 t2 h1 h2 hm1 hm2 _
      rcases cex2_sget h1 with ⟨rfl, _⟩ | ⟨_, rfl⟩
      · rw [cex2_markName] at hm1; cases hm1
      · rcases cex2_sget h2 with ⟨rfl, _⟩ | ⟨_, rfl⟩
        · rw [cex2_markName] at hm2; cases hm2
        · exact ⟨rfl, rfl⟩
    · intro n snap held hj hm
      obtain ⟨rfl, _, _⟩ := cex2_job hj
      rw [cex2_tagName] at hm; cases hm
    · intro n snap held hj _ m ot hot hm _
      obtain ⟨_, rfl, _⟩ := cex2_job hj
      rcases cex2_sget hot with ⟨rfl, _⟩ | ⟨_, rfl⟩
      · rw [cex2_markName] at hm; cases hm
      · exact ⟨rfl, rfl⟩
  · intro nt h r hr tr htr
    rcases cex2_mem h with rfl | rfl
    · rw [cex2_refsM] at hr; cases hr
    · rw [cex2_refsX] at hr
      have hr' : r = "mark/m" := by simpa using hr
      subst hr'
      rw [cex2_sgetM] at htr
      cases htr
      exact List.mem_singleton.2 rfl
  · intro nt h r hr
    rcases cex2_mem h with rfl | rfl
    · rw [cex2_refsM] at hr; cases hr
    · rw [cex2_refsX] at hr
      have hr' : r = "mark/m" := by simpa using hr
      subst hr'
      rw [cex2_sgetM]; rfl
  · exact ⟨fun _ => rfl, fun c hc => (by cases hc)⟩

theorem cex2_acyclic : C09.Acyclic cexS := rfl

theorem cex2_inv : C06.Inv cexS cex2T := by
  intro n t h id hid hnu
  have hid' : id < 2 := hid
  rcases cex2_sget h with ⟨_, rfl⟩ | ⟨_, rfl⟩
  · show id ∈ [0] ↔ decide (id = 0) = true
    simp
  · exfalso; apply hnu
    show id ∈ [0, 1]
    simp only [List.mem_cons, List.not_mem_nil, or_false]
    omega

theorem cex2_jobInv : JobInv cexS cex2T cex2T := by
  intro jn snap held ot hj hot _
  obtain ⟨rfl, rfl, _⟩ := cex2_job hj
  rcases cex2_sget hot with ⟨hn, _⟩ | ⟨_, rfl⟩
  · exact absurd hn (by decide)
  · refine Or.inr ⟨rfl, rfl, fun id hid hne => ?_⟩
    exfalso; apply hne
    have hid' : id < 2 := hid
    have hm : id ∈ cex2X.unc := by
      show id ∈ [0, 1]
      simp only [List.mem_cons, List.not_mem_nil, or_false]
      omega
    simp only [Ans, hm, if_true]

theorem cex2_good : Good cexS cex2T cex2T := ⟨cex2_reach, cex2_acyclic, cex2_inv, cex2_jobInv⟩

/-! ## event 1: `markDel mark/m [0]` satisfies every contract but `MarkRefOK` -/

theorem cex2_payload1 : PayloadOK cexS cexE1 := ⟨trivial, trivial, trivial, trivial, trivial⟩

theorem cex2_truth1 : TruthStep cexS cexE1 cex2T cex2T1 := by
  refine ⟨fun h => ?_, fun _ => ?_⟩
  · rw [cex2_step1] at h; cases h
  · show if [0] = [] then SameOn cexS cex2T cex2T1 else
      ∀ t, sget cexS.tags "mark/m" = some t →
        (∀ id, id < cexS.next → (cex2T1 "mark/m" id = true ↔ (id ∈ t.mat ∧ id ∉ [0]))) ∧
        ChangesIn cexS cexS.next
          (fun n id => n = "mark/m" ∧ id < cexS.next ∧ cex2T1 "mark/m" id ≠ cex2T "mark/m" id) cex2T cex2T1
    rw [if_neg (by simp)]
    intro t ht
    rw [cex2_sgetM] at ht
    cases ht
    refine ⟨fun id _ => ?_, ?_⟩
    · show false = true ↔ id ∈ [0] ∧ id ∉ [0]
      constructor
      · intro h; cases h
      · intro h; exact absurd h.1 h.2
    · intro n t ht id hid hne
      have h0 : id = 0 := by
        have : false ≠ decide (id = 0) := hne
        simpa using this
      subst h0
      have hb : Dep cexS.tags cexS.next
          (fun n id => n = "mark/m" ∧ id < cexS.next ∧ cex2T1 "mark/m" id ≠ cex2T "mark/m" id) "mark/m" 0 :=
        Dep.base ⟨rfl, hid, by decide⟩
      rcases cex2_sget ht with ⟨rfl, _⟩ | ⟨rfl, _⟩
      · exact hb
      · exact Dep.main cex2_sgetX (List.mem_singleton.2 rfl) hb

theorem cex2_jobText1 : JobTextOK cexS cexE1 {} cex2T cex2T1 := by
  intro jn snap held hj
  obtain ⟨rfl, _, _⟩ := cex2_job hj
  intro (he : "mark/m" = "tag/x")
  exact absurd he (by decide)

theorem cex2_stepOK1 : StepOK' cexS cex2T cex2T cexE1 {} cex2T1 :=
  ⟨cex2_payload1, trivial, cex2_truth1, trivial, cex2_jobText1⟩

/-- the witness does violate the condition that is being dropped -/
theorem cex2_not_markRefOK : ¬ MarkRefOK cexS cexE1 := by
  intro h
  have := (h "tag/x" cex2X [0] rfl ⟨cex2X, rfl, rfl⟩).1 (List.mem_singleton.2 rfl)
  exact this (by decide)

/-! ## event 2: `tagDone tag/x [0]` satisfies every contract -/

theorem cex2_ghost : ghostNext cexS cexE1 cex2T1 cex2T = cex2T := rfl

theorem cex2_payload2 : PayloadOK cexS1 cexE2 := by
  refine ⟨trivial, ?_, ?_, trivial, trivial⟩
  · intro jn snap held hj
    exact (cex2_job1 hj).1
  · intro id hid
    show id < 2
    have : id ∈ [0] := hid
    simp only [List.mem_cons, List.not_mem_nil, or_false] at this
    omega

theorem cex2_truth2 : TruthStep cexS1 cexE2 cex2T1 cex2T1 :=
  ⟨fun _ _ _ _ _ _ => rfl, fun _ _ _ _ _ _ => rfl⟩

theorem cex2_result2 : ResultOK cexS1 cexE2 cex2T := by
  intro snap held hj id
  obtain ⟨_, rfl, _⟩ := cex2_job1 hj
  show id ∈ [0] ↔ id ∈ [0, 1] ∧ decide (id = 0) = true
  simp only [List.mem_cons, List.not_mem_nil, or_false, decide_eq_true_eq]
  omega

theorem cex2_stepOK2 : StepOK' cexS1 cex2T1 cex2T cexE2 {} cex2T1 :=
  ⟨cex2_payload2, trivial, cex2_truth2, cex2_result2, fun _ _ _ _ => trivial⟩

/-! ## the final state decides stream 0 for tag/x wrongly -/

theorem cex2_not_inv : ¬ C06.Inv cexS2 cex2T1 := by
  intro h
  have h1 : sget cexS2.tags "tag/x" = some cex2X2 := rfl
  have h2 : (0 : Nat) < cexS2.next := by decide
  have := (h "tag/x" cex2X2 h1 0 h2 (by intro h; cases h)).1 (List.mem_singleton.2 rfl)
  cases this

/-- without `MarkRefOK` "decided ⇒ correct" is not preserved: a mark update while the job of a tag that
    references the mark tag directly (and looks at ids only) is in flight is lost at the completion -/
theorem markRefOK_counterexample :
    ¬ (∀ (s : St) (T g : Truth) (e1 : Ev) (st1 : Started) (T1 : Truth) (e2 : Ev) (st2 : Started) (T2 : Truth),
        Good s T g → StepOK' s T g e1 st1 T1 →
        StepOK' (step s e1 st1).1 T1 (ghostNext s e1 T1 g) e2 st2 T2 →
        C06.Inv (step (step s e1 st1).1 e2 st2).1 T2) := by
  intro h
  have e1 : (step cexS cexE1 {}).1 = cexS1 := by rw [cex2_step1]
  have e2 : (step cexS1 cexE2 {}).1 = cexS2 := by rw [cex2_step2]
  have h2 : StepOK' (step cexS cexE1 {}).1 cex2T1 (ghostNext cexS cexE1 cex2T1 cex2T) cexE2 {} cex2T1 := by
    rw [e1, cex2_ghost]; exact cex2_stepOK2
  have := h cexS cex2T cex2T cexE1 {} cex2T1 cexE2 {} cex2T1 cex2_good cex2_stepOK1 h2
  rw [e1, e2] at this
  exact cex2_not_inv this

end Pk.Props.C06Reach
