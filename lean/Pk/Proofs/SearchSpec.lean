/-
  Helper lemmas for C02: the executable page checker `validPage` against the relational spec.
-/
import Pk.Model.Search
import Pk.Proofs.SearchOrder

namespace Pk.Proofs.Search
open Pk.Search

private theorem pageOf_sublist (limit skip : Nat) (arr : List Rec) : (pageOf limit skip arr).Sublist arr := by
  unfold pageOf
  split
  · exact List.drop_sublist _ _
  · exact (List.take_sublist _ _).trans (List.drop_sublist _ _)

theorem validPage_nodup {ms arr : List Rec} {limit skip : Nat} (hnd : (ms.map (·.id)).Nodup) (hp : arr.Perm ms) :
    ((pageOf limit skip arr).map (·.id)).Nodup := by
  have h1 : (arr.map (·.id)).Nodup := ((hp.map (·.id)).nodup_iff).2 hnd
  exact List.Nodup.sublist ((pageOf_sublist limit skip arr).map _) h1

theorem validPage_subset {ms arr : List Rec} {limit skip : Nat} (hp : arr.Perm ms) :
    ∀ id ∈ (pageOf limit skip arr).map (·.id), ∃ m ∈ ms, m.id = id := by
  intro id hid
  obtain ⟨m, hm, rfl⟩ := List.mem_map.1 hid
  exact ⟨m, hp.mem_iff.1 ((pageOf_sublist limit skip arr).subset hm), rfl⟩

private theorem nodupIds_iff (l : List Nat) : nodupIds l = true ↔ l.Nodup := by
  induction l with
  | nil => simp [nodupIds]
  | cons a t ih => simp [nodupIds, ih, List.nodup_cons]

private theorem sortedBy_iff (lt : Rec → Rec → Bool) (l : List Rec) :
    sortedBy lt l = true ↔ l.Pairwise (fun a b => lt b a = false) := by
  induction l with
  | nil => simp [sortedBy]
  | cons a t ih => simp [sortedBy, ih, List.pairwise_cons]

private theorem findRec_some {ms : List Rec} {id : Nat} {r : Rec} (h : findRec ms id = some r) :
    r ∈ ms ∧ r.id = id := by
  unfold findRec at h
  have h1 := List.find?_some h
  have h2 := List.mem_of_find?_eq_some h
  simp at h1
  exact ⟨h2, h1⟩

private theorem findRec_of_mem {ms : List Rec} (hnd : (ms.map (·.id)).Nodup) {r : Rec} (h : r ∈ ms) :
    findRec ms r.id = some r := by
  induction ms with
  | nil => cases h
  | cons a t ih =>
    simp only [List.map_cons, List.nodup_cons] at hnd
    unfold findRec
    rw [List.find?_cons]
    rcases List.mem_cons.1 h with rfl | h
    · simp
    · have : a.id ≠ r.id := by
        intro e
        exact hnd.1 (e ▸ List.mem_map.2 ⟨r, h, rfl⟩)
      have hb : (a.id == r.id) = false := beq_eq_false_iff_ne.2 this
      rw [hb]
      exact ih hnd.2 h

private theorem mapM_findRec {ms : List Rec} : ∀ (res : List Nat) (rs : List Rec),
    res.mapM (findRec ms) = some rs → rs.map (·.id) = res ∧ ∀ r ∈ rs, r ∈ ms := by
  intro res
  induction res with
  | nil => intro rs h; simp at h; subst h; simp
  | cons a t ih =>
    intro rs h
    simp only [List.mapM_cons] at h
    cases h1 : findRec ms a with
    | none => simp [h1] at h
    | some x =>
      cases h2 : List.mapM (findRec ms) t with
      | none => simp [h1, h2] at h
      | some y =>
        simp [h1, h2] at h
        subst h
        obtain ⟨e1, e2⟩ := ih y h2
        obtain ⟨m1, m2⟩ := findRec_some h1
        simp [e1, m2]
        exact ⟨m1, e2⟩

private theorem mapM_findRec_of {ms : List Rec} (hnd : (ms.map (·.id)).Nodup) : ∀ (l : List Rec),
    (∀ r ∈ l, r ∈ ms) → (l.map (·.id)).mapM (findRec ms) = some l := by
  intro l
  induction l with
  | nil => intro _; simp
  | cons a t ih =>
    intro h
    simp only [List.map_cons, List.mapM_cons]
    rw [findRec_of_mem hnd (h a (by simp)), ih (fun r hr => h r (by simp [hr]))]
    rfl

private theorem nodup_of_map_id {l : List Rec} (h : (l.map (·.id)).Nodup) : l.Nodup := by
  unfold List.Nodup at h ⊢
  rw [List.pairwise_map] at h
  exact h.imp (fun hne e => hne (by rw [e]))

private theorem id_inj {ms : List Rec} (hnd : (ms.map (·.id)).Nodup) {a b : Rec} (ha : a ∈ ms) (hb : b ∈ ms)
    (e : a.id = b.id) : a = b := by
  have h1 := findRec_of_mem hnd ha
  have h2 := findRec_of_mem hnd hb
  rw [e, h2] at h1
  exact (Option.some.inj h1).symm

/-- the matches split into the records of `res` and the rest -/
private theorem split_perm {ms rs : List Rec} {res : List Nat} (hnd : (ms.map (·.id)).Nodup)
    (hres : res.Nodup) (hmap : rs.map (·.id) = res) (hsub : ∀ r ∈ rs, r ∈ ms) :
    (rs ++ ms.filter (fun m => !res.contains m.id)).Perm ms := by
  refine List.Perm.trans (List.Perm.append_right _ ?_) (List.filter_append_perm (fun m => res.contains m.id) ms)
  have hms := nodup_of_map_id hnd
  have hrs : rs.Nodup := nodup_of_map_id (hmap ▸ hres)
  refine (List.perm_ext_iff_of_nodup hrs (List.Nodup.sublist List.filter_sublist hms)).2 ?_
  intro m
  simp only [List.mem_filter, List.contains_iff_mem]
  constructor
  · intro hm
    exact ⟨hsub m hm, hmap ▸ List.mem_map.2 ⟨m, hm, rfl⟩⟩
  · intro ⟨hm, hid⟩
    rw [← hmap] at hid
    obtain ⟨r, hr, e⟩ := List.mem_map.1 hid
    have := id_inj hnd (hsub r hr) hm e
    exact this ▸ hr

/-! ### sorting -/

private def srt (keys : List SortKey) (l : List Rec) : List Rec := l.mergeSort (fun a b => !less keys b a)

private theorem srt_perm (keys : List SortKey) (l : List Rec) : (srt keys l).Perm l := List.mergeSort_perm _ _

private theorem srt_sorted (keys : List SortKey) (l : List Rec) :
    (srt keys l).Pairwise (fun a b => less keys b a = false) := by
  have := List.pairwise_mergeSort (le := fun a b => !less keys b a)
    (by
      intro a b c h1 h2
      simp only [Bool.not_eq_true'] at h1 h2 ⊢
      exact less_incomp_trans keys c b a h2 h1)
    (by
      intro a b
      cases h : less keys b a
      · simp
      · simp [less_asymm keys b a h])
    l
  simpa [srt] using this

/-- an upward closed predicate holding at an early position holds on everything behind it -/
private theorem count_up {R : Rec → Rec → Prop} {p : Rec → Bool} (hcl : ∀ a b, R a b → p a = true → p b = true) :
    ∀ (S : List Rec) (k : Nat) (b : Rec), S.Pairwise R → b ∈ S.take k → p b = true →
      S.length - k < (S.filter p).length := by
  intro S
  induction S with
  | nil => intro k b _ hb; simp at hb
  | cons x t ih =>
    intro k b hS hb hpb
    cases k with
    | zero => simp at hb
    | succ k =>
      rw [List.take_succ_cons] at hb
      rw [List.pairwise_cons] at hS
      rcases List.mem_cons.1 hb with hbx | hb
      · have hpx : p x = true := hbx ▸ hpb
        have : (x :: t).filter p = x :: t := by
          rw [List.filter_eq_self]
          intro a ha
          rcases List.mem_cons.1 ha with hax | ha
          · exact hax ▸ hpx
          · exact hcl _ _ (hS.1 a ha) hpx
        rw [this]; simp; omega
      · have := ih k b hS.2 hb hpb
        rw [List.filter_cons]
        split <;> simp <;> omega

/-- a downward closed predicate holding at a late position holds on everything in front of it -/
private theorem count_down {R : Rec → Rec → Prop} {q : Rec → Bool} (hcl : ∀ a b, R a b → q b = true → q a = true) :
    ∀ (S : List Rec) (k : Nat) (b : Rec), S.Pairwise R → b ∈ S.drop k → q b = true →
      k < (S.filter q).length := by
  intro S
  induction S with
  | nil => intro k b _ hb; simp at hb
  | cons x t ih =>
    intro k b hS hb hqb
    cases k with
    | zero =>
      have : b ∈ (x :: t).filter q := List.mem_filter.2 ⟨by simpa using hb, hqb⟩
      exact List.length_pos_of_mem this
    | succ k =>
      rw [List.drop_succ_cons] at hb
      rw [List.pairwise_cons] at hS
      have := ih k b hS.2 hb hqb
      have hx : q x = true := hcl _ _ (hS.1 b (List.mem_of_mem_drop hb)) hqb
      rw [List.filter_cons, if_pos hx]
      simp; omega

private theorem sound_core (keys : List SortKey) (ms rs rest : List Rec) (skip : Nat) (first last : Rec)
    (hperm : (rs ++ rest).Perm ms)
    (hsorted : rs.Pairwise (fun a b => less keys b a = false))
    (hfirst : rs.head? = some first) (hlast : rs.getLast? = some last)
    (hb : (rest.filter (fun m => less keys m last)).length ≤ skip)
    (ha : (rest.filter (fun m => less keys first m)).length + skip ≤ rest.length) :
    ∃ pre post, (pre ++ rs ++ post).Perm ms ∧
      (pre ++ rs ++ post).Pairwise (fun a b => less keys b a = false) ∧
      pre.length = skip ∧ post.length = rest.length - skip := by
  have hSp := srt_perm keys rest
  have hSs := srt_sorted keys rest
  generalize srt keys rest = S at hSp hSs
  have hlen : S.length = rest.length := hSp.length_eq
  refine ⟨S.take skip, S.drop skip, ?_, ?_, ?_, ?_⟩
  · refine List.Perm.trans ?_ hperm
    refine List.Perm.trans (List.Perm.append_right _ List.perm_append_comm) ?_
    rw [List.append_assoc]
    refine List.Perm.append_left _ ?_
    rw [List.take_append_drop]
    exact hSp
  · -- facts about the page
    have F3 : ∀ r ∈ rs, less keys r first = false := by
      obtain ⟨t, rfl⟩ := List.head?_eq_some_iff.1 hfirst
      intro r hr
      rcases List.mem_cons.1 hr with rfl | hr
      · exact less_irrefl keys _
      · exact (List.pairwise_cons.1 hsorted).1 r hr
    have F4 : ∀ r ∈ rs, less keys last r = false := by
      obtain ⟨t, rfl⟩ := List.getLast?_eq_some_iff.1 hlast
      intro r hr
      rcases List.mem_append.1 hr with hr | hr
      · exact (List.pairwise_append.1 hsorted).2.2 r hr last (by simp)
      · rw [List.mem_singleton.1 hr]; exact less_irrefl keys _
    have F1 : ∀ a ∈ S.take skip, less keys first a = false := by
      intro a ha'
      cases hfa : less keys first a with
      | false => rfl
      | true =>
        have := count_up (R := fun a b => less keys b a = false) (p := fun m => less keys first m)
          (fun x y hxy hx => less_lt_of_lt_of_le keys first x y hx hxy) S skip a hSs ha' hfa
        have e := (hSp.filter (fun m => less keys first m)).length_eq
        omega
    have F2 : ∀ b ∈ S.drop skip, less keys b last = false := by
      intro b hb'
      cases hbl : less keys b last with
      | false => rfl
      | true =>
        have := count_down (R := fun a b => less keys b a = false) (q := fun m => less keys m last)
          (fun x y hxy hy => less_lt_of_le_of_lt keys x y last hxy hy) S skip b hSs hb' hbl
        have e := (hSp.filter (fun m => less keys m last)).length_eq
        omega
    rw [← List.take_append_drop skip S] at hSs
    have hS' := List.pairwise_append.1 hSs
    rw [List.pairwise_append, List.pairwise_append]
    refine ⟨⟨hS'.1, hsorted, ?_⟩, hS'.2.1, ?_⟩
    · intro a ha' r hr
      exact less_incomp_trans keys r first a (F3 r hr) (F1 a ha')
    · intro a ha' b hb'
      rcases List.mem_append.1 ha' with ha' | hr
      · exact hS'.2.2 a ha' b hb'
      · exact less_incomp_trans keys b last a (F2 b hb') (F4 a hr)
  · rw [List.length_take]; omega
  · rw [List.length_drop]; omega

theorem validPage_sound' (ms : List Rec) (keys : List SortKey) (limit skip : Nat) (res : List Nat) (more : Bool)
    (hnd : (ms.map (·.id)).Nodup) :
    validPage ms keys limit skip res more = true →
    (∃ arr : List Rec, arr.Perm ms ∧ arr.Pairwise (fun a b => less keys b a = false) ∧
        res = (pageOf limit skip arr).map (·.id)) ∧ more = moreOf limit skip ms.length := by
  intro h
  unfold validPage at h
  simp only [] at h
  split at h
  · cases h
  · rename_i rs hrs
    simp only [Bool.and_eq_true, decide_eq_true_eq, beq_iff_eq] at h
    obtain ⟨⟨⟨⟨hnodup, hsorted⟩, hlen⟩, hmore⟩, hmatch⟩ := h
    refine ⟨?_, hmore⟩
    obtain ⟨hmap, hsub⟩ := mapM_findRec res rs hrs
    rw [nodupIds_iff] at hnodup
    rw [sortedBy_iff] at hsorted
    have hperm := split_perm hnd hnodup hmap hsub
    have hn : rs.length + (ms.filter (fun m => !res.contains m.id)).length = ms.length := by
      rw [← List.length_append]; exact hperm.length_eq
    generalize ms.filter (fun m => !res.contains m.id) = rest at hmatch hperm hn
    by_cases hne : rs = []
    · subst hne
      simp only [List.map_nil, List.length_nil] at hmap hlen
      refine ⟨srt keys ms, srt_perm _ _, srt_sorted _ _, ?_⟩
      have : pageOf limit skip (srt keys ms) = [] := by
        have hl := (srt_perm keys ms).length_eq
        unfold pageOf
        have hd : (srt keys ms).drop skip = [] := List.drop_of_length_le (by split at hlen <;> omega)
        rw [hd]; simp
      rw [this, ← hmap]; rfl
    · obtain ⟨first, hfirst⟩ : ∃ f, rs.head? = some f := by
        cases rs with
        | nil => exact absurd rfl hne
        | cons a t => exact ⟨a, rfl⟩
      have hlast := List.getLast?_eq_some_getLast hne
      rw [hfirst, hlast] at hmatch
      simp only [Bool.and_eq_true, decide_eq_true_eq] at hmatch
      obtain ⟨⟨_, hb⟩, ha⟩ := hmatch
      have hpos : 0 < rs.length := List.length_pos_iff.2 hne
      obtain ⟨pre, post, hp, hs, hpre, hpost⟩ :=
        sound_core keys ms rs rest skip first _ hperm hsorted hfirst hlast hb (by split at hlen <;> omega)
      refine ⟨pre ++ rs ++ post, hp, hs, ?_⟩
      have : pageOf limit skip (pre ++ rs ++ post) = rs := by
        unfold pageOf
        rw [List.append_assoc, List.drop_left' hpre]
        by_cases hl : limit = 0
        · rw [if_pos hl] at hlen ⊢
          have : post = [] := List.length_eq_zero_iff.1 (by omega)
          simp [this]
        · rw [if_neg hl] at hlen ⊢
          by_cases hrl : rs.length = limit
          · exact List.take_left' hrl
          · have : post = [] := List.length_eq_zero_iff.1 (by omega)
            rw [this, List.append_nil]
            exact List.take_of_length_le (by omega)
      rw [this, hmap]

/-! ### completeness -/

private theorem pageOf_decomp (limit skip : Nat) (arr : List Rec) :
    ∃ post, arr.drop skip = pageOf limit skip arr ++ post := by
  unfold pageOf
  split
  · exact ⟨[], by simp⟩
  · exact ⟨(arr.drop skip).drop limit, (List.take_append_drop _ _).symm⟩

private theorem complete_core (keys : List SortKey) (ms pre page post : List Rec) (skip k : Nat) (first last : Rec)
    (hp : (pre ++ page ++ post).Perm ms)
    (hnd : ((pre ++ page ++ post).map (·.id)).Nodup)
    (hs : (pre ++ page ++ post).Pairwise (fun a b => less keys b a = false))
    (hfirst : first ∈ page) (hlast : last ∈ page)
    (hpre : pre.length ≤ skip) (hpost : post.length ≤ k) :
    ((((ms.filter (fun m => !(page.map (·.id)).contains m.id)).filter (fun m => less keys m last)).all
        (fun m => !less keys first m) &&
      ((ms.filter (fun m => !(page.map (·.id)).contains m.id)).filter (fun m => less keys first m)).all
        (fun m => !less keys m last)) &&
      decide (((ms.filter (fun m => !(page.map (·.id)).contains m.id)).filter
        (fun m => less keys m last)).length ≤ skip) &&
      decide (((ms.filter (fun m => !(page.map (·.id)).contains m.id)).filter
        (fun m => less keys first m)).length ≤ k)) = true := by
  -- the rest is pre ++ post
  have hrest : (ms.filter (fun m => !(page.map (·.id)).contains m.id)).Perm (pre ++ post) := by
    refine List.Perm.trans (hp.symm.filter _) ?_
    rw [List.filter_append, List.filter_append]
    simp only [List.map_append, List.nodup_append, List.mem_append] at hnd
    have h1 : pre.filter (fun m => !(page.map (·.id)).contains m.id) = pre := by
      rw [List.filter_eq_self]
      intro a ha
      simp only [Bool.not_eq_true', ← Bool.not_eq_true, List.contains_iff_mem]
      intro hc
      exact hnd.1.2.2 a.id (List.mem_map.2 ⟨a, ha, rfl⟩) a.id hc rfl
    have h2 : page.filter (fun m => !(page.map (·.id)).contains m.id) = [] := by
      rw [List.filter_eq_nil_iff]
      intro a ha
      simp only [Bool.not_eq_true', ← Bool.not_eq_true, List.contains_iff_mem, Classical.not_not]
      exact List.mem_map.2 ⟨a, ha, rfl⟩
    have h3 : post.filter (fun m => !(page.map (·.id)).contains m.id) = post := by
      rw [List.filter_eq_self]
      intro a ha
      simp only [Bool.not_eq_true', ← Bool.not_eq_true, List.contains_iff_mem]
      intro hc
      exact hnd.2.2 a.id (Or.inr hc) a.id (List.mem_map.2 ⟨a, ha, rfl⟩) rfl
    rw [h1, h2, h3, List.append_nil]
  generalize ms.filter (fun m => !(page.map (·.id)).contains m.id) = rest at hrest
  rw [List.pairwise_append, List.pairwise_append] at hs
  have Gpre : ∀ a ∈ pre, ∀ r ∈ page, less keys r a = false := hs.1.2.2
  have Gpost : ∀ r ∈ page, ∀ b ∈ post, less keys b r = false :=
    fun r hr b hb => hs.2.2 r (List.mem_append.2 (Or.inr hr)) b hb
  have hB := hrest.filter (fun m => less keys m last)
  have hA := hrest.filter (fun m => less keys first m)
  rw [List.filter_append] at hB hA
  have hB2 : post.filter (fun m => less keys m last) = [] := by
    rw [List.filter_eq_nil_iff]
    intro a ha; simp [Gpost last hlast a ha]
  have hA2 : pre.filter (fun m => less keys first m) = [] := by
    rw [List.filter_eq_nil_iff]
    intro a ha; simp [Gpre a ha first hfirst]
  rw [hB2, List.append_nil] at hB
  rw [hA2, List.nil_append] at hA
  simp only [Bool.and_eq_true, decide_eq_true_eq, List.all_eq_true]
  refine ⟨⟨⟨?_, ?_⟩, ?_⟩, ?_⟩
  · intro m hm
    have := (List.mem_filter.1 (hB.mem_iff.1 hm)).1
    simp [Gpre m this first hfirst]
  · intro m hm
    have := (List.mem_filter.1 (hA.mem_iff.1 hm)).1
    simp [Gpost last hlast m this]
  · rw [hB.length_eq]
    exact Nat.le_trans (List.length_filter_le _ _) hpre
  · rw [hA.length_eq]
    exact Nat.le_trans (List.length_filter_le _ _) hpost

theorem validPage_complete' (ms : List Rec) (keys : List SortKey) (limit skip : Nat) (res : List Nat) (more : Bool)
    (hnd : (ms.map (·.id)).Nodup) (arr : List Rec) (hp : arr.Perm ms)
    (hs : arr.Pairwise (fun a b => less keys b a = false))
    (hr : res = (pageOf limit skip arr).map (·.id)) (hm : more = moreOf limit skip ms.length) :
    validPage ms keys limit skip res more = true := by
  subst hr hm
  have hsub := pageOf_sublist limit skip arr
  have hmem : ∀ r ∈ pageOf limit skip arr, r ∈ ms := fun r h => hp.mem_iff.1 (hsub.subset h)
  have hmapM := mapM_findRec_of hnd _ hmem
  have hlen := hp.length_eq
  obtain ⟨post, hpost⟩ := pageOf_decomp limit skip arr
  have hlen2 : arr.length - skip = (pageOf limit skip arr).length + post.length := by
    rw [← List.length_drop, hpost, List.length_append]
  unfold validPage
  simp only []
  rw [hmapM]
  simp only [Bool.and_eq_true]
  refine ⟨⟨⟨⟨?_, ?_⟩, ?_⟩, ?_⟩, ?_⟩
  · exact (nodupIds_iff _).2 (validPage_nodup hnd hp)
  · exact (sortedBy_iff _ _).2 (hs.sublist hsub)
  · rw [decide_eq_true_eq]
    unfold pageOf
    split
    · rw [List.length_drop]; omega
    · rw [List.length_take, List.length_drop]; omega
  · simp
  · split
    · rename_i first last hfirst hlast
      have hf : first ∈ pageOf limit skip arr := List.mem_of_mem_head? hfirst
      have hl : last ∈ pageOf limit skip arr := List.mem_of_getLast? hlast
      have hpos : 0 < (pageOf limit skip arr).length := List.length_pos_of_mem hf
      have harr : arr = arr.take skip ++ pageOf limit skip arr ++ post := by
        rw [List.append_assoc, ← hpost, List.take_append_drop]
      have hnd' : (arr.map (·.id)).Nodup := ((hp.map (·.id)).nodup_iff).2 hnd
      rw [harr] at hp hs hnd'
      exact complete_core keys ms (arr.take skip) (pageOf limit skip arr) post skip _ first last hp hnd' hs hf hl
        (by rw [List.length_take]; omega) (by omega)
    · rfl

end Pk.Proofs.Search
