/-
  Helper lemmas for C11More: what `inheritTagUncertainty` does to the table —
  it changes nothing but the `uncertain` sets (`UncOnly`), and it carries a set of pending ids from a
  tag to every tag that (transitively) references it (`inheritApply_pending`).
-/
import Pk.Model.TagGraph
import Pk.Proofs.TagGraph
import Pk.Proofs.TagGraphMoreSets

namespace Pk.Proofs.TagGraphMore
open Pk.TagGraph Pk.Proofs.TagGraph

/-- a tag without its `uncertain` set -/
def clearU (t : Tag) : Tag := { t with uncertain := [] }

/-- the two tables differ at most in `uncertain` sets -/
def UncOnly (m m' : TagMap) : Prop := ∀ k, (tget m' k).map clearU = (tget m k).map clearU

theorem UncOnly.refl (m : TagMap) : UncOnly m m := fun _ => rfl
theorem UncOnly.trans {a b c : TagMap} (h1 : UncOnly a b) (h2 : UncOnly b c) : UncOnly a c :=
  fun k => (h2 k).trans (h1 k)

theorem UncOnly.get {m m' : TagMap} (h : UncOnly m m') {k : Name} {u : Tag} (hu : tget m k = some u) :
    ∃ u', tget m' k = some u' ∧ clearU u' = clearU u := by
  have := h k
  rw [hu] at this
  cases h' : tget m' k with
  | none => rw [h'] at this; cases this
  | some u' =>
    rw [h'] at this
    exact ⟨u', rfl, by simpa using this⟩

theorem UncOnly.get' {m m' : TagMap} (h : UncOnly m m') {k : Name} {u' : Tag} (hu : tget m' k = some u') :
    ∃ u, tget m k = some u ∧ clearU u' = clearU u := by
  have := h k
  rw [hu] at this
  cases h' : tget m k with
  | none => rw [h'] at this; cases this
  | some u =>
    rw [h'] at this
    exact ⟨u, rfl, by simpa using this⟩

/-- equal up to `uncertain`: every other field agrees -/
theorem clearU_eq {a b : Tag} (h : clearU a = clearU b) :
    a.definition = b.definition ∧ a.mainTags = b.mainTags ∧ a.subTags = b.subTags ∧
    a.mainFeat = b.mainFeat ∧ a.subFeat = b.subFeat ∧ a.cond = b.cond ∧ a.matched = b.matched ∧
    a.known = b.known ∧ a.color = b.color ∧ a.converters = b.converters ∧
    a.referencedBy = b.referencedBy := by
  cases a; cases b
  simp only [clearU, Tag.mk.injEq] at h
  simp_all

theorem clearU_refs {a b : Tag} (h : clearU a = clearU b) : a.refs = b.refs := by
  have := clearU_eq h
  simp [Tag.refs, this.2.1, this.2.2.1]

theorem uncOnly_tmod (m : TagMap) (n : Name) (f : Tag → Tag) (hf : ∀ t, clearU (f t) = clearU t) :
    UncOnly m (tmod m n f) := by
  intro k
  rw [get_modify]
  by_cases hk : n = k
  · subst hk
    simp only [if_true]
    cases tget m n with
    | none => rfl
    | some t => simp [hf t]
  · simp [hk]

theorem uncOnly_inheritOne (all : List Nat) (m : TagMap) (n : Name) : UncOnly m (inheritOne all m n) := by
  unfold inheritOne
  apply uncOnly_tmod
  intro t
  split
  · rfl
  · split <;> rfl

theorem uncOnly_inheritApply (all : List Nat) (order : List Name) (m : TagMap) :
    UncOnly m (inheritApply all m order) := by
  induction order generalizing m with
  | nil => exact UncOnly.refl m
  | cons n ns ih =>
    unfold inheritApply
    simp only [List.foldl_cons]
    exact (uncOnly_inheritOne all m n).trans (ih _)

theorem uncOnly_inherit (st st' : State) (h : inherit st = some st') :
    UncOnly st.tags st'.tags ∧ st'.nextStreamID = st.nextStreamID ∧ st'.convs = st.convs := by
  unfold inherit at h
  split at h
  · cases h
  · cases h
    exact ⟨uncOnly_inheritApply _ _ _, rfl, rfl⟩

theorem uncOnly_refsOf {m m' : TagMap} (h : UncOnly m m') (k : Name) : refsOf m' k = refsOf m k := by
  unfold refsOf
  cases hm : tget m k with
  | none =>
    have := h k
    rw [hm] at this
    cases hm' : tget m' k with
    | none => rfl
    | some u => rw [hm'] at this; cases this
  | some u =>
    obtain ⟨u', hu', he⟩ := h.get hm
    rw [hu']
    exact clearU_refs he

/-! ### pending ids travel to every (transitive) referrer -/

/-- `k` is `target` or references (through any chain of main/sub references) `target` -/
inductive RefersTo (m : TagMap) (target : Name) : Name → Prop
  | self : RefersTo m target target
  | step {k r : Name} : r ∈ refsOf m k → RefersTo m target r → RefersTo m target k

/-- every id of `C` is pending for `k` -/
def Pending (C : Nat → Prop) (m : TagMap) (k : Name) : Prop := ∀ x, C x → x ∈ uncertainOf m k

theorem mem_foldl_unionNat (U : Name → List Nat) (l : List Name) (a : List Nat) (x : Nat) :
    x ∈ l.foldl (fun acc r => unionNat acc (U r)) a ↔ x ∈ a ∨ ∃ r ∈ l, x ∈ U r := by
  induction l generalizing a with
  | nil => simp
  | cons r l ih =>
    simp only [List.foldl_cons, ih, mem_unionNat, List.mem_cons]
    constructor
    · rintro ((h | h) | ⟨r', hr', h⟩)
      · exact Or.inl h
      · exact Or.inr ⟨r, Or.inl rfl, h⟩
      · exact Or.inr ⟨r', Or.inr hr', h⟩
    · rintro (h | ⟨r', hr' | hr', h⟩)
      · exact Or.inl (Or.inl h)
      · exact Or.inl (Or.inr (hr' ▸ h))
      · exact Or.inr ⟨r', hr', h⟩

theorem uncertainOf_inheritOne_ne (all : List Nat) (m : TagMap) (n k : Name) (h : n ≠ k) :
    uncertainOf (inheritOne all m n) k = uncertainOf m k := by
  unfold uncertainOf inheritOne
  rw [get_modify]
  simp [h]

/-- a step of the walk never loses a pending id (ids are stream ids below `nextStreamID`) -/
theorem pending_inheritOne_mono (C : Nat → Prop) (all : List Nat) (hall : ∀ x, C x → x ∈ all)
    (m : TagMap) (n k : Name) (h : Pending C m k) : Pending C (inheritOne all m n) k := by
  by_cases hk : n = k
  · subst hk
    intro x hx
    have hx' := h x hx
    unfold uncertainOf at hx' ⊢
    unfold inheritOne
    rw [get_modify]
    simp only [if_true]
    cases ht : tget m n with
    | none => rw [ht] at hx'; cases hx'
    | some ti =>
      rw [ht] at hx'
      simp only [Option.map_some]
      split
      · exact hx'
      · split
        · exact hall x hx
        · exact (mem_foldl_unionNat _ _ _ _).mpr (Or.inl hx')
  · intro x hx
    rw [uncertainOf_inheritOne_ne all m n k hk]
    exact h x hx

/-- the tag processed gains what one of its references has pending -/
theorem pending_inheritOne_gain (C : Nat → Prop) (all : List Nat) (hall : ∀ x, C x → x ∈ all)
    (m : TagMap) (n r : Name) (hr : r ∈ refsOf m n) (h : Pending C m r) :
    Pending C (inheritOne all m n) n := by
  intro x hx
  unfold refsOf at hr
  unfold uncertainOf inheritOne
  rw [get_modify]
  simp only [if_true]
  cases ht : tget m n with
  | none => rw [ht] at hr; cases hr
  | some ti =>
    rw [ht] at hr
    simp only [Option.map_some]
    have hr' : r ∈ ti.mainTags ∨ r ∈ ti.subTags := by simpa [Tag.refs] using hr
    split
    · rename_i he
      exfalso
      simp only [Bool.and_eq_true, List.isEmpty_iff] at he
      rcases hr' with h' | h'
      · rw [he.1] at h'; cases h'
      · rw [he.2] at h'; cases h'
    · split
      · exact hall x hx
      · rename_i hany
        rcases hr' with h' | h'
        · exact (mem_foldl_unionNat _ _ _ _).mpr (Or.inr ⟨r, h', h x hx⟩)
        · exfalso
          apply hany
          rw [List.any_eq_true]
          refine ⟨r, h', ?_⟩
          have := h x hx
          cases hu : uncertainOf m r with
          | nil => rw [hu] at this; cases this
          | cons a l => rfl

theorem refsOf_inheritApply (all : List Nat) (order : List Name) (m : TagMap) (k : Name) :
    refsOf (inheritApply all m order) k = refsOf m k :=
  uncOnly_refsOf (uncOnly_inheritApply all order m) k

theorem inheritApply_snoc (all : List Nat) (m : TagMap) (l : List Name) (n : Name) :
    inheritApply all m (l ++ [n]) = inheritOne all (inheritApply all m l) n := by
  simp [inheritApply, List.foldl_append]

/-- after the walk over a dependency-ordered list `l` (most recent first), every listed tag that refers
    to `target` has the ids pending that `target` had pending at the start -/
theorem inheritApply_pending (C : Nat → Prop) (all : List Nat) (hall : ∀ x, C x → x ∈ all)
    (m : TagMap) (target : Name) (htarget : Pending C m target)
    (l : List Name) (hord : Ord (refsOf m) l) :
    Pending C (inheritApply all m l.reverse) target ∧
    ∀ k ∈ l, RefersTo m target k → Pending C (inheritApply all m l.reverse) k := by
  induction l with
  | nil => exact ⟨htarget, fun k hk => by cases hk⟩
  | cons n older ih =>
    obtain ⟨ih1, ih2⟩ := ih hord.2
    simp only [List.reverse_cons]
    rw [inheritApply_snoc]
    refine ⟨pending_inheritOne_mono C all hall _ _ _ ih1, ?_⟩
    intro k hk hreach
    by_cases hkn : k ∈ older
    · exact pending_inheritOne_mono C all hall _ _ _ (ih2 k hkn hreach)
    · have hkn' : k = n := by
        rcases List.mem_cons.mp hk with h | h
        · exact h
        · exact absurd h hkn
      subst hkn'
      cases hreach with
      | self => exact pending_inheritOne_mono C all hall _ _ _ ih1
      | step hr hrt =>
        rename_i r
        have hro : r ∈ older := hord.1 r hr
        have := ih2 r hro hrt
        exact pending_inheritOne_gain C all hall _ k r (by rw [refsOf_inheritApply]; exact hr) this

theorem resolveOrder_spec (m : TagMap) (order : List Name) (h : resolveOrder m = some order) :
    Ord (refsOf m) order.reverse ∧ ∀ n ∈ tkeys m, n ∈ order.reverse := by
  unfold resolveOrder at h
  cases he : elim (refsOf m) (tkeys m) ((tkeys m).length + 1) [] with
  | none => rw [he] at h; cases h
  | some out =>
    rw [he] at h
    simp only [Option.map_some, Option.some.injEq] at h
    subst h
    obtain ⟨h1, h2, _⟩ := elim_some _ _ _ _ _ he trivial
    simp only [List.reverse_reverse]
    exact ⟨h1, h2⟩

/-- `inheritTagUncertainty`: ids pending for `target` become pending for every tag referring to it -/
theorem inherit_pending (C : Nat → Prop) (st st' : State) (h : inherit st = some st')
    (hall : ∀ x, C x → x < st.nextStreamID) (target : Name) (htarget : Pending C st.tags target) :
    ∀ k, (tget st.tags k).isSome → RefersTo st.tags target k → Pending C st'.tags k := by
  unfold inherit at h
  cases ho : resolveOrder st.tags with
  | none => rw [ho] at h; cases h
  | some order =>
    rw [ho] at h
    simp only [Option.some.injEq] at h
    subst h
    obtain ⟨hord, hkeys⟩ := resolveOrder_spec _ _ ho
    have hall' : ∀ x, C x → x ∈ st.allStreams := by
      intro x hx
      simpa [State.allStreams] using hall x hx
    have := (inheritApply_pending C st.allStreams hall' st.tags target htarget order.reverse hord).2
    simp only [List.reverse_reverse] at this
    intro k hk hr
    exact this k (hkeys k ((mem_keys _ _).mpr hk)) hr

/-! ### the walk only adds pending ids (below `nextStreamID`) -/

theorem inheritApply_grow (all : List Nat) (order : List Name) (m : TagMap) (k : Name) (x : Nat)
    (hx : x ∈ all) (h : x ∈ uncertainOf m k) : x ∈ uncertainOf (inheritApply all m order) k := by
  induction order generalizing m with
  | nil => exact h
  | cons n ns ih =>
    unfold inheritApply
    simp only [List.foldl_cons]
    apply ih
    exact pending_inheritOne_mono (fun y => y = x) all (fun y hy => hy ▸ hx) m n k
      (fun y hy => hy ▸ h) x rfl

/-- `inheritTagUncertainty` keeps every tag up to its pending set, and that set only grows (on existing
    streams) -/
theorem inherit_grow (st st' : State) (h : inherit st = some st') (k : Name) (u' : Tag)
    (hu' : tget st'.tags k = some u') :
    ∃ u, tget st.tags k = some u ∧ clearU u' = clearU u ∧
      ∀ x, x < st.nextStreamID → x ∈ u.uncertain → x ∈ u'.uncertain := by
  obtain ⟨hunc, _, _⟩ := uncOnly_inherit st st' h
  obtain ⟨u, hu, he⟩ := hunc.get' hu'
  refine ⟨u, hu, he, ?_⟩
  intro x hx hxu
  unfold inherit at h
  cases ho : resolveOrder st.tags with
  | none => rw [ho] at h; cases h
  | some order =>
    rw [ho] at h
    simp only [Option.some.injEq] at h
    subst h
    have := inheritApply_grow st.allStreams order st.tags k x (by simpa [State.allStreams] using hx)
      (by simpa [uncertainOf, hu] using hxu)
    simpa [uncertainOf, hu'] using this

theorem setU_of_clearU {a b : Tag} (h : clearU a = clearU b) (U : List Nat) :
    { a with uncertain := U } = { b with uncertain := U } := by
  cases a; cases b
  simp only [clearU, Tag.mk.injEq] at h
  simp_all

end Pk.Proofs.TagGraphMore
