/-
  Helper lemmas for C09: the cycle check `cycleLoop` (the sweep of `createsTagCycle`) resolves every tag
  iff the tag table has a topological order.
-/
import Pk.Proofs.MgrTerminationTaint
import Pk.Proofs.MgrConv
import Pk.Proofs.MgrSettleStuck
namespace Pk.Proofs.MgrTermination
open Pk.Mgr Pk.Proofs.MgrTags

def cstep (resolved : List String) (nt : String × Tag) : List String :=
  if resolved.contains nt.1 then resolved
  else if nt.2.refs.all (fun r => resolved.contains r) then nt.1 :: resolved else resolved

theorem cyclePass_eq (tags : List (String × Tag)) (R : List String) : cyclePass tags R = tags.foldl cstep R := by
  unfold cyclePass
  congr 1

/-- `R` lists tags of the table, each after all the tags it references -/
inductive GoodOrder (tags : List (String × Tag)) : List String → Prop
  | nil : GoodOrder tags []
  | cons (n : String) (t : Tag) (R : List String) : (n, t) ∈ tags → n ∉ R → (∀ r ∈ t.refs, r ∈ R) →
      GoodOrder tags R → GoodOrder tags (n :: R)

/-- the table has a topological order -/
def Topo (tags : List (String × Tag)) : Prop := ∃ R, GoodOrder tags R ∧ ∀ k ∈ tags.map (·.1), k ∈ R

theorem GoodOrder.nodup {tags R} (h : GoodOrder tags R) : R.Nodup := by
  induction h with
  | nil => exact List.nodup_nil
  | cons n t R _ hn _ _ ih => exact List.nodup_cons.mpr ⟨hn, ih⟩

theorem GoodOrder.keys {tags R} (h : GoodOrder tags R) : ∀ n ∈ R, n ∈ tags.map (·.1) := by
  induction h with
  | nil => intro n hn; cases hn
  | cons n t R hm _ _ _ ih =>
    intro x hx
    rcases List.mem_cons.mp hx with rfl | hx
    · exact List.mem_map.mpr ⟨_, hm, rfl⟩
    · exact ih x hx

theorem nodup_length_le {l m : List String} (hn : l.Nodup) (hs : ∀ x ∈ l, x ∈ m) : l.length ≤ m.length := by
  induction l generalizing m with
  | nil => simp
  | cons a l ih =>
    have ha : a ∈ m := hs a (by simp)
    simp only [List.nodup_cons] at hn
    have h1 : ∀ x ∈ l, x ∈ m.erase a := by
      intro x hx
      have : x ≠ a := by rintro rfl; exact hn.1 hx
      rw [List.mem_erase_of_ne this]; exact hs x (by simp [hx])
    have := ih hn.2 h1
    rw [List.length_erase_of_mem ha] at this
    have : 0 < m.length := List.length_pos_of_mem ha
    simp only [List.length_cons]; omega

theorem GoodOrder.length_le {tags R} (h : GoodOrder tags R) : R.length ≤ tags.length := by
  have := nodup_length_le h.nodup h.keys
  simpa using this

/-! ### the sweep keeps a good order -/

theorem cstep_good {tags} (R : List String) (nt : String × Tag) (hm : nt ∈ tags) (h : GoodOrder tags R) :
    GoodOrder tags (cstep R nt) := by
  unfold cstep
  split
  · exact h
  · rename_i hc
    split
    · rename_i ha
      refine GoodOrder.cons nt.1 nt.2 R hm (by simpa using hc) ?_ h
      intro r hr
      have := List.all_eq_true.mp ha r hr
      simpa using this
    · exact h

theorem fold_good {tags} (l : List (String × Tag)) (hl : ∀ x ∈ l, x ∈ tags) (R : List String)
    (h : GoodOrder tags R) : GoodOrder tags (l.foldl cstep R) := by
  induction l generalizing R with
  | nil => exact h
  | cons a l ih =>
    simp only [List.foldl_cons]
    exact ih (fun x hx => hl x (List.mem_cons_of_mem _ hx)) _ (cstep_good R a (hl a List.mem_cons_self) h)

theorem cycleLoop_good (tags : List (String × Tag)) (fuel : Nat) (R : List String) (h : GoodOrder tags R) :
    GoodOrder tags (cycleLoop fuel tags R) := by
  induction fuel generalizing R with
  | zero => exact h
  | succ fuel ih =>
    simp only [cycleLoop]
    split
    · exact h
    · apply ih
      rw [cyclePass_eq]
      exact fold_good tags (fun _ hx => hx) R h

/-! ### progress -/

theorem cstep_len (R : List String) (nt : String × Tag) : R.length ≤ (cstep R nt).length := by
  unfold cstep
  split
  · exact Nat.le_refl _
  · split
    · simp
    · exact Nat.le_refl _

theorem cstep_sub (R : List String) (nt : String × Tag) : ∀ x ∈ R, x ∈ cstep R nt := by
  intro x hx
  unfold cstep
  split
  · exact hx
  · split
    · exact List.mem_cons_of_mem _ hx
    · exact hx

theorem fold_len (l : List (String × Tag)) (R : List String) : R.length ≤ (l.foldl cstep R).length := by
  induction l generalizing R with
  | nil => exact Nat.le_refl _
  | cons a l ih => simp only [List.foldl_cons]; exact Nat.le_trans (cstep_len R a) (ih _)

theorem fold_sub (l : List (String × Tag)) (R : List String) : ∀ x ∈ R, x ∈ l.foldl cstep R := by
  induction l generalizing R with
  | nil => exact fun _ h => h
  | cons a l ih => intro x hx; simp only [List.foldl_cons]; exact ih _ x (cstep_sub R a x hx)

theorem cstep_cases (R : List String) (a : String × Tag) : cstep R a = R ∨ cstep R a = a.1 :: R := by
  unfold cstep
  split
  · exact Or.inl rfl
  · split
    · exact Or.inr rfl
    · exact Or.inl rfl

theorem cstep_fire (R : List String) (nt : String × Tag) (hn : nt.1 ∉ R) (hr : ∀ r ∈ nt.2.refs, r ∈ R) :
    cstep R nt = nt.1 :: R := by
  unfold cstep
  have h1 : R.contains nt.1 = false := by simpa using hn
  have h2 : (nt.2.refs.all fun r => R.contains r) = true := by
    apply List.all_eq_true.mpr
    intro r hr'; simpa using hr r hr'
  rw [h1, h2]
  rfl

/-- a tag that can be resolved makes the sweep grow -/
theorem fold_fire (l : List (String × Tag)) (R : List String) (nt : String × Tag) (hm : nt ∈ l)
    (hn : nt.1 ∉ R) (hr : ∀ r ∈ nt.2.refs, r ∈ R) : R.length < (l.foldl cstep R).length := by
  induction l generalizing R with
  | nil => cases hm
  | cons a l ih =>
    simp only [List.foldl_cons]
    rcases cstep_cases R a with hsame | hcons
    · rw [hsame]
      rcases List.mem_cons.mp hm with rfl | hm'
      · rw [cstep_fire R nt hn hr] at hsame
        have := congrArg List.length hsame
        simp at this
      · exact ih R hm' hn hr
    · have := fold_len l (cstep R a)
      rw [hcons] at this ⊢
      simp only [List.length_cons] at this
      omega

theorem cycleLoop_fix (tags : List (String × Tag)) (fuel : Nat) (R : List String) :
    (cyclePass tags (cycleLoop fuel tags R)).length = (cycleLoop fuel tags R).length ∨
    R.length + fuel ≤ (cycleLoop fuel tags R).length := by
  induction fuel generalizing R with
  | zero => right; simp [cycleLoop]
  | succ fuel ih =>
    simp only [cycleLoop]
    split
    · rename_i he
      left; simpa using he
    · rename_i hne
      have h1 : R.length ≤ (cyclePass tags R).length := by rw [cyclePass_eq]; exact fold_len _ _
      have h2 : (cyclePass tags R).length ≠ R.length := by simpa using hne
      rcases ih (cyclePass tags R) with h | h
      · exact Or.inl h
      · right; omega

/-- soundness: a complete sweep is a topological order -/
theorem topo_of_full (tags : List (String × Tag)) (fuel : Nat)
    (h : (cycleLoop fuel tags []).length = tags.length) : Topo tags := by
  have hg := cycleLoop_good tags fuel [] GoodOrder.nil
  refine ⟨_, hg, ?_⟩
  exact nodup_subset_length hg.nodup hg.keys (by simp [h])

/-- completeness: with enough fuel the sweep resolves every tag of a table that has a topological order -/
theorem full_of_topo (tags : List (String × Tag)) (hs : Sorted tags) (fuel : Nat) (hf : tags.length ≤ fuel)
    (h : Topo tags) : (cycleLoop fuel tags []).length = tags.length := by
  obtain ⟨R0, hg0, hall⟩ := h
  have hg := cycleLoop_good tags fuel [] GoodOrder.nil
  have hle := hg.length_le
  rcases cycleLoop_fix tags fuel [] with hfix | hfix
  · -- at a fixpoint everything in `R0` is resolved
    generalize cycleLoop fuel tags [] = R at hg hle hfix ⊢
    have hsub : ∀ n ∈ R0, n ∈ R := by
      clear hall
      induction hg0 with
      | nil => intro n hn; cases hn
      | cons n t R0' hm hn hr _ ih =>
        intro x hx
        rcases List.mem_cons.mp hx with rfl | hx
        · apply Classical.byContradiction
          intro hc
          have := fold_fire tags R (x, t) hm hc (fun r hr' => ih r (hr r hr'))
          rw [← cyclePass_eq] at this
          omega
        · exact ih x hx
    have hkeys : ∀ k ∈ tags.map (·.1), k ∈ R := fun k hk => hsub k (hall k hk)
    have := nodup_length_le (sorted_nodup_keys hs) hkeys
    simp only [List.length_map] at this
    omega
  · simp only [List.length_nil, Nat.zero_add] at hfix
    omega


/-- in a table with a topological order, some pending tag is eligible -/
theorem topo_all_decided (tags : List (String × Tag)) (hs : Sorted tags) (ht : Topo tags)
    (hne : ∀ nt ∈ tags, MgrSettle.eligT tags nt.2 = false) : ∀ nt ∈ tags, nt.2.unc = [] := by
  obtain ⟨R, hg, hall⟩ := ht
  have key : ∀ n ∈ R, ∀ t, sget tags n = some t → t.unc = [] := by
    clear hall
    induction hg with
    | nil => intro n hn; cases hn
    | cons n t R' hm hn hr _ ih =>
      intro x hx t' ht'
      rcases List.mem_cons.mp hx with rfl | hx
      · have := MgrConv.mem_sget_of_sorted _ hs _ _ hm
        rw [this] at ht'; cases ht'
        apply Classical.byContradiction
        intro hu
        have he : MgrSettle.eligT tags t = true := by
          rw [MgrSettle.eligT_iff]
          refine ⟨hu, fun r hr' => ?_⟩
          unfold tagUnc
          cases hg' : sget tags r with
          | none => rfl
          | some tr => exact ih r (hr r hr') tr hg'
        rw [hne _ hm] at he; cases he
      · exact ih x hx t' ht'
  intro nt hnt
  exact key nt.1 (hall _ (List.mem_map.mpr ⟨nt, hnt, rfl⟩)) nt.2 (MgrConv.mem_sget_of_sorted _ hs _ _ hnt)

end Pk.Proofs.MgrTermination
