-- Root of the `Pk` library: models, proofs, property theorems.
import Pk.Model.Bits
