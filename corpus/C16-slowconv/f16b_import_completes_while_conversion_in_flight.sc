pcap a.pcap 0:100:c:foo
import a.pcap
rel import
addtag tag/a red sport:2000
rel tag
convhold on
updconv tag/a conv1
pcap b.pcap 0:300:c:bar
import b.pcap
rel import
convhold off
settle
