# F64: converter detached from its last tag while its conversion is in flight; the retried conversion stores output after the detach, a later import re-runs the detached converter
pcap q0.pcap 0:100:c:GET 1:101:c:GET
import q0.pcap
addtag tag/a red id:1
rel any 4
pcap p00.pcap 1:1001:c:bar 1:1002:c:GET
import p00.pcap
rel any 3
convhold on
updconv tag/a conv1
pcap p02.pcap 1:1405:c:foo 2:1409:c:bar 2:1414:s:x 2:1416:c:GET
deltag tag/a
convhold off
rel convert
import p02.pcap p03.pcap
settle
