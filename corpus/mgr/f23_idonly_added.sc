addtag tag/a red id:0:
pcap p00.pcap 1:2:c:foo
import p00.pcap
rel tag
rel import
settle
