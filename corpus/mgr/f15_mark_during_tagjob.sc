pcap p00.pcap 0:1:c:foo 1:2:c:bar 2:3:c:x
import p00.pcap
rel import
addtag mark/m red id:1
addtag tag/a red mark:m
markadd mark/m 2
rel tag
settle
