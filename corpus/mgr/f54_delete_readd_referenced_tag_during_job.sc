pcap q0.pcap 0:100:c:bar 1:101:c:bar
import q0.pcap
rel import
addtag tag/a red id:0
rel tag
addtag tag/b red -tag:a
deltag tag/b
deltag tag/a
addtag tag/a red id:1
addtag tag/b red -tag:a
settle
