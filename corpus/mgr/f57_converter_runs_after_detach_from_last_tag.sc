pcap a.pcap 0:100:c:x 1:101:c:x
import a.pcap
rel import
addtag mark/m red id:-1
updconv mark/m conv1
markadd mark/m 0,1
pcap b.pcap 1:300:c:y
import b.pcap
rel import
markdel mark/m 1
updconv mark/m -
rel convert
rel convert
settle
