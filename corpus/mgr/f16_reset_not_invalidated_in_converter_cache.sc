pcap p01.pcap 0:500:c:foo 0:502:s:bar
import p01.pcap
rel import
addtag tag/a red sport:2000
rel tag
updconv tag/a conv1
rel convert
pcap p00.pcap 0:100:c:GET
import p00.pcap
rel import
settle
