pcap p00.pcap 0:1:c:foo 1:2:c:bar 2:3:c:x
import p00.pcap
rel import
addtag tag/b red sport:2000
rel tag
addtag tag/a red tag:b
updq tag/b sport:2001
rel tag
settle
