pcap q0.pcap 0:100:c:foo 1:101:c:bar
import q0.pcap
rel import
addtag tag/b red @s:cdata:f00 cbytes:@s:cbytes@
rel tag
addtag tag/a red sport:2000
rel tag
updconv tag/a conv1
rel convert
rel tag
rel tag
settle
