pcap q0.pcap 0:100:c:foo 1:101:c:bar 2:102:c:foo
import q0.pcap
rel import
addtag tag/b red @s:cdata:f00 sbytes:@s:sbytes@
addtag tag/d red -sport:2003
updconv tag/d conv1
rel any 5
rel any 0
rel any 6
updconv tag/d -
settle
