addtag mark/m red id:0
updconv mark/m conv1
settle
