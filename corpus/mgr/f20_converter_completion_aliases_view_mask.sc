pcap p00.pcap 0:1:c:foo 1:2:c:bar
import p00.pcap
rel import
addtag tag/a red sport:2000
rel tag
addtag tag/d red cdata:foo
rel tag
updconv tag/a conv1
pcap p01.pcap 1:300:c:x
import p01.pcap
rel import
vopen 0
rel convert
settle
