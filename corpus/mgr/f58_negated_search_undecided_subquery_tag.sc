pcap q0.pcap 0:100:c:foo 1:101:c:bar
import q0.pcap
rel import
addtag tag/c red @s:cdata:foo cport:@s:cport@
