updconv tag/b conv1
rel import
updconv tag/a conv1
addtag service/s red -tag:a cdata:bar
rel merge
addtag mark/m red id:3
pcap p00.pcap 1:2:c:foo
import p00.pcap
markdel mark/m 0
pcap p01.pcap 1:203:c:GET 1:205:c:x 1:207:s:x 0:210:c:x 0:212:s:x
rel import
vrel 1
addtag service/s red tag:a
rel tag
pcap p02.pcap 3:403:c:GET 3:407:s:GET 3:409:c:bar 3:410:c:foo 3:413:s:foo
updname tag/c tag/z
updcolor tag/a blue
rel import
rel tag
import p01.pcap p02.pcap
addtag service/s red cdata:x cbytes:3:
markdel mark/m 3
pcap p03.pcap 2:266:c:x
import p03.pcap
rel import
pcap p04.pcap 3:605:c:x 3:607:c:GET 3:609:c:GET
import p04.pcap
addtag tag/b red cport:1001
addtag service/s red -cdata:GET
rel convert
rel convert
pcap p05.pcap 3:801:c:bar 3:802:s:bar 3:803:c:GET 3:806:c:x
updcolor mark/m blue
rel import
rel import
rel import
pcap p06.pcap 2:1002:c:GET 2:1007:c:GET
vopen 0
rel import
import p05.pcap p06.pcap
vrel 1
rel import
vrel 0
vrel 1
vrel 2
settle
