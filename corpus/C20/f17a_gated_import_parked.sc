# F17a, gated form: the import job has run FromPcap and is parked before posting its completion; the
# loop reads the builder's list (saveState / Status / events do the same)
pcap p00.pcap 1:2:c:x 2:6:c:x 2:9:c:GET 2:12:c:x
import p00.pcap
rel import
settle
