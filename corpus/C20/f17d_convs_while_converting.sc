# F17d (fixed c8b5e6f): converters.Process.run sets cmd / exitCode on the process goroutine while the loop
# reads them through ProcessStats (ListConverters, converter events)
free
pcap q100.pcap 4:100100:c:foo 4:100105:s:bar 5:100107:c:GET 6:100109:c:x
import q100.pcap
addtag tag/free red cport:1004
updconv tag/free conv1
convs
sleep 5
convs
view conv1
convs
sleep 60
convs
resetconv conv1
convs
view conv1
sleep 30
convs
