# F17c (fixed dabd39c): the endpoint goroutine writes LastConnected / ReceivedPackets / LastDisconnected
# while the service loop copies the endpoint info
free
endpoint add
sleep 100
endpoints
sleep 200
endpoints
sleep 1100
endpoints
