# F17b (fixed 38df9db): the ticker goroutine of tagUpdateEventWorker looked at len(mgr.updatedTagsToSignal)
# while the service loop writes the map on every tag edit
free
addtag tag/a red cport:1004
sleep 1100
updcolor tag/a blue
addtag mark/m red id:0
sleep 1100
tags
