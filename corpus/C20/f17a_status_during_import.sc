# F17a (fixed 9dfd256): the service loop reads builder.knownPcaps / packetCount (Status, KnownPcaps, saveState)
# while the import goroutine appends to them in FromPcap
free
pcap q100.pcap 4:100100:c:foo 4:100105:s:bar 5:100107:c:GET
import q100.pcap
status
pcaps
status
pcap q101.pcap 4:100300:c:foo 6:100305:c:bar
import q101.pcap
status
pcaps
sleep 20
status
