# F17e (known): the cancellation goroutine of an endpoint closes the os.File while the reader goroutine is
# still opening it with pcap.OpenOfflineFile
free
endpoint add
sleep 1
endpoint del
endpoint add
sleep 3
endpoint del
endpoint add
sleep 8
endpoint del
endpoint add
endpoint del
sleep 50
