pcap p00.pcap 1:2:c:x 2:6:c:x 2:9:c:GET 2:12:c:x
import p00.pcap
rel any 9
addtag service/s red sport:2002 sbytes:1:
updq service/s cport:1002
updconv service/s -
rel any 5
rel tag
updcolor tag/b green
vopen 0
rel convert
rel any 3
pcap p01.pcap 2:203:c:bar 2:208:c:x 2:213:s:x 2:214:c:x 2:219:c:bar
import p01.pcap
rel any 7
vrel 1
rel import
rel any 6
markdel mark/m 1
rel any 10
rel tag
vrel 1
vrel 2
settle
free
listen 0
status
pcap q100.pcap 5:100001:c:x 5:100003:s:x 6:100007:c:GET 6:100012:c:foo 4:100015:c:GET 4:100019:c:foo 4:100024:s:bar
addtag tag/a red tag:a
sleep 5
resetconv conv1
view -
updconv tag/a conv1
endpoint add
setconfig 1
config
webhooks
convs
pcap q101.pcap 4:100204:c:GET 7:100207:c:bar 7:100212:c:bar 7:100217:c:x
import q100.pcap q101.pcap
deltag tag/c
endpoints
view conv1
listen 0
setconfig 0
config
webhooks
tags
markadd mark/m 2
pcaps
sleep 1
deltag mark/m
view conv1
unlisten 1
addtag tag/c red cport:1006 -sport:2001
deltag tag/c
view -
pcaps
tags
status
pcap q102.pcap 4:100405:c:foo 4:100409:c:foo 7:100410:c:GET 7:100412:s:GET
import q102.pcap
pcap q103.pcap 4:100605:c:GET 4:100606:s:foo 7:100607:c:x
import q103.pcap
updq tag/d cdata:GET
endpoint add
addtag service/s red cport:1005
updconv tag/a -
pcaps
pcap q104.pcap 4:100805:c:GET
import q104.pcap
addtag tag/d red tag:a
status
view conv1
updconv mark/m conv1
endpoints
pcap q105.pcap 6:101001:c:GET 6:101003:c:x 6:101007:c:x 6:101010:c:GET 6:101011:c:foo 5:101016:c:foo
import q105.pcap
updconv tag/b -
updconv mark/m conv1
pcaps
setconfig 1
config
webhooks
updconv tag/a conv1
addtag service/s red sdata:bar
markdel mark/m 2
webhook add http://127.0.0.1:1/hook1
convs
view conv1
markadd mark/m 1
updconv tag/c conv1
tags
view -
sleep 60
sleep 1050
pcap q106.pcap 5:100855:c:foo
import q106.pcap
convs
status
tags
endpoints
convs
