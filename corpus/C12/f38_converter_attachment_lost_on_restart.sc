pcap p00.pcap 0:1:c:foo 1:2:c:bar
import p00.pcap
rel import
addtag tag/a red sport:2000
rel tag
updconv tag/a conv1
rel convert
updq tag/a sport:2000 cbytes:4:
crashcheck 0
settle
crashcheck 0
