pcap p02.pcap 
import p02.pcap
endpoint add 127.0.0.1:11
crashcheck 100
pcap p03.pcap 0:100:c:x
endpoint add 127.0.0.1:10
crashcheck 101
