rel any 8
rel tag
crashcheck 0
pcap p00.pcap 3:5:c:bar 3:6:s:x 2:7:c:GET 1:8:c:x 1:9:s:bar 1:13:c:bar
import p00.pcap
rel any 7
rel any 10
rel tag
vopen 1
markadd mark/m 0
rel tag
crashcheck 14
vrel 0
pcap p01.pcap 3:203:c:GET 3:205:c:x 1:210:c:GET 1:213:c:bar 1:215:c:foo 2:217:c:x
import p01.pcap
crashcheck 0
rel import
pcap p02.pcap 3:103:c:bar
crashcheck 0
rel tag
crashcheck 20
rel import
vrel 0
rel any 7
rel any 5
crashcheck 0
rel import
markdel mark/m 2
pcap p03.pcap 2:402:c:foo 2:403:c:x
import p02.pcap
pcap p04.pcap 2:604:c:foo 0:606:c:GET 0:607:s:bar 0:609:c:GET 2:613:c:bar 2:618:c:x
import p03.pcap p04.pcap
rel tag
crashcheck 0
addtag tag/d red cport:1000
crashcheck 0
rel any 0
rel any 7
updconv tag/d conv1
rel any 6
addtag tag/b red cport:1003 cport:1003
vopen 1
updq tag/b sport:2003 -sport:2001
crashcheck 0
rel tag
rel tag
crashcheck 5
pcap p05.pcap 3:805:c:GET
import p05.pcap
vrel 0
vrel 1
vrel 2
settle
crashcheck 0
